#!/bin/bash
# tools/sweep.sh <tier> <seed list...> : run every claimed check with each seed (no evidence), print exit + new signatures
tier=$1; shift
cd /verif
for s in "$@"; do
  for p in $(python3 -c "import json;print(' '.join(c['property_id'] for c in json.load(open('/verif/MANIFEST.json'))['checks']))"); do
    out=$(VERIF_SEED=$s timeout 7200 ./check $p --tier $tier --no-evidence --jobs ${JOBS:-16} 2>&1)
    rc=$?
    echo "seed=$s $p exit=$rc $(echo "$out" | grep -E 'wall=' | sed 's/.*wall=/wall=/')"
    echo "$out" | grep -E "^  signature|^INCONCLUSIVE" | cut -c1-260
  done
done
