#!/bin/bash
# tools/confirm_wave.sh <wave dir> <PID> : confirm <wave dir>/<PID>/seeds/s1, s2 ... as the next free /verif/seeded/<PID>-sN names
wave=$1; pid=$2
for sd in $(ls -d $wave/$pid/seeds/s[0-9]* 2>/dev/null | sort); do
  [ -f $sd/patch.diff ] || continue
  n=1; while [ -e /verif/seeded/$pid-s$n ] || [ -e /verif/seeded-obsolete/$pid-s$n ]; do n=$((n+1)); done
  git -C $wave/$pid checkout -- src 2>/dev/null
  echo "== $pid $(basename $sd) -> $pid-s$n"
  /venv/bin/python /verif/tools/confirm_seed.py $wave/$pid seeds/$(basename $sd) $pid $pid-s$n 2>&1 | grep -v WARNING | tail -12
done
