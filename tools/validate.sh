#!/bin/bash
# validate MANIFEST.json and evidence/*.json against the schemas
python3-vt - <<'PY'
import json, jsonschema, glob, sys
m=json.load(open('/verif/MANIFEST.json')); jsonschema.validate(m, json.load(open('/root/.vp/MANIFEST.schema.json')))
es=json.load(open('/root/.vp/EVIDENCE.schema.json')); bad=0
for f in sorted(glob.glob('/verif/evidence/*.json')):
    try: jsonschema.validate(json.load(open(f)), es)
    except Exception as e: bad+=1; print('INVALID', f, str(e)[:300])
ids=[json.loads(l)['id'] for l in open('/verif/properties.jsonl')]
cl=[c['property_id'] for c in m['checks']]; na=[x['property_id'] for x in m.get('not_applicable',[])]
assert sorted(cl+na)==sorted(ids), (cl,na)
print('manifest ok; claimed',len(cl),'na',len(na),'evidence files',len(glob.glob('/verif/evidence/*.json')),'invalid',bad)
sys.exit(1 if bad else 0)
PY
