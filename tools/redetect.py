#!/venv/bin/python
"""re-run the quick check(s) for every /verif/seeded/<name>/ on a patched scratch copy and rewrite meta.json detected_by
usage: tools/redetect.py [name ...]   (default: all)   env VERIF_SEED respected"""
import json, glob, os, subprocess, sys
names = sys.argv[1:] or sorted(os.path.basename(d) for d in glob.glob("/verif/seeded/*"))
for n in names:
    d = "/verif/seeded/" + n
    mf = os.path.join(d, "meta.json")
    if not os.path.exists(mf):
        continue
    m = json.load(open(mf))
    det = {}
    for c in m.get("detected_by", {m["property"]: None}).keys():
        r = subprocess.run(["/verif/tools/seedtest.py", os.path.join(d, "patch.diff"), c], capture_output=True, text=True)
        det[c] = [l for l in r.stdout.splitlines() if l.startswith(c) or "PATCH FAILED" in l][:1]
    m["detected_by"] = det
    m.setdefault("first_detected_by", det)
    json.dump(m, open(mf, "w"), indent=1)
    print(n, det, flush=True)
