#!/venv/bin/python
"""Run checks against a patched scratch copy of /repo/src (never touches /repo).
usage: tools/seedtest.py <patch.diff> <PID> [<PID> ...] [--tier quick|thorough] [--jobs N] [--families f1,f2]
prints one line per check: PID exit=<rc> first VIOLATION signature(s)."""
import os, shutil, subprocess, sys, tempfile
ROOT = os.path.dirname(os.path.dirname(os.path.abspath(__file__)))
args = sys.argv[1:]
tier, jobs, fams = "quick", os.environ.get("VERIF_JOBS", "16"), None
for opt in ("--tier", "--jobs", "--families"):
    if opt in args:
        i = args.index(opt); val = args[i + 1]; del args[i:i + 2]
        if opt == "--tier": tier = val
        elif opt == "--jobs": jobs = val
        else: fams = val
patch, pids = args[0], args[1:]
scratch = tempfile.mkdtemp(prefix="vf-seed-", dir="/var/tmp")
try:
    shutil.copytree("/repo/src", os.path.join(scratch, "src"))
    first = open(patch).read(4000)
    strip = "-p1" if ("--- a/" in first or "+++ b/" in first) else "-p0"
    r = subprocess.run(["patch", strip, "-s", "-i", os.path.abspath(patch)], cwd=scratch, capture_output=True, text=True)
    if r.returncode:
        print("PATCH FAILED", (r.stdout + r.stderr).replace("\n", " ")[:300]); sys.exit(3)
    env = dict(os.environ)
    if fams: env["VERIF_FAMILIES"] = fams
    for pid in pids:
        p = subprocess.run([os.path.join(ROOT, "check"), pid, "--tier", tier, "--src", os.path.join(scratch, "src"),
                            "--no-evidence", "--jobs", jobs], capture_output=True, text=True, env=env, timeout=7200)
        sigs = [l.strip() for l in p.stdout.splitlines() if l.strip().startswith("signature:")]
        inc = [l.strip()[:200] for l in p.stdout.splitlines() if l.startswith("INCONCLUSIVE")]
        print("%s exit=%d %s %s" % (pid, p.returncode, "; ".join(s[11:] for s in sigs[:4]), " | ".join(inc[:2])))
finally:
    shutil.rmtree(scratch, ignore_errors=True)
