#!/venv/bin/python
"""insert the output of tools/seed_table.py between the SEED_TABLE markers of DESIGN.md"""
import subprocess, re
t = subprocess.run(["/verif/tools/seed_table.py"], capture_output=True, text=True).stdout.strip()
s = open("/verif/DESIGN.md").read()
s = re.sub(r"<!-- SEED_TABLE_BEGIN -->.*?<!-- SEED_TABLE_END -->", lambda m: "<!-- SEED_TABLE_BEGIN -->\n" + t + "\n<!-- SEED_TABLE_END -->", s, flags=re.S)
open("/verif/DESIGN.md", "w").write(s)
print("rows", t.count("\n") - 1)
