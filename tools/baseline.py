#!/venv/bin/python
"""Run the repository's own suite (hooks/guard off) and compare with /root/.vp/BASELINE.json stable_pass.
usage: tools/baseline.py [repo_dir]   exit 0 iff every stable-pass test still passes."""
import json, os, subprocess, sys, tempfile, time
import xml.etree.ElementTree as ET


def run_pytest(args, cwd, env, xml, limit):
    """pytest sometimes does not exit after it has written the junit file (a daemon-less thread of the suite is left in
    accept()): wait for the process, but once the junit file is there and stable for 60 s, kill it"""
    p = subprocess.Popen(args, cwd=cwd, env=env, stdout=subprocess.DEVNULL, stderr=subprocess.DEVNULL)
    t0 = time.time(); seen = None
    while p.poll() is None:
        time.sleep(2)
        if os.path.exists(xml):
            st = (os.path.getsize(xml), os.path.getmtime(xml))
            if seen and seen[0] == st and time.time() - seen[1] > 60:
                p.kill(); break
            if not seen or seen[0] != st:
                seen = (st, time.time())
        if time.time() - t0 > limit:
            p.kill(); break
    p.wait()

repo = sys.argv[1] if len(sys.argv) > 1 else "/repo"
base = json.load(open("/root/.vp/BASELINE.json"))
stable = set(base["stable_pass"])
with tempfile.TemporaryDirectory() as td:
    xml = os.path.join(td, "r.xml")
    env = dict(os.environ); env.pop("NFCPY_VERIF", None)
    env["PYTHONPATH"] = os.path.join(repo, "src")
    run_pytest(["/venv/bin/python", "-m", "pytest", "-q", "-p", "no:cacheprovider", "--timeout=120",
                "--continue-on-collection-errors", "--junitxml=" + xml], repo, env, xml, 2400)
    passed = set()
    if not os.path.exists(xml):
        print("pytest produced no junit file"); sys.exit(2)
    for tc in ET.parse(xml).getroot().iter("testcase"):
        if not any(c.tag in ("failure", "error", "skipped") for c in tc):
            passed.add("%s::%s" % (tc.get("classname"), tc.get("name")))
missing = sorted(stable - passed)
# timing-sensitive tests (llcp timers of 10-20 ms) fail spuriously on a loaded machine: re-run the missing ones alone
for attempt in range(3):
    if not missing or len(missing) > 60:
        break
    nodes = []
    for m in missing:
        cls, name = m.split("::", 1)
        parts = cls.split(".")
        nodes.append("/".join(parts[:2]) + ".py::" + "::".join(parts[2:] + [name]))
    with tempfile.TemporaryDirectory() as td:
        xml = os.path.join(td, "r.xml")
        run_pytest(["/venv/bin/python", "-m", "pytest", "-q", "-p", "no:cacheprovider", "--timeout=300",
                    "--junitxml=" + xml] + nodes, repo, env, xml, 1200)
        if os.path.exists(xml):
            for tc in ET.parse(xml).getroot().iter("testcase"):
                if not any(c.tag in ("failure", "error", "skipped") for c in tc):
                    passed.add("%s::%s" % (tc.get("classname"), tc.get("name")))
    print("retry %d: %d of %d missing tests passed when re-run alone" % (attempt + 1, len(set(missing) & passed), len(missing)))
    missing = sorted(stable - passed)
print("stable_pass=%d passed_now=%d missing=%d" % (len(stable), len(passed), len(missing)))
for m in missing[:40]:
    print("  MISSING", m)
sys.exit(1 if missing else 0)
