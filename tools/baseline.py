#!/venv/bin/python
"""Run the repository's own suite (hooks/guard off) and compare with /root/.vp/BASELINE.json stable_pass.
usage: tools/baseline.py [repo_dir]   exit 0 iff every stable-pass test still passes."""
import json, os, subprocess, sys, tempfile
import xml.etree.ElementTree as ET
repo = sys.argv[1] if len(sys.argv) > 1 else "/repo"
base = json.load(open("/root/.vp/BASELINE.json"))
stable = set(base["stable_pass"])
with tempfile.TemporaryDirectory() as td:
    xml = os.path.join(td, "r.xml")
    env = dict(os.environ); env.pop("NFCPY_VERIF", None)
    env["PYTHONPATH"] = os.path.join(repo, "src")
    subprocess.run(["/venv/bin/python", "-m", "pytest", "-q", "-p", "no:cacheprovider", "--timeout=120",
                    "--continue-on-collection-errors", "--junitxml=" + xml], cwd=repo, env=env,
                   stdout=subprocess.DEVNULL, stderr=subprocess.DEVNULL)
    passed = set()
    if not os.path.exists(xml):
        print("pytest produced no junit file"); sys.exit(2)
    for tc in ET.parse(xml).getroot().iter("testcase"):
        if not any(c.tag in ("failure", "error", "skipped") for c in tc):
            passed.add("%s::%s" % (tc.get("classname"), tc.get("name")))
missing = sorted(stable - passed)
# timing-sensitive tests (llcp timers of 10-20 ms) fail spuriously on a loaded machine: re-run the missing ones alone
for attempt in range(3):
    if not missing or len(missing) > 60:
        break
    nodes = []
    for m in missing:
        cls, name = m.split("::", 1)
        parts = cls.split(".")
        nodes.append("/".join(parts[:2]) + ".py::" + "::".join(parts[2:] + [name]))
    with tempfile.TemporaryDirectory() as td:
        xml = os.path.join(td, "r.xml")
        subprocess.run(["/venv/bin/python", "-m", "pytest", "-q", "-p", "no:cacheprovider", "--timeout=300",
                        "--junitxml=" + xml] + nodes, cwd=repo, env=env, stdout=subprocess.DEVNULL, stderr=subprocess.DEVNULL)
        if os.path.exists(xml):
            for tc in ET.parse(xml).getroot().iter("testcase"):
                if not any(c.tag in ("failure", "error", "skipped") for c in tc):
                    passed.add("%s::%s" % (tc.get("classname"), tc.get("name")))
    print("retry %d: %d of %d missing tests passed when re-run alone" % (attempt + 1, len(set(missing) & passed), len(missing)))
    missing = sorted(stable - passed)
print("stable_pass=%d passed_now=%d missing=%d" % (len(stable), len(passed), len(missing)))
for m in missing[:40]:
    print("  MISSING", m)
sys.exit(1 if missing else 0)
