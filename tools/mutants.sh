#!/bin/bash
# tools/mutants.sh <PID> [mutant dir name, default PID] [extra seedtest args]: run every mutants/<dir>/*.patch against the quick tier of PID
pid=$1; dir=${2:-$1}; shift; shift
for p in /verif/mutants/$dir/*.patch; do echo -n "$(basename $p): "; timeout 1800 /verif/tools/seedtest.py $p $pid "$@" 2>&1 | grep -v "WARNING conda" | cut -c1-300; done
