#!/venv/bin/python
"""Confirm a seeded change in its scratch worktree and store it under /verif/seeded/<name>/.
usage: tools/confirm_seed.py <worktree> <seed dir inside worktree> <PID> <name> [--checks PID,PID]
steps: demo on clean tree (expect exit 0) -> git apply patch -> demo (expect exit !=0) -> repo baseline (missing=0)
       -> revert; then run our quick check(s) on a patched scratch copy; write meta.json."""
import json, os, shutil, subprocess, sys
wt, sd, pid, name = sys.argv[1:5]
checks = [pid]
if "--checks" in sys.argv:
    checks = sys.argv[sys.argv.index("--checks") + 1].split(",")
fams = None
if "--families" in sys.argv:
    fams = sys.argv[sys.argv.index("--families") + 1]
sd = os.path.join(wt, sd)
env = dict(os.environ, PYTHONPATH=os.path.join(wt, "src"))
def run(cmd, **kw):
    return subprocess.run(cmd, capture_output=True, text=True, **kw)
def demo():
    r = run(["timeout", "300", "/venv/bin/python", os.path.join(sd, "demo.py")], env=env, cwd=sd)
    return r.returncode, (r.stdout + r.stderr).strip().splitlines()[-3:]
assert run(["git", "-C", wt, "status", "--porcelain", "--", "src"]).stdout.strip() == "", "worktree src not clean"
res = {}
res["demo_clean"] = demo()
a = run(["git", "-C", wt, "apply", os.path.join(sd, "patch.diff")])
assert a.returncode == 0, a.stderr
try:
    res["demo_patched"] = demo()
    b = run(["/venv/bin/python", "/verif/tools/baseline.py", wt])
    res["baseline_patched"] = [l for l in b.stdout.splitlines() if "stable_pass" in l or "MISSING" in l][:5]
    res["baseline_rc"] = b.returncode
finally:
    run(["git", "-C", wt, "checkout", "--", "src"])
ok = res["demo_clean"][0] == 0 and res["demo_patched"][0] != 0 and res["baseline_rc"] == 0
print(json.dumps(res, indent=1)); print("CONFIRMED" if ok else "NOT CONFIRMED")
if not ok:
    sys.exit(1)
out = os.path.join("/verif/seeded", name)
os.makedirs(out, exist_ok=True)
for f in ("patch.diff", "demo.py", "NOTES.md"):
    if os.path.exists(os.path.join(sd, f)):
        shutil.copy(os.path.join(sd, f), os.path.join(out, f))
det = {}
for c in checks:
    cmd = ["/verif/tools/seedtest.py", os.path.join(out, "patch.diff"), c]
    if fams: cmd += ["--families", fams]
    r = run(cmd)
    det[c] = [l for l in r.stdout.splitlines() if l.startswith(c)][:1]
meta = {"property": pid, "name": name, "breaks": pid,
        "needs_to_manifest": "see NOTES.md",
        "confirmed": {"demo_on_clean_tree": res["demo_clean"], "demo_with_patch": res["demo_patched"],
                      "repo_baseline_with_patch": res["baseline_patched"]},
        "ran": ["tools/confirm_seed.py (demo clean/patched, tools/baseline.py with patch)",
                "tools/seedtest.py seeded/%s/patch.diff %s" % (name, " ".join(checks))],
        "detected_by": det, "first_detected_by": det}
json.dump(meta, open(os.path.join(out, "meta.json"), "w"), indent=1)
print(json.dumps(det, indent=1))
