#!/venv/bin/python
"""tools/mkmutant.py <out.patch> <file relative to /repo> <<< JSON [[old, new], ...]  -> unified diff (paths a/src/..)"""
import sys, json, difflib
out, rel = sys.argv[1], sys.argv[2]
pairs = json.load(sys.stdin)
s = open("/repo/" + rel).read(); t = s
for old, new in pairs:
    assert t.count(old) >= 1, "pattern not found: %r" % old
    t = t.replace(old, new, 1)
d = "".join(difflib.unified_diff(s.splitlines(True), t.splitlines(True), "a/" + rel, "b/" + rel))
import os; os.makedirs(os.path.dirname(out), exist_ok=True)
open(out, "w").write(d); print(out, len(d.splitlines()), "lines")
