#!/venv/bin/python
"""fill summary / needs_to_manifest of /verif/seeded/*/meta.json (texts condensed from the seeders' NOTES.md)"""
import json, os
T = {
"C01-s1": ("Type3TagEmulation.read_without_encryption: block-count guard '> 15' became '>= 15'", "emulated Type 3 Tag announcing Nbr=15 and a stored message of >= 225 bytes: the first 15-block read after a fresh activation is refused, tag.ndef is None"),
"C01-s2": ("Type4Tag NDEF discovery: capacity = mfs - 2 instead of mfs - tag + 2 (disagrees with _nlen_size for mapping 3.0)", "mapping version 3.0 layout (TLV 06h, 4-byte ENLEN) and a message of capacity or capacity-1 bytes: capacity 2 too large, write fails mid-way"),
"C02-s1": ("Type2Tag write: straddle test compares (offset+2)//4 with (offset+3)//4 instead of (offset+1)//4", "NDEF TLV at offset % 4 == 2, old and new message >= 255 bytes with different lengths, field lost exactly after the second-to-last WRITE"),
"C02-s2": ("Type4Tag write: single-UPDATE test forgets the NLEN field (len(data) <= MLc)", "message length in (MLc-2, MLc] (2-byte NLEN) and a cut after the first of the two resulting UPDATE BINARY commands"),
"C03-s1": ("Type2Tag write: terminator position is bounded before, not after, skipping reserved bytes", "reserved range covering the tail of the data area and a message of exactly capacity bytes: FEh lands on a lock/config byte behind the data area"),
"C03-s2": ("Type3Tag write: padding 16 - len % 16 and block count from the padded data", "message length a multiple of 16 equal to Nmaxb*16: one zero block is written to block Nmaxb+1"),
"C04-s1": ("NFC-DEP Target: retransmit branches no longer restore res = dep_res (an ATN response is repeated instead of the INF/ACK)", "a lost response frame: Initiator times out, sends ATN, retransmits and gets the ATN PDU back"),
"C04-s2": ("NFC-DEP Initiator receive chaining: self.pni += 1 without & 3", "a chained response whose continuation fragment is received while the Initiator's PNI is 3 (the 3rd, 7th ... exchange); no fault needed"),
"C05-s1": ("DataLinkConnection.send_window_slots: modulo 16 dropped", ">= 16 messages on one connection and a sender that tries to send at the N(S) wrap while its window is full"),
"C05-s2": ("TransmissionControlObject.dequeue: PDU that does not fit the aggregate is re-queued with append instead of appendleft", "aggregation on, peer RW >= 3, >= 3 messages queued and the second too big for what the first leaves"),
"C06-s1": ("SnepServer._serve: 'response fits one fragment' test <= became <", "GET response of exactly send_miu octets on a connection kept open, then a further request on it: that request is swallowed by the server's recv() although put_octets() returns True"),
"C06-s2": ("DataLinkConnection acknowledgement arithmetic without % 16 ('ignore stale acknowledgements')", "more than 15 + RW(remote) I PDUs in one direction on one connection (a message of 17+ fragments)"),
"C07-s1": ("llc.dispatch connect-by-name: self.snl.get(bytes(rcvd_pdu.sn))", "peer CONNECT PDU to SAP 1 without an SN TLV: TypeError in the run loop, connect() raises"),
"C07-s2": ("Type3TagEmulation.read_without_encryption: status flag 1 << i without % 8", "Read Without Encryption with 9-15 blocks whose first unreadable block is at list position >= 9: ValueError out of connect(card=)"),
"C08-s1": ("Type2Tag NDEF read: header size for the room check taken from the decoded length instead of the FFh marker", "NDEF TLV stored as 03 FF 00 LL whose value ends 1-2 bytes behind the data area with readable memory there"),
"C08-s2": ("ISO-DEP response-chaining loop no longer counts S(WTX) requests", "a card that chains a response needed for NDEF detection and sends endless S(WTX) between two chained blocks"),
"C09-s1": ("DataLinkConnection.close(): trailing acks_ready/send_token notify_all removed", "a thread in send() on a full window or in untimed poll('acks') at the moment the link terminates (any cause)"),
"C09-s2": ("llc.exchange catches pdu.DecodeError instead of pdu.Error", "an outgoing PDU that cannot be encoded (sendto(data, 64)): the run loop dies without terminate(), blocked calls and service threads stay blocked, connect() raises EncodeError"),
"C10-s1": ("TransmissionControlObject.dequeue: 'miu_size is not None' became 'miu_size'", "aggregation on and the PDUs collected so far leave a budget of exactly 0 with another UI/I PDU pending"),
"C10-s2": ("ServiceDiscovery.dequeue: SDREQ TLV charged 2 + len(name) instead of 3 + len(name)", "several concurrent resolve() requests whose TLVs sum to MIU+1..MIU+n"),
"C11-s1": ("Parameter.decode bounds check 2 + L > size became L >= size", "last TLV of a PDU overruns the PDU by exactly one byte, variable-length value, buffer continues (AGF / offset+size decode)"),
"C11-s2": ("ParameterExchange.__len__: OPT term uses truthiness instead of 'is not None'", "PAX PDU with OPT present and equal to 0"),
"C12-s1": ("ISO-DEP retransmit-after-R(ACK) sends command[offset:] instead of one MIU slice", "chained command, a non-final I-block lost, recovery via R(NAK)/R(ACK)"),
"C12-s2": ("ISO-DEP: only the first of several consecutive S(WTX) requests is answered", "a card that asks for a waiting time extension at least twice in a row for one block; no fault needed"),
"C13-s1": ("acr122 ccid_xfr_block: guard 'len(frame) < 10' removed", "a USB bulk read returning only 1-4 octets starting with 80h for any host command of an exchange: struct.error escapes"),
"C13-s2": ("rcs380 send_rsp_recv_cmd: RECEIVE_TIMEOUT tested before RF_OFF", "target role and a TgCommRF status word with both bits set: TimeoutError instead of BrokenLinkError"),
"C14-s1": ("pn53x Chipset.command: frame length mismatch checks != became >", "a response longer than its LEN field whose surplus bytes sum to 0 mod 256"),
"C14-s2": ("rcs380 Frame: LCS computed as (256 - len(data)) % 256", "host command payload of >= 256 bytes (RF data 252..290)"),
"C15-s1": ("ContactlessFrontend.close(): self.device = None only when driver close() did not raise", "driver close() raising IOError, then any other thread's sense/exchange: runs on the closed device"),
"C15-s2": ("_rdwr_connect: lock dropped around turn_off_led_and_buzzer()", "connect(rdwr) with on-connect true, presence loop ending while another thread is inside a locked driver call"),
"C16-s1": ("ISO-DEP response chaining: R(ACK) retry frame computed once before the loop (stale block number)", "response chained over >= 3 I-blocks and a timeout/transmission error on the 2nd or later R(ACK)"),
"C16-s2": ("Type2Tag.sector_select: 'if int(error) != TIMEOUT_ERROR: raise' became '> TIMEOUT_ERROR'", "multi-sector tag, access crossing into another sector, transmission/protocol error exactly on SECTOR SELECT packet 2: wrong sector addressed silently"),
"C17-s1": ("llc.close(): removal from the SAP skipped when the socket state is SHUTDOWN", "data link connection closed by the remote side first (recv() returns None), then local close(): address never freed"),
"C18-s1": ("sense(): final mute() guarded by an rf_on flag set only when a sense command returned normally", "in the last iteration every target that reaches the device ends in CommunicationError: field left on"),
"C18-s2": ("llc: 'self.mac = None' moved from activate() to __init__()", "a link really established once, on-release returning a false value, next activation finds no peer: stale mac reported as activated"),
"C19-s1": ("dep Initiator.activate: miu from atr_req.lr (own LRi) instead of atr_res.lr", "lri > lrt and a payload larger than LR(lrt)-3"),
"C19-s2": ("llc.run_as_target idle pacing uses cfg['recv-lto'] instead of cfg['send-lto']", "target role, local lto < 50 ms, idle link of >= 10 SYMM PDUs"),
"C20-s1": ("FelicaLite.read_with_mac: MAC compared by a loop whose accumulator is assigned, not or-ed (last byte decides)", "a response modified in transit such that MAC byte 7 still matches"),
"C20-s2": ("FelicaLite._authenticate: MAC taken as data[16:].rstrip(b'\\0')", "a random challenge for which the tag's correct MAC ends in a 00h byte (about 1 in 256)"),
}
for name, (summary, needs) in T.items():
    p = "/verif/seeded/%s/meta.json" % name
    if not os.path.exists(p):
        continue
    m = json.load(open(p))
    m["summary"] = summary
    m["needs_to_manifest"] = needs
    json.dump(m, open(p, "w"), indent=1)
print("updated", len(T))
