#!/venv/bin/python
"""(re)generate /verif/MANIFEST.json from the table below; properties without a vf/props module are listed not_applicable."""
import json, os
ROOT = os.path.dirname(os.path.dirname(os.path.abspath(__file__)))
CLAIMS = {
 # id: (category, technique, text, note, design_ref)
 "C01": ("exploration", "state-diff monitor on simulated tag memory: round trip through a fresh nfcpy reader AND an independent reference reader; capacity vs reference layout calculator; command-log oracle for oversize writes",
         "Real tag classes under a real ContactlessFrontend write/read simulated T1T/T2T/T3T/T4T tags and nfcpy's own Type 3 emulation over generated layouts (reserved ranges, NULL/control TLVs, Nbr/Nbw/Nmaxb, MLe/MLc/mapping versions) at boundary lengths; small layouts exhaustively over every length. Held = no oracle fired on the cases run.",
         "trusted: tag memory models vf/sim/t*.py and reference readers vf/ref/*_layout.py, t3_attr.py, t4_files.py (written from the NFC Forum specs)", "DESIGN.md 3/C01, 7.2-7.6"),
 "C02": ("fault_enumeration", "crash-point enumeration: the simulated tag leaves the field after the k-th state-changing command for every k of every write; fresh-reader outcome oracle",
         "For every generated write the uninterrupted run gives n state-changing commands; the write is repeated with the field cut after k = 0..n and a fresh nfcpy reader plus the reference reader classify the memory: old / empty / not readable / new are accepted, anything else is a violation.",
         "trusted: tag models apply one command atomically (no tearing inside a command)", "DESIGN.md 3/C02, 7.2-7.6"),
 "C03": ("exploration", "byte-wise memory diff and write-command log monitor on simulated tags (one-way lock/OTP bits modelled)",
         "After every write/format on generated layouts the simulated memory is diffed against the allowed set (NDEF TLV..end of data area minus reserved ranges / blocks 0..Nmaxb / the NDEF file) and every write command is checked to address the allowed area.",
         "trusted: tag memory models; format() of products that create the mapping is judged by the documented boundary", "DESIGN.md 3/C03, 7.2-7.6"),
 "C04": ("fault_enumeration", "lock-step history oracle over real nfc.dep Initiator/Target with per-frame fault scripts on a virtual clock; wire monitor (LEN vs LR, start byte); recovery-clause checker",
         "Real Initiator and Target (real activation) exchange id-carrying payloads over a lock-step air; fault scripts {deliver, lose, corrupt} are enumerated exhaustively up to k faults over the frames that occur and sampled beyond; oracles: exactly-once in-order delivery, only CommunicationError on failure, frame length <= LR, single fault per step recovered.",
         "trusted: vf/sim/air.py (hand-off, virtual clock, independent wire parser)", "DESIGN.md 3/C04, 7.2-7.6"),
 "C05": ("exploration", "history oracle + sliding-window reference model over wire PDUs; bounded-exhaustive lock-step histories, random walks, thread stress with sys.monitoring yield injection; icontract PDU-length postcondition",
         "Two real LLCs: (1) deterministic lock-step histories (bounded exhaustive depth 6/8 + long random walks) and (2) real run loops with blocking sender/receiver threads under injected yields. Oracles: recv list is a prefix of (at quiescence equal to) the accepted sends, window model on the wire (N(S), N(R), outstanding <= RW from CONNECT/CC), EMSGSIZE.",
         "trusted: vf/ref/window_model.py, vf/ref/llcp_ref.py; thread schedules are sampled, not enumerated", "DESIGN.md 3/C05, 7.2-7.6"),
 "C06": ("exploration", "application-boundary history oracle (unique ids, octet equality, exactly once) over real SNEP/handover clients and servers on real LLC run loops and on the complete connect() stack over an in-memory UDP net",
         "Messages with unique ids at sizes around k*MIU+-7 are put/got/handed over across MIU/RW/aggregation/role configurations; servers record raw octets at the documented override points; over-size requests must be refused and never delivered.",
         "trusted: vf/sim/llcpair.py, vf/sim/fakenet.py; a time-out alone is inconclusive (structural wire-idle verdicts only)", "DESIGN.md 3/C06, 7.2-7.6"),
 "C07": ("exploration", "escape monitor (documented exception types only), threading.excepthook monitor, structural hang detector; exhaustive short frames + grammar-aware mutation at every protocol position",
         "Hostile bytes are fed to the real decoders (exhaustive <=2/3 bytes, mutated valid PDUs, nested AGF to the frame limit) and to live stacks at every position where the peer speaks (NFC-DEP both roles, general bytes, LLC run loop with servers and blocked clients, SNEP/handover fragments, Type 3 emulation, complete connect paths).",
         "trusted: scripted peers in vf/props/c07.py; hang verdicts are structural (no progress + untimed wait), wall-clock watchdog = inconclusive", "DESIGN.md 3/C07, 7.2-7.6"),
 "C08": ("exploration", "outcome/command-bound/non-interference monitors on simulated tags with arbitrary images, adversarial responses and tag-stops-answering at every command",
         "tag activation and tag.ndef evaluation run against random and mutated images, activation-response variants and adversarial well-framed responses; oracles: no exception, bounded commands, length <= capacity, octets do not depend on bytes outside the declared data area.",
         "trusted: tag models and reference readers", "DESIGN.md 3/C08, 7.2-7.6"),
 "C09": ("exploration", "structural quiescence/hang detector (per-thread progress + untimed-wait classifier) over real run loops with termination at every exchange k x cause, directed preemption and sys.monitoring yield injection",
         "Application threads blocked in every socket call kind plus SNEP/handover servers; the link is ended at exchange k by each cause (local, remote, disruption, IOError with/without failing deactivate) over a PDU pipe, real nfc.dep and the full connect() path; afterwards every call kind is issued on old and new sockets. Verdict: quiescent thread in an untimed wait inside nfc = violation; outcomes must be a value or nfc.llcp.Error.",
         "trusted: vf/core/watch.py classifier (reads CPython frame state); schedules sampled + one directed preemption per case", "DESIGN.md 3/C09, 7.2-7.6"),
 "C10": ("exploration", "wire monitor on every transmitted frame (information field vs the MIU the receiver announced, I/UI payload vs connection/link MIU) and transparency monitor (collected == dispatched leaf PDUs); icontract PDU-length postcondition",
         "Queue-filling histories (many sockets, bursts, hundreds of pending SDREQ/SDRES, DM/FRMR/RR traffic) on two real LLCs in lock-step across remote MIU values (every value 128..2175 in thorough) with aggregation on/off.",
         "trusted: vf/ref/llcp_ref.py (independent decoder used for the verdict)", "DESIGN.md 3/C10, 7.2-7.6"),
 "C11": ("exploration",
         "runtime oracles on real pdu.encode/decode: round-trip, icontract length postcondition, idempotence, differential vs independent decoder, window metamorphic test",
         "Every generated PDU and byte string is run through the real codec; oracles compare public field values, the reported length, "
         "an independent reader of the LLCP frame format and the result of decoding the same bytes inside larger buffers/aggregates. "
         "Exhaustive for strings of <=2 bytes (quick) / <=3 bytes (thorough), sampled beyond; held means no oracle fired on what was run.",
         "trusted: vf/ref/llcp_ref.py (independent LLCP reader); empty vs absent SN/ECPK/RN treated as equal", "DESIGN.md 3/C11, 7.2-7.6"),
 "C12": ("fault_enumeration", "block-level fault-script enumeration against an ISO/IEC 14443-4 PICC-rule card model; execution-log oracle (at most once), response equality, frame-size wire monitor",
         "Real Type4A/4B tags (real RATS/ATTRIB) exchange echo APDUs with unique ids with a card model that logs executions; fault scripts {lose/corrupt command or response} exhaustive for <=2 (thorough 3) faults, WTX at every position, lengths around n*(FSC-3), FSCI 0-8, FWI 0-14.",
         "trusted: vf/sim/t4t.py card model (PICC rules of ISO 14443-4 7.5.4)", "DESIGN.md 3/C12, 7.2-7.6"),
 "C13": ("fault_enumeration", "fault injection at every host command of an exchange on real drivers over chipset simulators; outcome-class oracle (data | CommunicationError subclass | IOError)",
         "Each real driver (pn531/532/533, rcs956, acr122, arygon, rcs380, udp) is created through its own init() on a simulated transport, brought into each target kind through real sense/listen, then every (host command k x status byte / status word / host-link fault) cell is executed.",
         "trusted: chipset simulators vf/sim/chipsets/*.py (conformance self-test replays the repository's literal transcripts), vf/sim/fakenet.py", "DESIGN.md 3/C13, 7.2-7.6"),
 "C14": ("exploration", "independent frame validators on every written host frame; 'accepted implies valid' oracle over mutated responses; bitwise ISO 14443-3 CRC reference",
         "All command codes x payload lengths are written through the real Chipset.command/ccid/Frame code and validated; valid responses are mutated (bit flips, truncation, extension, substitution) and must be rejected with IOError when invalid; CRC_A/B compared exhaustively for short messages.",
         "trusted: vf/ref/frames.py, vf/ref/port100_frames.py, vf/ref/crc.py (Annex B vectors)", "DESIGN.md 3/C14, 7.2-7.6"),
 "C15": ("exploration", "lock-discipline monitor (owner-tracking lock + recording device proxy), call-site accounting via ast + caller frames, prober threads, thread stress with yield injection",
         "Every driver call made through every public entry point must be made by the owner of the frontend lock, must not overlap another driver call and must not run on a closed device; all syntactic self.device call sites must be observed or the run is inconclusive.",
         "trusted: the proxy/lock wrappers in vf/props/c15.py; stress schedules are sampled", "DESIGN.md 3/C15, 7.2-7.6"),
 "C16": ("fault_enumeration", "fault injection at every command position x error kind x burst 1..4 x {command lost, response lost} on simulated tags; result/memory/answered-command-sequence oracle",
         "Every tag operation of every simulated product is first run fault free, then with a burst at each position: within the retry budget result, final memory and the sequence of answered commands must equal the reference; beyond it only TagCommandError with matching errno or the documented None/False.",
         "trusted: tag models; lenient tag behaviour on retransmissions (stated in ASSUMPTIONS)", "DESIGN.md 3/C16, 7.2-7.6"),
 "C17": ("exploration", "reference address-table model compared after every operation of random/bounded-exhaustive socket histories on two real LLCs in lock-step; structural invariant monitor",
         "bind/listen/connect/accept/sendto/recvfrom/resolve/close histories with arbitrary names and addresses; every outcome class (address range or errno set) is compared with vf/ref/addr_model.py; datagrams and connect-by-name carry tokens identifying the reached socket.",
         "trusted: vf/ref/addr_model.py; errno classes only where the documentation is unambiguous", "DESIGN.md 3/C17, 7.2-7.6"),
 "C18": ("exploration", "trace automaton over the callback log + return-value table from the docstring + driver-call log monitor (mute/sense order, stale targets) on a simulated world device and on the real driver classes",
         "connect() is run over option dictionaries x environments x terminate() times; sense()/exchange() over mixed target lists; oracles are the documented callback order/counts, return values, promptness in driver calls on a virtual clock, field off after nothing found, no stale target.",
         "trusted: vf/sim/world.py; only what the docstrings state is demanded", "DESIGN.md 3/C18, 7.2-7.6"),
 "C20": ("fault_enumeration", "man-in-the-middle enumeration on the simulated air (every single bit of every response, substitutions, replays) against tag models with an independently written key/MAC computation; soundness oracles on authenticate/protect/read_with_mac/write_with_mac",
         "Real FeliCa Lite/Lite-S, NTAG21x, Ultralight EV1/C tag classes authenticate, protect and read/write with MAC against models holding keys; True only if the model holds key(password) and nothing deciding was tampered; data returned only if byte-identical to the model's blocks; a tampered covered field must be rejected.",
         "trusted: vf/ref/felica_mac.py, tag models in vf/sim/t2t.py and t3t.py; key equality modulo DES parity bits", "DESIGN.md 3/C20, 7.2-7.6"),
 "C19": ("exploration", "wire-vs-state oracle: announced values are read off the simulated air (independent ISO 18092 / PAX reader) and compared with what the other side then uses; frame-size and MIU wire monitors; exhaustive option grid in thorough",
         "Two complete real stacks (connect(llcp=...) over the real udp driver on an in-memory net) are activated over the option grid role x brs x lri x lrt x rwt x miu x lto x agf x lsc; send-miu/recv-lto/WKS/LSC/LR/bit rate must equal the peer's announcement and maximum-size traffic must stay within them.",
         "trusted: vf/sim/fakenet.py (logical clock), the check's own frame reader", "DESIGN.md 3/C19, 7.2-7.6"),
}
PENDING_REASON = "check not built yet in this session (runtime-monitoring design in DESIGN.md section 3); not claimed until it runs silent and catches its mutants"
def main():
    props = [json.loads(l)["id"] for l in open(os.path.join(ROOT, "properties.jsonl"))]
    checks, na = [], []
    for pid in props:
        if pid in CLAIMS and os.path.exists(os.path.join(ROOT, "vf", "props", pid.lower() + ".py")):
            cat, tech, text, note, ref = CLAIMS[pid]
            checks.append({"property_id": pid, "quick_cmd": "./check %s --tier quick" % pid,
                           "thorough_cmd": "./check %s --tier thorough" % pid,
                           "evidence_file": "evidence/%s.json" % pid,
                           "replay_cmd_template": "./check %s --replay {path}" % pid, "engine": "vf",
                           "level_claimed": {"category": cat, "text": text, "design_ref": ref},
                           "level_note": note, "technique": tech})
        else:
            na.append({"property_id": pid, "reason": NA.get(pid, PENDING_REASON)})
    m = {"version": 1,
         "setup_cmd": "./check --setup",
         "hooks": {"guard": "NFCPY_VERIF", "enable": "no in-repo hooks are used: every observation point is wrapped from the harness; the guard name is reserved",
                   "baseline_off_cmd": "cd /repo && /venv/bin/python -m pytest -ra -q -p no:cacheprovider --timeout=900 --continue-on-collection-errors",
                   "source_commits": [], "add_only": True},
         "engines": [{"name": "vf", "path": "vf/", "serves_properties": [c["property_id"] for c in checks],
                      "kind_free_text": "runtime monitors over real nfcpy code driven against simulated tags/peers/chipsets (python, subprocess shards)"}],
         "checks": checks, "not_applicable": na,
         "notes": "exit 0 held on what was observed / 1 VIOLATION / 2 INCONCLUSIVE (deciding monitor not reached or watchdog); known_findings.json lists genuine defects (open => KNOWN-FINDING line, fixed => suppress nothing)"}
    with open(os.path.join(ROOT, "MANIFEST.json"), "w") as f:
        json.dump(m, f, indent=1)
    print("claimed", [c["property_id"] for c in checks], "not_applicable", [x["property_id"] for x in na])
NA = {}
if __name__ == "__main__":
    main()
