#!/venv/bin/python
"""(re)generate /verif/MANIFEST.json from the table below; properties without a vf/props module are listed not_applicable."""
import json, os
ROOT = os.path.dirname(os.path.dirname(os.path.abspath(__file__)))
CLAIMS = {
 # id: (category, technique, text, note, design_ref)
 "C11": ("exploration",
         "runtime oracles on real pdu.encode/decode: round-trip, icontract length postcondition, idempotence, differential vs independent decoder, window metamorphic test",
         "Every generated PDU and byte string is run through the real codec; oracles compare public field values, the reported length, "
         "an independent reader of the LLCP frame format and the result of decoding the same bytes inside larger buffers/aggregates. "
         "Exhaustive for strings of <=2 bytes (quick) / <=3 bytes (thorough), sampled beyond; held means no oracle fired on what was run.",
         "trusted: vf/ref/llcp_ref.py (independent LLCP reader); empty vs absent SN/ECPK/RN treated as equal", "DESIGN.md 3/C11"),
}
PENDING_REASON = "check not built yet in this session (runtime-monitoring design in DESIGN.md section 3); not claimed until it runs silent and catches its mutants"
def main():
    props = [json.loads(l)["id"] for l in open(os.path.join(ROOT, "properties.jsonl"))]
    checks, na = [], []
    for pid in props:
        if pid in CLAIMS and os.path.exists(os.path.join(ROOT, "vf", "props", pid.lower() + ".py")):
            cat, tech, text, note, ref = CLAIMS[pid]
            checks.append({"property_id": pid, "quick_cmd": "./check %s --tier quick" % pid,
                           "thorough_cmd": "./check %s --tier thorough" % pid,
                           "evidence_file": "evidence/%s.json" % pid,
                           "replay_cmd_template": "./check %s --replay {path}" % pid, "engine": "vf",
                           "level_claimed": {"category": cat, "text": text, "design_ref": ref},
                           "level_note": note, "technique": tech})
        else:
            na.append({"property_id": pid, "reason": NA.get(pid, PENDING_REASON)})
    m = {"version": 1,
         "setup_cmd": "./check --setup",
         "hooks": {"guard": "NFCPY_VERIF", "enable": "no in-repo hooks are used: every observation point is wrapped from the harness; the guard name is reserved",
                   "baseline_off_cmd": "cd /repo && /venv/bin/python -m pytest -ra -q -p no:cacheprovider --timeout=900 --continue-on-collection-errors",
                   "source_commits": [], "add_only": True},
         "engines": [{"name": "vf", "path": "vf/", "serves_properties": [c["property_id"] for c in checks],
                      "kind_free_text": "runtime monitors over real nfcpy code driven against simulated tags/peers/chipsets (python, subprocess shards)"}],
         "checks": checks, "not_applicable": na,
         "notes": "exit 0 held on what was observed / 1 VIOLATION / 2 INCONCLUSIVE (deciding monitor not reached or watchdog); known_findings.json lists genuine defects (open => KNOWN-FINDING line, fixed => suppress nothing)"}
    with open(os.path.join(ROOT, "MANIFEST.json"), "w") as f:
        json.dump(m, f, indent=1)
    print("claimed", [c["property_id"] for c in checks], "not_applicable", [x["property_id"] for x in na])
NA = {}
if __name__ == "__main__":
    main()
