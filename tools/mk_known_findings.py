import json
F=[]
def fixed(prop, commit, sigs, what):
    for s in (sigs if isinstance(sigs,list) else [sigs]):
        F.append({"property":prop,"status":"fixed","commit":commit,"signature":s,"what":"fixed: property=%s %s %s"%(prop,commit,what)})
def open_(prop, sig, what, why):
    F.append({"property":prop,"status":"open","signature":sig,"what":what,"why_not_fixed":why})
fixed("C11","a368c94",["roundtrip/CONNECT/rw:0->1","roundtrip/CC/rw:0->1","idempotence/C*/rw:0->1"],"CONNECT/CC PDU with RW=0 was encoded without the RW TLV and decoded as RW=1")
fixed("C11","769f940",["window/*/accepted-only-with-surrounding-bytes","window/*/agf-member-accepted-though-invalid-alone"],"parameter TLVs / aggregated sub-PDU lengths were read beyond the PDU being decoded")
fixed("C11","5046c40","escape/decode/RecursionError@*","(also C07) ~500-fold nested AGF inside a maximum-size frame made pdu.decode raise RecursionError")
fixed("C02","2ef258f","t2t/c02/mixed/long-length-field-straddles-pages*","Type 2 Tag: 3-byte NDEF length straddling two pages was committed FFh-first; a cut left FFh + stale length bytes (mixture read back)")
fixed("C01","5105d6d",["t2t/c01/write-raises/UnboundLocalError@nfc/tag/tt2.py:_write_ndef_data","t1t/write-raises/empty/UnboundLocalError@nfc/tag/tt1.py:_write_ndef_data"],"tag.ndef.octets = b'' raised UnboundLocalError on Type 1 and Type 2 Tags")
fixed("C15","af4ccb3",["unlocked-driver-call/turn_o*_led_and_buzzer@_rdwr_connect","overlap/turn_o*_led_and_buzzer@_rdwr_connect","use-after-close/turn_o*_led_and_buzzer@_rdwr_connect"],"_rdwr_connect called the LED/buzzer driver methods without the frontend lock")
fixed("C13","bdd9e1b",["udp/escape/binascii.Error@nfc/clf/udp.py:_recv_data/*","udp/escape/UnicodeDecodeError@nfc/clf/udp.py:_recv_data/*","udp/escape/TypeError@nfc/clf/udp.py:_send_data/send@l_dep*_direct"],"udp driver: malformed datagram -> binascii.Error/UnicodeDecodeError; direct ATR_REQ activation lost the peer address -> TypeError")
fixed("C10","b911940","link-miu/SNL.sdres/partial-last-sdres","SDRES batching overshot MIUs that are not a multiple of 4")
fixed("C10","abe00d1","link-miu/AGF/overfull-on-adding-*","collect() aggregated DM/RR/RNR/SNL with a negative budget (frame up to 9 bytes above the MIU)")
fixed("C13","d02ad6b","rcs380/escape/StatusError@nfc/clf/rcs380.py:Chipset.in_set_*/*@InSet*","rcs380 InSetRF/InSetProtocol StatusError escaped clf.exchange()")
fixed("C13","c57162b",["rcs380/escape/TypeError@nfc/clf/rcs380.py:Device._tt2_send_cmd_recv_rsp/hostlink:*@InCommRF","rcs380/none-as-initiator/hostlink:*@InCommRF","rcs380/escape/struct.error@nfc/clf/rcs380.py:CommunicationError.__init__/hostlink:*"],"rcs380: rejected/truncated InCommRF response -> None/TypeError/struct.error instead of IOError")
fixed("C13","b406553",["rcs380/escape/IndexError@nfc/clf/rcs380.py:Chipset.send_command/hostlink:*","rcs380/escape/struct.error@nfc/clf/rcs380.py:Frame.__init__/hostlink:*"],"rcs380 frame parser: truncated response frames -> IndexError/struct.error")
fixed("C18","8b53eb8","sense/multi-target-raises/ValueError@nfc/clf/pn53x.py:sense_tt?","sense() with several targets raised ValueError for a bit rate the PN53x family does not support")
fixed("C18","fc99211","sense/multi-target-raises/AssertionError@nfc/clf/pn53x.py:in_jump_for_psl","pn53x sense_dep ran into an assertion for an unsupported bit rate")
fixed("C18","0abce39","return/exception-escapes/SystemExit@nfc/llcp/llc.py:run_as_*","connect(llcp=...) raised SystemExit after an IOError in the link loop instead of returning False")
fixed("C18","8d569a2","discover-default/p2p-capable-tag-not-activated","default rdwr on-discover rejected P2P-capable targets even without an llcp option (contradicting the docstring)")
fixed("C19","d1ce607","lto/own-idle-delay>announced-lto/*","link loops paused 51 ms on an idle link regardless of the LTO the device announced")
fixed("C19","f7e6c57",["dep/miu!=peer-lr/target/did","air/frame>lr/to-initiator/DEP","traffic/escape/error@nfc/dep.py:encode_frame/target"],"NFC-DEP Target ignored the DID byte in its payload limit (frame LR+1; struct.error at LR 254)")
fixed("C04","f7e6c57",["wire/len>LR/res-*/did","*escape/tgt/error@nfc/dep.py:encode_frame"],"NFC-DEP Target ignored the DID byte in its payload limit")
fixed("C17","ca675bf",["invariant/name-of-closed-socket-still-listed","resolve/closed-service-reported-at-old-address","bind/name-of-closed-socket/failed-EADDRINUSE","connect-by-name/closed-service-name-reached-other-socket"],"a service name outlived the socket that registered it")
fixed("C17","98858e4","bind/wks-address-occupied/succeeded-instead-of-EADDRINUSE-or-EADDRNOTAVAIL","bind('urn:nfc:sn:snep') replaced an occupied access point at address 4")
fixed("C06","47af57e","handover/request/stale-redelivery","handover server never cleared its request buffer: a second request on one connection delivered the first message again")
fixed("C03","63d6432","t2t/c03/format*/terminator-behind-data-area","Type 2 Tag format() wrote the terminator TLV behind the data area")
fixed("C03","4c17b32","t2t/c03/*/after-field-reset-in-sector>0","Type 2 Tag kept the selected sector number after re-activation following a NAK")
fixed("C16","0dfe061","t2t/c16/escape/*/AssertionError@nfc/tag/tt2.py:sector_select","AssertionError from sector_select() on a transmission/protocol error")
fixed("C16","db4f014","t2t/c16/escape-without-fault/protect*/AttributeError@nfc/tag/tt2_nxp.py:_protect_with_*","protect() on Mifare Ultralight EV1 raised AttributeError (_cfgpage never set)")
fixed("C08","5a7f9d0",["t2t/c08/length>capacity","t2t/c08/octets-from-outside-data-area","t2t/c08/ndef-presence-depends-on-outside-data-area"],"Type 2 Tag NDEF TLV was not bounded by the declared data area")
fixed("C01","c403bb2",["t1t/read-raises/dynamic/*/tlv-before-ndef-spans-reserved","t1t/read/initial-mismatch/dynamic/tlv-before-ndef-spans-reserved"],"TLV walk did not count reserved bytes inside a TLV value")
fixed("C08","1f86c33","t1t/c08/length-exceeds-capacity/capacity-underreported","capacity under-reported at exactly 257 free bytes")
fixed("C08","cc14d3a",["t1t/escape/Type1TagCommandError@nfc/tag/tt1.py:*","t1t/escape/ValueError@nfc/tag/tt1.py:read_segment/*","t1t/escape/IndexError@nfc/tag/tt1.py:get_*_byte_range/*","t1t/c08/length-exceeds-capacity/*","t1t/c08/octets-outside-data-area/*"],"Type 1 Tag: exceptions escaped tag.ndef for unreadable/malformed TLVs; NDEF TLV not bounded by the data area")
fixed("C08","b4607b0","t2t/c08/length>capacity","(capacity could become negative) Type 1/2 capacity floor at 0")
fixed("C08","fd08d02","t2t/c08/length>capacity","reserved byte inside the NDEF length field: length exceeded the capacity computed for the same layout")
fixed("C13","48c7e7d",["*/escape/Error@nfc/clf/pn53x.py:chipset_error/errframe@*","*/escape/Error@nfc/clf/pn53x.py:chipset_error/rf-status@*Register"],"pn53x preparatory register/RFConfiguration commands ran outside the try: Chipset.Error escaped clf.exchange()")
fixed("C13","61465d8",["*/escape/IndexError@nfc/clf/pn53x.py:*/nostatus@*","pn533/escape/IndexError@nfc/clf/pn533.py:_*_register/nostatus@*Register"],"pn53x response without status byte -> IndexError")
fixed("C13","b7e2375",["*/escape/IndexError@nfc/clf/pn53x.py:command/short3@*","*/escape/error@nfc/clf/pn53x.py:command/short*5@*"],"pn53x response cut after the start code -> IndexError/struct.error instead of IOError")
fixed("C14","b7e2375",["*/reject-not-ioerror/*@nfc/clf/pn53x.py:command","*/accept-invalid/dcs-postamble-sum","*/error-frame-invalid/dcs-postamble-sum"],"pn53x: truncated response not IOError; DCS summed together with the postamble")
fixed("C13","f069411","pn532rt/escape/IndexError@nfc/clf/transport.py:read/short*@*","transport.TTY.read indexed into a short serial read")
fixed("C14","f069411","pn532rt/reject-not-ioerror/IndexError@nfc/clf/transport.py:read","transport.TTY.read indexed into a short serial read")
fixed("C05","e2a96d8","escape/encode/EncodeError@nfc/llcp/pdu.py:encode_header/I/after-close","close() with a queued message left an I PDU without N(R): EncodeError, handled as link disruption")
# open findings
open_("C02","t1t/cut/mixed/len3-partially-written/dynamic","Type 1 Tag dynamic memory: the 3-byte NDEF length (FF hi lo) straddling two 8-byte blocks (TLV offset = 5 or 6 mod 8, e.g. the Topaz-512 factory offset 22) is written FFh-block first; a cut between the two WRITE-E8 commands leaves FFh + stale length bytes and a fresh reader returns a mixture",
      "the repository's own test tests/test_tag_tt1.py::TestDynamicMemoryTagNdef::test_write_to_dynamic_memory pins the exact command order (block with FFh before block with the length bytes); any repair changes that order, so it cannot be a fix: commit with the suite unedited (the same repair was made for Type 2 Tags, commit 2ef258f)")
open_("C16","t2t/c16/persistent/undocumented-result/format*","NTAG203/NTAG21x format(): a read error that persists beyond the retry budget while looking for NDEF data is taken as 'blank tag': factory TLVs are written over the existing TLVs and format() returns True",
      "weak violation (tag stays a valid empty NDEF tag); repair touches six product classes")
open_("C05","window/pdu-before-cc/*","PDUs (I, RNR) of a just accepted data link connection are transmitted before the CC because accept() queues the CC on the listening socket: the connecting peer drops them, the message accepted by send() is lost",
      "tests/test_llcp_tco.py::TestDataLinkConnection::test_accept pins the CC placement on the listening socket's queue")
open_("C05","*/i-after-cc-before-connect-returned","an I PDU that reaches the connecting end after the CC but before the thread inside connect() has processed the CC is dropped (socket still in state CONNECT)",
      "repair means completing the connection in the run loop (restructuring connect()/enqueue()), not a small patch")

# ---- second batch of fixes -------------------------------------------------------------------------------------
fixed("C09","7969587","blocked-forever/*/old*-socket/ioerror-deact-raises@*","IOError in the link loop: terminate() was aborted by a second IOError from deactivate(), sockets were never shut down")
fixed("C09","1fe393a",["escape/resolve/AttributeError@nfc/llcp/llc.py:resolve","escape/close/*Error@nfc/llcp/llc.py:close","escape/close/AssertionError@nfc/llcp/llc.py:remove_socket","escape/accept/*Error@nfc/llcp/llc.py:accept"],"resolve/close/accept around link termination raised AttributeError/TypeError/AssertionError")
fixed("C09","af35bdc",["blocked-forever/*/new-socket/*","blocked-forever/*/racing-socket/*"],"a socket created or bound after link termination was accepted by the dead link controller; blocking calls on it waited forever")
fixed("C09","d651e11","blocked-forever/*/old-latewait-socket/*","lost wake-up: socket state tested outside the socket lock in recvfrom/raw recv/sendto/poll")
fixed("C07","1fe393a",["thread-died/*/AttributeError@nfc/llcp/llc.py:close","thread-died/*/TypeError@nfc/llcp/llc.py:accept"],"service threads died in close()/accept() when the link was terminated")
fixed("C07","af35bdc","hang/*/thread-blocked*/nfc/llcp/tco.py:recv<nfc/llcp/socket.py:connect","connect() on a socket after the link was shut down waited forever")
fixed("C12","386a2cd","not-recovered/ats-*","Type4ATag read FWI from a fixed ATS index")
fixed("C08","386a2cd","t4t/c08/escape/activate-4A/IndexError@nfc/tag/tt4.py:__init__","ATS shorter than 4 bytes -> IndexError in Type4ATag.__init__")
fixed("C08","926cbef","t4t/c08/escape/activate-4B/IndexError@nfc/tag/tt4.py:__init__","SENSB_RES shorter than 12 bytes -> IndexError in Type4BTag.__init__")
fixed("C12","98a1892","escape/empty-apdu/UnboundLocalError@nfc/tag/tt4.py:exchange","transceive(b'') raised UnboundLocalError")
fixed("C08","978bcaf",["t4t/c08/length>capacity","t4t/c08/octets-beyond-declared-file-size","t4t/c08/nontermination/read/read-binary-loop","t4t/c08/escape/read/struct.error*@nfc/tag/tt4.py:_discover_ndef"],"Type 4 Tag NDEF read: NLEN not checked against the file size, endless READ BINARY loop, over-long CC read")
fixed("C12","b0899b9",["escape/wtx*/*Error@nfc/tag/tt4.py:exchange","not-recovered/wtx-rsp-chain","not-recovered/wtx"],"ISO-DEP: S(WTX) handled outside the retry loop / not at all during response chaining")
fixed("C16","b0899b9","t4t/c16/escape/*/wtx/*Error@nfc/tag/tt4.py:exchange","ISO-DEP: communication error right after an S(WTX) request escaped as raw nfc.clf error")
fixed("C08","b0899b9",["t4t/c08/escape/read/IndexError@nfc/tag/tt4.py:exchange","t4t/c08/escape/read/TimeoutError@nfc/tag/tt4.py:exchange","t4t/c08/nontermination/read/swtx-loop","t4t/c08/nontermination/read/i-block-retransmit-loop"],"ISO-DEP: S(WTX) without WTXM -> IndexError, silence after WTX -> raw TimeoutError, unbounded WTX / R(ACK)-retransmit loops")
fixed("C01","6a55db2",["t4t/c01/write-raises/lc>255*/ValueError@nfc/tag/tt4.py:send_apdu","t4t/c01/*read-raises/le>256*/ValueError@nfc/tag/tt4.py:send_apdu"],"Type 4 Tag with MLe>256 / MLc>255: ValueError from send_apdu")
fixed("C08","6a55db2","t4t/c08/escape/read/ValueError@nfc/tag/tt4.py:send_apdu","CC with MLe > 256 -> ValueError out of tag.ndef")
fixed("C01","692da71",["t4t/c01/readback-mismatch/*mlc<nlen*","t4t/c01/ref-mismatch/*mlc<nlen*"],"Type 4 Tag with MLc smaller than the NLEN field: NLEN only partly written")
fixed("C01","b79dba9","t4t/c01/write-raises/*offset>7FFF/*","Type 4 Tag mapping 3.0 file > 32 KB: capacity included the part beyond offset 7FFFh that cannot be addressed")
fixed("C07","c9714af",["escape/dep-*/IndexError@nfc/dep.py:decode_frame","escape/dep-*/ValueError@nfc/dep.py:decode","escape/dep-initiator-exchange/IndexError@nfc/dep.py:exchange","escape/dep-target-rtox/IndexError@nfc/dep.py:send_timeout_extension"],"NFC-DEP: empty frame -> IndexError, short ATR -> ValueError, RTOX without value -> IndexError")
fixed("C04","c9714af","garbled/escape/*/IndexError@nfc/dep.py:decode_frame","empty / 1-byte NFC-DEP frame -> IndexError from decode_frame")
fixed("C07","f7e6c57","escape/dep-target-exchange/error@nfc/dep.py:encode_frame","Target MIU ignored the DID byte: struct.error at LR 254")
fixed("C07","b84e344",["escape/*/IndexError@nfc/tag/tt3.py:process_command","escape/*/IndexError@nfc/tag/tt3.py:read_without_encryption","escape/*/IndexError@nfc/tag/tt3.py:write_without_encryption"],"Type3TagEmulation: empty/truncated commands -> IndexError")
fixed("C07","9dd53b3",["escape/llc-activate/DecodeError@nfc/llcp/pdu.py:decode","escape/connect-llcp-activate/DecodeError@nfc/llcp/pdu.py:decode"],"malformed LLCP parameter TLV in the general bytes -> DecodeError out of llc.activate / connect()")
fixed("C07","27ca177",["thread-died/*/UnicodeDecodeError@nfc/handover/server.py:*","thread-died/*/ValueError@nfc/handover/server.py:*","thread-died/*/UnicodeDecodeError@nfc/snep/server.py:process_snep_request","thread-died/*/ValueError@nfc/snep/server.py:process_snep_request"],"NDEF record with non-ASCII/malformed type killed the SNEP and handover server threads")
fixed("C07","b56028f","escape/*/RuntimeError@nfc/llcp/tco.py:recv:only-I-or-DISC","second CC/DM in state CONNECT -> RuntimeError from recv()")
fixed("C07","9fdca48","hang/llc-run-threaded/thread-blocked/nfc/llcp/tco.py:recv<nfc/llcp/socket.py:accept","a UI PDU addressed to a connected socket made the link loop call close() and wait for a DM only it could deliver")
fixed("C08","c1f9dc2",["t3t/escape/*/IndexError@nfc/tag/tt3.py:send_cmd_recv_rsp","t3t/escape/*/error@nfc/tag/tt3.py:send_cmd_recv_rsp"],"Type 3 Tag: short responses -> IndexError/struct.error")
fixed("C08","8c02ed6",["t3t/escape/*/ValueError@nfc/tag/tt3.py:_read_ndef_data","t3t/escape/*/ValueError@nfc/tag/tt3.py:send_cmd_recv_rsp","t3t/c08/length>capacity","t3t/c08/octets-outside-data-area"],"Type 3 Tag: Nbr=0 / huge Nbr -> ValueError; Ln > Nmaxb*16 accepted")
fixed("C16","b17ff2b","t3t/c16/ndef_write*/escape/TypeError@nfc/tag/tt3.py:_write_ndef_data","Type 3 Tag NDEF write: failing attribute read -> TypeError instead of TagCommandError")
fixed("C16","fd28b6b","t3t/c16/format_default/fault-free-escape/error@nfc/tag/tt3.py:_format","Type3Tag.format() with the default version raised struct.error")
fixed("C16","038edd5","t3t/c16/protect_bytes/fault-free-escape/AttributeError@nfc/tag/tt3_sony.py:_protect","FelicaLiteS.protect() failed for a bytes password")
fixed("C08","038edd5","t3t/escape/*/Type3TagCommandError/via:nfc/tag/tt3_sony.py:_read_attribute_data","authenticated FeliCa Lite-S: unguarded MC read inside tag.ndef")
fixed("C08","568a391",["t3t/escape/*/TypeError@nfc/tag/tt3.py:_read_attribute_data","t3t/escape/*/TypeError@nfc/tag/tt3.py:_read_ndef_data"],"MAC mismatch on an authenticated FeliCa Lite -> TypeError")
fixed("C04","7408559","recovery/res-ACK/corrupt/nak-answered-by-res-ACK/ini-ProtocolError/*","a corrupted ACK response during initiator chaining was not recovered")
fixed("C04","bb328fb","recovery/*/*/atn-unanswered/ini-ProtocolError/did","Initiator sent ATN without the DID: no time-out recovery whenever a DID was used")
fixed("C04","9cd364f","*escape/tgt/AttributeError@nfc/dep.py:exchange","first Target.exchange(None) raised AttributeError when the link ended before the first INF PDU")
fixed("C04","896180a",["recovery/res-I*@rtox/*/unrecovered/*/*","*delivery/tgt/rtox-pdu-data"],"after an RTOX a retransmitted RTOX request was taken for the next request")

fixed("C20","80516ab","protect-auth/same-password-fails/lites/str/TypeError@nfc/tag/tt3_sony.py:_authenticate","FelicaLiteS.protect(str) succeeded but authenticate() with the same str raised TypeError")
fixed("C20","038edd5","protect*/lites/*AttributeError@nfc/tag/tt3_sony.py:_protect","Lite-S protect(bytes) raised AttributeError")

fixed("C09","91ad532","escape/close/AssertionError@nfc/llcp/llc.py:remove_socket","close() overtaken by terminate(): remove_socket asserted socket.addr == self.addr")

fixed("C09","13cb35c",["run-loop-died/TypeError@nfc/llcp/pdu.py:encode_header/unencodable-type","blocked-forever/*/*-socket/unencodable-type@*"],"sendto(data, '33'): TypeError while encoding in the link loop ended the loop without terminate(); every blocked call stayed blocked")
fixed("C16","e3487f5","t2t/c16/silent-wrong-result/dump/lines-after-error-mark","NTAG I2C 2K dump(): footer pages read from sector 0 after a failed body read")
fixed("C16","bb1d7e1","t3t/c16/format*/silent-wrong-memory/fresh-reader-finds-*","Type3Tag.format(): persistent error on the first Nbr/Nbw probe wrote Nbr=0/Nbw=0 and returned True")
# ---- open -----------------------------------------------------------------------------------------------------
open_("C04","recovery/res-RTOX/corrupt/nak-answered-by-res-RTOX/ini-ProtocolError/*","NFC-DEP: a corrupted RTOX response is NAKed, the Target retransmits the RTOX, the Initiator raises ProtocolError('received NFC-DEP RTOX response to NACK or ATN'): one corrupted frame is not recovered",
      "the Initiator's reaction is pinned by tests/test_dep.py::TestInitiator::test_exchange_retransmission_rtox_after_nack; RTOX is only sent when an application calls Target.send_timeout_extension()")
open_("C01","t4t/c01/wellformed-not-recognized/*offset>7FFF","Type 4 Tag mapping version 3.0 NDEF file whose message reaches beyond offset 7FFFh cannot be read (READ BINARY with offset data object is not implemented); tag.ndef is None for such a well-formed tag",
      "needs the ODO forms of READ/UPDATE BINARY (a feature, not a small patch); capacity is capped at the addressable range since b79dba9")
open_("C02","t4t/c02/mixture/mlc<nlen/*","Type 4 Tag whose CC announces MLc smaller than the NLEN field (MLc 1, or 1..3 with a 4-byte NLEN): NLEN can only be written in several UPDATE BINARY commands, a cut between them leaves a length mixed from old and new bytes",
      "inherent to such a capability container: no command order makes a multi-command NLEN update atomic")
open_("C16","t3t/c16/protect_*/beyond-budget-unreported","FeliCa Lite/Lite-S protect(): an unrecoverable error while reading tag.ndef is swallowed (ndef None = 'no NDEF'), the RWFlag write is skipped, the MC block is still written and protect() returns True",
      "repair means restructuring _protect to read block 0 directly in two product classes")
open_("C07","escape/*/RuntimeError@nfc/llcp/tco.py:recv:recv_confs-recv_win","a peer that sends more I PDUs than the local receive window makes the application's recv() raise RuntimeError('recv_confs > recv_win') (timing dependent)",
      "repair changes the receive window accounting in _enqueue_state_established (FRMR/discard policy), not a local patch")

open_("C06","*/connection-never-answered","accept() queues the CC before the accepted socket is inserted into its service access point; an I PDU that arrives in between is handed to the listening socket and dropped: put_octets returns True with nothing delivered or the client waits for ever (rare, schedule dependent)",
      "same root as the open C05 finding window/pdu-before-cc: the CC placement is pinned by tests/test_llcp_tco.py::TestDataLinkConnection::test_accept")
json.dump({"comment":"Genuine defects of nfcpy found by the checks. status=open: reported as KNOWN-FINDING (exit 0) when the signature matches; status=fixed: repaired by a 'fix:' commit in /repo, suppresses nothing (the check fails again if it returns). Signatures are mechanism descriptors produced by the checks (fnmatch patterns), never hashes or random values. Never written at run time.","findings":F}, open('/verif/known_findings.json','w'), indent=1)
print(len(F))
