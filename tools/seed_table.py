#!/venv/bin/python
"""print a markdown table of /verif/seeded/*: what was changed, which check detects it and by which signatures"""
import json, glob, os, re
rows = []
for d in sorted(glob.glob("/verif/seeded/*")):
    mf = os.path.join(d, "meta.json")
    if not os.path.exists(mf):
        continue
    m = json.load(open(mf))
    diff = open(os.path.join(d, "patch.diff")).read()
    files = sorted(set(re.findall(r"^\+\+\+ b/src/nfc/(\S+)", diff, re.M)))
    need = m.get("needs_to_manifest_short") or ""
    for chk, res in m.get("first_detected_by", m["detected_by"]).items():
        line = res[0] if res else ""
        mm = re.match(r"\S+ exit=(\d+) (.*)", line)
        rc = mm.group(1) if mm else "?"
        sigs = re.sub(r" \(\d+ occurrences\)", "", mm.group(2)).strip() if mm else ""
        sigs = "; ".join(s.strip() for s in sigs.split(";")[:3])
        verdict = {"1": "caught", "0": "MISSED", "2": "inconclusive"}.get(rc, rc)
        cur = (m.get("detected_by", {}).get(chk) or [""])[0]
        cm = re.match(r"\S+ exit=(\d+)", cur)
        now = {"1": "caught", "0": "MISSED", "2": "inconclusive"}.get(cm.group(1), "?") if cm else "?"
        rows.append("| %s | %s | %s | %s | %s | `%s` |" % (os.path.basename(d), ", ".join(files), (m.get("summary","") + " — needs: " + m.get("needs_to_manifest",""))[:330], verdict + " by " + chk, now, sigs[:170]))
print("| seed | file(s) | change / what it needs | first result | now | first signatures |")
print("|---|---|---|---|---|---|")
print("\n".join(rows))
