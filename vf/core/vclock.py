"""Virtual clock: replaces the `time` name inside chosen nfc modules (module attribute patch), so protocol
time-outs run on logical time.  The harness keeps using the real time module."""
import time as _real_time


class VClock:
    def __init__(self, start=1000.0):
        self.now = start
        self.sleeps = 0

    def time(self):
        return self.now

    def monotonic(self):
        return self.now

    def sleep(self, s):
        self.sleeps += 1
        if s > 0:
            self.now += s

    def advance(self, s):
        self.now += s

    def __getattr__(self, name):          # strftime etc.
        return getattr(_real_time, name)


def patch(modules, clock=None):
    """modules: list of imported module objects that did `import time`; returns the clock"""
    clock = clock or VClock()
    for m in modules:
        if hasattr(m, "time"):
            m.time = clock
    return clock


def unpatch(modules):
    for m in modules:
        if hasattr(m, "time"):
            m.time = _real_time
