"""Recorder: what a shard observed (counters, distinct cases, samples, violations)."""
import hashlib
import json
import traceback

MAX_KEYS = 400000      # per shard; beyond this distinct keys are still hashed into a bloom-free count cap
MAX_WITNESS_PER_SIG = 3


def h64(obj):
    if not isinstance(obj, (bytes, bytearray)):
        obj = json.dumps(obj, sort_keys=True, default=repr).encode()
    return int.from_bytes(hashlib.blake2b(bytes(obj), digest_size=8).digest(), "big")


def jsonable(o):
    if isinstance(o, (bytes, bytearray)):
        return {"hex": bytes(o).hex()}
    if isinstance(o, dict):
        return {str(k): jsonable(v) for k, v in o.items()}
    if isinstance(o, (list, tuple, set, frozenset)):
        return [jsonable(x) for x in o]
    if isinstance(o, (int, float, str, bool)) or o is None:
        return o
    return repr(o)


def unjson(o):
    """inverse of jsonable for bytes markers"""
    if isinstance(o, dict):
        if set(o.keys()) == {"hex"}:
            return bytes.fromhex(o["hex"])
        return {k: unjson(v) for k, v in o.items()}
    if isinstance(o, list):
        return [unjson(x) for x in o]
    return o


class Recorder:
    def __init__(self, prop, max_samples=4):
        self.prop = prop
        self.evals = 0
        self.keys = set()
        self.bulk_distinct = 0
        self.counters = {}
        self.sets = {}
        self.samples = []
        self.max_samples = max_samples
        self.violations = {}     # sig -> {"count":n, "what":..., "witnesses":[case,...]}
        self.inconclusive = []
        self.exhaustive = None

    # -- coverage ---------------------------------------------------------
    def case(self, key, nontrivial=True, n=1):
        """one evaluated case; key identifies it (hashable/JSON-able)."""
        self.evals += n
        if nontrivial and len(self.keys) < MAX_KEYS:
            self.keys.add(h64(key))

    def bulk(self, evals, distinct):
        """cases that are distinct by construction (exhaustive enumerations)."""
        self.evals += evals
        self.bulk_distinct += distinct

    def count(self, name, n=1):
        self.counters[name] = self.counters.get(name, 0) + n

    def max(self, name, v):
        name = "max_" + name if not name.startswith("max_") else name
        if v > self.counters.get(name, float("-inf")):
            self.counters[name] = v

    def seen(self, name, value):
        """set-valued observation (e.g. PDU types seen); reported as sorted list + size"""
        s = self.sets.setdefault(name, set())
        if len(s) < 5000:
            s.add(value if isinstance(value, (int, str)) else json.dumps(jsonable(value), sort_keys=True))

    def sample(self, obj):
        if len(self.samples) < self.max_samples:
            self.samples.append(jsonable(obj))

    # -- verdicts ---------------------------------------------------------
    def violation(self, sig, what, case):
        v = self.violations.setdefault(sig, {"count": 0, "what": what, "witnesses": []})
        v["count"] += 1
        if len(v["witnesses"]) < MAX_WITNESS_PER_SIG:
            v["witnesses"].append(jsonable(case))

    def inconc(self, reason):
        if len(self.inconclusive) < 50:
            self.inconclusive.append(reason)

    def dump(self):
        return {
            "evals": self.evals,
            "keys": sorted(self.keys),
            "bulk_distinct": self.bulk_distinct,
            "counters": self.counters,
            "sets": {k: sorted(v, key=str) for k, v in self.sets.items()},
            "samples": self.samples,
            "violations": self.violations,
            "inconclusive": self.inconclusive,
            "exhaustive": self.exhaustive,
        }


def exc_sig(e, depth=1, skip_prefixes=("/verif/",)):
    """mechanism signature of an exception: type @ innermost nfc function (file:function), no line numbers"""
    tb = traceback.extract_tb(e.__traceback__)
    frames = [f for f in tb if "/nfc/" in f.filename.replace("\\", "/") and not f.filename.startswith(skip_prefixes)]
    loc = "?"
    if frames:
        f = frames[-1]
        fn = f.filename.replace("\\", "/")
        fn = fn[fn.rfind("/nfc/") + 1:]
        loc = "%s:%s" % (fn, f.name)
    return "%s@%s" % (type(e).__name__, loc)


def exc_text(e):
    return "".join(traceback.format_exception(type(e), e, e.__traceback__))[-1500:]
