"""third-party helper packages (icontract) are installed offline into /verif/.deps on demand"""
import fcntl
import os
import subprocess
import sys

ROOT = os.path.dirname(os.path.dirname(os.path.dirname(os.path.abspath(__file__))))
DEPS = os.path.join(ROOT, ".deps")
WHEELS = "/opt/veriftools/wheels"


def ensure():
    if not os.path.isdir(os.path.join(DEPS, "icontract")):
        os.makedirs(DEPS, exist_ok=True)
        with open(os.path.join(ROOT, ".deps.lock"), "w") as lk:
            fcntl.flock(lk, fcntl.LOCK_EX)
            if not os.path.isdir(os.path.join(DEPS, "icontract")):
                subprocess.run([sys.executable, "-m", "pip", "install", "-q", "--no-index", "--find-links", WHEELS,
                                "--target", DEPS, "icontract"], check=False,
                               stdout=subprocess.DEVNULL, stderr=subprocess.DEVNULL)
    if DEPS not in sys.path:
        sys.path.append(DEPS)
    return os.path.isdir(os.path.join(DEPS, "icontract"))
