"""Adapter: public fields of an nfc.llcp.pdu object as the canonical dict used by vf.ref.llcp_ref."""


def fields(p):
    n = getattr(p, "name", None)
    d = {"dsap": p.dsap, "ssap": p.ssap}
    if n == "SYMM":
        d["t"] = "SYMM"
    elif n == "PAX":
        d.update(t="PAX", version=tuple(p.version), miu=p.miu, wks=p.wks, lto=p.lto, lsc=p.lsc, dpc=p.dpc)
    elif n == "AGF":
        d.update(t="AGF", pdus=[fields(x) for x in p])
    elif n == "UI":
        d.update(t="UI", data=bytes(p.data))
    elif n == "CONNECT":
        d.update(t="CONNECT", miu=p.miu, rw=p.rw, sn=(bytes(p.sn) if p.sn else None))
    elif n == "DISC":
        d["t"] = "DISC"
    elif n == "CC":
        d.update(t="CC", miu=p.miu, rw=p.rw)
    elif n == "DM":
        d.update(t="DM", reason=p.reason)
    elif n == "FRMR":
        d.update(t="FRMR", rej_flags=p.rej_flags, rej_ptype=p.rej_ptype, ns=p.ns, nr=p.nr, vs=p.vs, vr=p.vr,
                 vsa=p.vsa, vra=p.vra)
    elif n == "SNL":
        d.update(t="SNL", sdreq=[(a, bytes(b)) for a, b in p.sdreq], sdres=[(a, b) for a, b in p.sdres])
    elif n == "DPS":
        d.update(t="DPS", ecpk=(bytes(p.ecpk) if p.ecpk else None), rn=(bytes(p.rn) if p.rn else None))
    elif n == "I":
        d.update(t="I", ns=p.ns, nr=p.nr, data=bytes(p.data))
    elif n == "RR":
        d.update(t="RR", nr=p.nr)
    elif n == "RNR":
        d.update(t="RNR", nr=p.nr)
    else:
        d.update(t="UNKNOWN", ptype=p.ptype, payload=bytes(p.payload))
    return d


def same(a, b, skip=()):
    """field-wise equality of two canonical dicts; keys only one side knows (ambiguous/extra) are ignored"""
    if a.get("t") != b.get("t"):
        return False
    for k in set(a) & set(b):
        if k in ("ambiguous", "extra") or k in skip:
            continue
        if k == "pdus":
            if len(a[k]) != len(b[k]) or not all(same(x, y) for x, y in zip(a[k], b[k])):
                return False
        elif k in ("sdreq", "sdres"):
            if [tuple(x) for x in a[k]] != [tuple(x) for x in b[k]]:
                return False
        elif a[k] != b[k]:
            return False
    return True


def flatten(p):
    if getattr(p, "name", None) == "AGF":
        return [y for x in p for y in flatten(x)]
    return [p]
