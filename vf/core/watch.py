"""Hang detection without wall-clock verdicts.

Three pieces, all harness side:

* ``LineMonitor``  - ``sys.monitoring`` LINE events restricted to files whose path contains one of the given
  fragments (default ``/nfc/llcp/``): per-thread progress counters (a thread that executes any line of the
  watched files advances its counter), optional yield injection (with a small probability ``time.sleep(0)`` or a
  100 us sleep at a statement start, to diversify thread schedules) and a schedule signature (rolling hash of
  (thread name, function) at every observed thread switch).
  An optional ``hook(code, line, thread_ident)`` runs at every watched statement start (directed preemption: the
  property module may park the calling thread there).
* ``thread_key`` / ``sample``  - the cheap progress indicator: ``sys._current_frames()`` and per thread
  (identity of the innermost frame, ``f_lasti``), combined with the monitoring counter when a monitor is given.
* ``classify(frame)``  - structural description of what a thread is blocked in: walks the innermost
  ``threading.py`` / ``queue.py`` frames (Condition.wait, Event.wait, Queue.get, Thread.join, Semaphore.acquire),
  reads their ``timeout`` local to tell a timed from an untimed wait, reads the ``waiter`` lock of
  Condition.wait to tell "notified, about to run" from "nobody has notified it", and names the first frame
  outside the standard library, i.e. the function the wait was called from ("in nfc" when that file is below
  an ``nfc/`` package directory).  A thread whose innermost frame itself is in an nfc file and that shows zero
  progress is blocked in a C level call made by that function (lock acquire of ``with self.lock``).

``Quiescence`` puts them together: sample the given threads until all of them show zero progress over N
consecutive samples that are at least ``interval`` apart *and* between which a heartbeat thread of the same
process was scheduled a minimum number of times (so a starved but runnable thread is not mistaken for a blocked
one on a loaded machine).  Elapsed time never decides anything: the verdict on a quiescent thread comes from
``classify`` (where it waits, with or without time-out, notified or not); a sample budget running out without
quiescence is reported as ``"watchdog"`` and must be turned into INCONCLUSIVE by the caller.
"""
import queue as _queue
import sys
import threading
import time

_STDLIB_WAIT_FILES = (threading.__file__, _queue.__file__)
_real_sleep = time.sleep


# ---------------------------------------------------------------------------------------------------------
# stacks
def frames_of(frame):
    """innermost first"""
    out = []
    while frame is not None:
        out.append(frame)
        frame = frame.f_back
    return out


def short_file(fn):
    fn = fn.replace("\\", "/")
    i = fn.rfind("/nfc/")
    if i >= 0:
        return fn[i + 1:]
    return fn[fn.rfind("/") + 1:]


def is_nfc_file(fn):
    fn = fn.replace("\\", "/")
    return "/nfc/" in fn and "/verif/" not in fn


def describe(frame, limit=14):
    """['file:function', ...] innermost first, no line numbers (stable across runs)"""
    return ["%s:%s" % (short_file(f.f_code.co_filename), f.f_code.co_name) for f in frames_of(frame)[:limit]]


class WaitInfo:
    """what a thread is doing right now (see classify)"""
    __slots__ = ("kind", "timeout", "notified", "caller_file", "caller_func", "in_nfc", "nfc_func", "stack",
                 "cond")

    def __init__(self):
        self.kind = "running-or-c-call"   # cond-wait | join | lock-or-c-call-in-nfc | running-or-c-call
        self.timeout = "?"                # None = untimed, number = timed, "?" = unknown
        self.notified = None              # Condition.wait: True when the waiter lock was already released
        self.caller_file = self.caller_func = None
        self.in_nfc = False               # the wait was called from a function in an nfc file
        self.nfc_func = None              # "nfc/llcp/tco.py:recv": innermost nfc function on the stack
        self.stack = []
        self.cond = None                  # the Condition object waited on (clean-up only)

    @property
    def untimed(self):
        return self.timeout is None

    def blocked_forever_in_nfc(self):
        """structural part of the verdict; the caller has established zero progress beforehand"""
        if not self.in_nfc:
            return False
        if self.kind in ("cond-wait", "join"):
            return self.timeout is None and self.notified is not True
        if self.kind == "lock-or-c-call-in-nfc":
            return True
        return False

    def as_dict(self):
        return {"kind": self.kind, "timeout": self.timeout if self.timeout in (None, "?") else float(self.timeout),
                "notified": self.notified, "caller": "%s:%s" % (self.caller_file, self.caller_func),
                "in_nfc": self.in_nfc, "nfc_func": self.nfc_func, "stack": self.stack}


def _local(frame, name, default="?"):
    try:
        return frame.f_locals.get(name, default)
    except Exception:
        return default


def classify(frame):
    info = WaitInfo()
    fr = frames_of(frame)
    info.stack = describe(frame)
    i = 0
    inner_std = []
    while i < len(fr) and fr[i].f_code.co_filename in _STDLIB_WAIT_FILES:
        inner_std.append(fr[i])
        i += 1
    caller = fr[i] if i < len(fr) else None
    if caller is not None:
        info.caller_file = short_file(caller.f_code.co_filename)
        info.caller_func = caller.f_code.co_name
        info.in_nfc = is_nfc_file(caller.f_code.co_filename)
    for f in fr:
        if is_nfc_file(f.f_code.co_filename):
            info.nfc_func = "%s:%s" % (short_file(f.f_code.co_filename), f.f_code.co_name)
            break
    if inner_std:
        top = inner_std[0]
        name = top.f_code.co_name
        if name == "wait" and "waiter" in top.f_code.co_varnames:          # Condition.wait
            info.kind = "cond-wait"
            info.timeout = _local(top, "timeout")
            w = _local(top, "waiter", None)
            try:
                info.notified = (not w.locked()) if w is not None else None
            except Exception:
                info.notified = None
            info.cond = _local(top, "self", None)
        elif name in ("_wait_for_tstate_lock", "join"):
            info.kind = "join"
            t = _local(top, "timeout")
            info.timeout = None if t in (None, -1) else t
        elif name in ("wait", "get", "put", "acquire"):
            # Event.wait / Queue.get ... sampled before they entered Condition.wait: they are running
            info.kind = "running-or-c-call"
            info.timeout = _local(top, "timeout")
        return info
    if caller is not None and info.in_nfc:
        info.kind = "lock-or-c-call-in-nfc"
    return info


# ---------------------------------------------------------------------------------------------------------
# sys.monitoring: progress counters, yield injection, schedule signature
class LineMonitor:
    def __init__(self, fragments=("/nfc/llcp/",), yield_p=0.0, rng=None, tool_ids=(4, 3)):
        self.fragments = tuple(fragments)
        self.yield_p = float(yield_p)
        self.rng = rng
        self.counts = {}
        self.switches = 0
        self.sig = 0
        self.events = 0
        self.yields = 0
        self._last = None
        self._tool = None
        self._tool_ids = tool_ids
        self._match = {}
        self.hook = None                  # optional callable(code, line, thread_ident) for directed schedules

    def start(self):
        mon = sys.monitoring
        for t in self._tool_ids:
            if mon.get_tool(t) is None:
                mon.use_tool_id(t, "vf-watch")
                self._tool = t
                break
        else:
            raise RuntimeError("no free sys.monitoring tool id")
        mon.register_callback(self._tool, mon.events.LINE, self._on_line)
        mon.set_events(self._tool, mon.events.LINE)
        mon.restart_events()
        return self

    def stop(self):
        mon = sys.monitoring
        if self._tool is not None:
            mon.set_events(self._tool, 0)
            mon.register_callback(self._tool, mon.events.LINE, None)
            mon.free_tool_id(self._tool)
            self._tool = None

    def reset(self, yield_p=None, rng=None):
        self.counts = {}
        self.switches = self.sig = self.events = self.yields = 0
        self._last = None
        self.hook = None
        if yield_p is not None:
            self.yield_p = float(yield_p)
        if rng is not None:
            self.rng = rng

    def _on_line(self, code, line):
        m = self._match.get(code)
        if m is None:
            fn = code.co_filename.replace("\\", "/")
            m = self._match[code] = any(fr in fn for fr in self.fragments) and "/verif/" not in fn
        if not m:
            return sys.monitoring.DISABLE
        t = threading.get_ident()
        c = self.counts
        c[t] = c.get(t, 0) + 1
        self.events += 1
        if t != self._last:
            self._last = t
            self.switches += 1
            self.sig = (self.sig * 1000003 + hash((threading.current_thread().name, code.co_name))) & 0xFFFFFFFFFFFF
        h = self.hook
        if h is not None:
            h(code, line, t)
        p = self.yield_p
        if p:
            r = self.rng.random()
            if r < p:
                self.yields += 1
                _real_sleep(0 if r < p * 0.8 else 0.0001)

    def count(self, ident):
        return self.counts.get(ident, 0)


# ---------------------------------------------------------------------------------------------------------
# sampling
def thread_key(ident, frames, monitor=None):
    f = frames.get(ident)
    if f is None:
        return None
    return (monitor.count(ident) if monitor is not None else 0, id(f), f.f_lasti, id(f.f_code))


class Heartbeat:
    """a thread of this process that only sleeps 2 ms and counts: evidence that threads get scheduled"""

    def __init__(self, period=0.002):
        self.ticks = 0
        self.period = period
        self._stop = False
        self._t = threading.Thread(target=self._run, name="vf-heartbeat", daemon=True)

    def start(self):
        self._t.start()
        return self

    def _run(self):
        while not self._stop:
            _real_sleep(self.period)
            self.ticks += 1

    def stop(self):
        self._stop = True


class Quiescence:
    def __init__(self, monitor=None, interval=0.05, samples=3, min_ticks=8, heartbeat=None, budget=240):
        self.monitor = monitor
        self.interval = interval
        self.samples = samples
        self.min_ticks = min_ticks
        self.hb = heartbeat
        self.budget = budget            # maximum number of samples per wait() (watchdog, in samples not seconds)
        self.lock_factor = 4
        self.samples_taken = 0

    def _pause(self):
        hb = self.hb
        t0 = hb.ticks if hb else 0
        _real_sleep(self.interval)
        if hb:
            n = 0
            while hb.ticks - t0 < self.min_ticks and n < 400:     # loaded machine: wait for scheduling evidence
                _real_sleep(self.interval / 5)
                n += 1

    def wait(self, get_threads, busy=None):
        """get_threads() -> iterable of threading.Thread to watch (re-evaluated at every sample);
        busy(thread) -> False for threads that are parked on purpose (they are ignored).
        Returns ("done", {}) when no watched thread is alive/busy any more, ("quiescent", {thread: WaitInfo})
        when every remaining one showed zero progress over `samples` samples, ("watchdog", {...}) otherwise."""
        prev = None
        stable = 0
        for _ in range(self.budget):
            frames = sys._current_frames()
            self.samples_taken += 1
            cur = {}
            for th in get_threads():
                if not th.is_alive() or th.ident is None:
                    continue
                if busy is not None and not busy(th):
                    continue
                k = thread_key(th.ident, frames, self.monitor)
                if k is not None:
                    cur[th] = k
            if not cur:
                return "done", {}
            if prev is not None and cur == prev:
                stable += 1
            else:
                stable = 1
            prev = cur
            if stable >= self.samples:
                infos = {}
                for th in cur:
                    f = frames.get(th.ident)
                    if f is not None:
                        infos[th] = classify(f)
                # Quiescence means: every remaining thread sits in a wait that nothing but another thread can
                # end.  A wait with a time-out, a wait that has been notified, a thread that is runnable (innermost
                # frame is ordinary code: it is merely not scheduled on a loaded machine) or a wait outside nfc
                # (e.g. Thread.start() waiting for the new thread) all end by themselves: keep sampling.
                # "Innermost frame in an nfc file, no progress" (blocked on a lock) cannot be told from a starved
                # runnable thread by its stack, it needs `lock_factor` times as many identical samples.
                pending = False
                for i in infos.values():
                    if i.kind in ("cond-wait", "join") and i.timeout is None and i.notified is not True and i.in_nfc:
                        continue
                    if i.kind == "lock-or-c-call-in-nfc" and stable >= self.samples * self.lock_factor:
                        continue
                    pending = True
                if len(infos) == len(cur) and not pending:
                    return "quiescent", infos
            del frames
            self._pause()
        frames = sys._current_frames()
        return "watchdog", {th: classify(frames[th.ident]) for th in (prev or {}) if th.ident in frames}


def wake(info):
    """clean-up after the verdict: notify the condition a leaked thread waits on (it may or may not exit)"""
    c = info.cond
    if c is None:
        return False
    try:
        if c.acquire(timeout=0.05):
            try:
                c.notify_all()
            finally:
                c.release()
            return True
    except Exception:
        pass
    return False
