"""icontract-based monitors applied from the harness to real nfcpy classes (no source change).

Named condition functions + explicit error= (icontract 2.7 turns a lambda violation into SyntaxError).
Conditions record and the violating call raises ContractBroken, which the workloads report.
"""
import threading

COUNTS = {}
_lock = threading.Lock()


class ContractBroken(Exception):
    pass


def _tick(name):
    with _lock:
        COUNTS[name] = COUNTS.get(name, 0) + 1


def install_pdu_length_contract():
    """post: len(pdu) == len(pdu.encode()) for every PDU class (the length used for MIU budgeting)"""
    import icontract
    import nfc.llcp.pdu as pdu

    def encoded_length_matches(self, result):
        _tick("pdu_len_contract")
        return len(self) == len(result)

    done = []
    for cls in set(pdu.pdu_type_map.values()) | {pdu.UnknownProtocolDataUnit}:
        if cls is pdu.AggregatedFrame:
            continue    # nested aggregates recurse through encode(): wrapper frames would multiply the stack depth
        if "encode" in cls.__dict__ and not getattr(cls.encode, "_vf", False):
            f = icontract.ensure(encoded_length_matches, error=_len_error)(cls.__dict__["encode"])
            f._vf = True
            cls.encode = f
            done.append(cls.__name__)
    return done


def _len_error(self, result):
    return ContractBroken("len(%s)=%d but encoding has %d bytes" % (type(self).__name__, len(self), len(result)))
