"""shard worker: python -m vf.worker <PID> <in.json> <out.json>"""
import importlib
import json
import os
import random
import sys


def setup_paths():
    src = os.environ.get("VERIF_REPO_SRC", "/repo/src")
    if src in sys.path:
        sys.path.remove(src)
    sys.path.insert(0, src)
    root = os.path.dirname(os.path.dirname(os.path.abspath(__file__)))
    deps = os.path.join(root, ".deps")
    if deps not in sys.path:
        sys.path.append(deps)


def run_desc(pid, desc):
    setup_paths()
    import logging
    logging.disable(logging.CRITICAL)
    from vf.core.rec import Recorder, unjson
    prop = importlib.import_module("vf.props." + pid.lower())
    R = Recorder(pid)
    rng = random.Random(int(desc.get("seed", 0)) * 1000003 + int(desc.get("shard", 0)))
    if "replay" in desc:
        prop.replay(unjson(desc["replay"]), R)
    else:
        prop.run(desc, R, rng)
    return R.dump()


def main():
    pid, inp, out = sys.argv[1:4]
    with open(inp) as f:
        desc = json.load(f)
    res = run_desc(pid, desc)
    import nfc
    src = os.environ.get("VERIF_REPO_SRC", "/repo/src")
    assert os.path.realpath(nfc.__file__).startswith(os.path.realpath(src)), (nfc.__file__, src)
    with open(out + ".tmp", "w") as f:
        json.dump(res, f)
    os.replace(out + ".tmp", out)
    sys.stdout.flush()
    os._exit(0)     # stray daemon threads of a workload must not keep the shard alive


if __name__ == "__main__":
    main()
