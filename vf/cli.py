"""check driver: plans shards, runs them as subprocesses, merges, applies known findings,
writes evidence/<ID>.json and replays, prints the verdict lines, sets the exit status.

exit 0 held (on what was observed) | 1 violation | 2 inconclusive / machinery error
"""
import argparse
import fnmatch
import hashlib
import importlib
import json
import os
import shutil
import subprocess
import sys
import time

ROOT = os.path.dirname(os.path.dirname(os.path.abspath(__file__)))
PY = sys.executable


def load_prop(pid):
    return importlib.import_module("vf.props." + pid.lower())


def load_findings(extra=None):
    out = []
    for path in [os.path.join(ROOT, "known_findings.json")] + ([extra] if extra else []):
        if os.path.exists(path):
            with open(path) as f:
                out.extend(json.load(f).get("findings", []))
    return out


def match_finding(findings, pid, sig):
    for f in findings:
        if f.get("property") == pid and f.get("status") == "open" and fnmatch.fnmatchcase(sig, f["signature"]):
            return f
    return None


def run_shards(pid, descs, jobs, workdir, env, default_timeout):
    procs = []
    pending = list(enumerate(descs))
    results = [None] * len(descs)
    running = []
    while pending or running:
        while pending and len(running) < jobs:
            i, d = pending.pop(0)
            inp = os.path.join(workdir, "in_%d.json" % i)
            out = os.path.join(workdir, "out_%d.json" % i)
            with open(inp, "w") as f:
                json.dump(d, f)
            log = open(os.path.join(workdir, "log_%d.txt" % i), "w")
            p = subprocess.Popen([PY, "-m", "vf.worker", pid, inp, out], cwd=ROOT, env=env,
                                 stdout=log, stderr=subprocess.STDOUT)
            running.append((i, p, time.time(), d.get("timeout", default_timeout), out, log))
        time.sleep(0.02)
        for item in list(running):
            i, p, t0, tmo, out, log = item
            rc = p.poll()
            if rc is None:
                if time.time() - t0 > tmo:
                    p.kill()
                    p.wait()
                    running.remove(item)
                    log.close()
                    results[i] = {"error": "shard %d watchdog (%ds) fired" % (i, tmo)}
                continue
            running.remove(item)
            log.close()
            if rc == 0 and os.path.exists(out):
                with open(out) as f:
                    results[i] = json.load(f)
            else:
                with open(os.path.join(workdir, "log_%d.txt" % i)) as f:
                    tail = f.read()[-2000:]
                results[i] = {"error": "shard %d exit %s: %s" % (i, rc, tail)}
    return results


def merge(results):
    m = {"evals": 0, "keys": set(), "bulk_distinct": 0, "counters": {}, "sets": {}, "samples": [],
         "violations": {}, "inconclusive": [], "exhaustive": None}
    for r in results:
        if r is None or "error" in r:
            m["inconclusive"].append((r or {}).get("error", "no result"))
            continue
        m["evals"] += r["evals"]
        m["keys"].update(r["keys"])
        m["bulk_distinct"] += r["bulk_distinct"]
        for k, v in r["counters"].items():
            if k.startswith("max_"):
                m["counters"][k] = max(m["counters"].get(k, v), v)
            else:
                m["counters"][k] = m["counters"].get(k, 0) + v
        for k, v in r["sets"].items():
            m["sets"].setdefault(k, set()).update(v)
        if len(m["samples"]) < 8:
            m["samples"].extend(r["samples"][:2])
        for sig, v in r["violations"].items():
            t = m["violations"].setdefault(sig, {"count": 0, "what": v["what"], "witnesses": []})
            t["count"] += v["count"]
            if len(t["witnesses"]) < 3:
                t["witnesses"].extend(v["witnesses"][:3 - len(t["witnesses"])])
        m["inconclusive"].extend(r["inconclusive"])
        if r.get("exhaustive") is not None:
            m["exhaustive"] = r["exhaustive"] if m["exhaustive"] is None else (m["exhaustive"] and r["exhaustive"])
    return m


def setup():
    from vf.core import deps
    ok = deps.ensure()
    print("setup: icontract %s" % ("available" if ok else "MISSING"))
    try:
        from vf import selftest
    except ImportError:
        selftest = None
    rc = 0
    if selftest is not None:
        rc = selftest.main()
    return 0 if ok and rc == 0 else 2


def main(argv=None):
    if (argv or sys.argv[1:])[:1] == ["--setup"]:
        return setup()
    ap = argparse.ArgumentParser()
    ap.add_argument("pid")
    ap.add_argument("--tier", default=os.environ.get("VERIF_TIER", "quick"), choices=["quick", "thorough"])
    ap.add_argument("--replay")
    ap.add_argument("--src", default=os.environ.get("VERIF_REPO_SRC", "/repo/src"))
    ap.add_argument("--jobs", type=int, default=int(os.environ.get("VERIF_JOBS", "16")))
    ap.add_argument("--inproc", action="store_true", help="run shards in this process (debugging)")
    ap.add_argument("--shard", type=int, help="only this shard index (debugging)")
    ap.add_argument("--no-evidence", action="store_true")
    ap.add_argument("--extra-findings", help="development only: additional findings file")
    a = ap.parse_args(argv)
    if os.environ.get("VERIF_TIER") in ("quick", "thorough") and "--tier" not in (argv or sys.argv):
        a.tier = os.environ["VERIF_TIER"]
    pid = a.pid.upper()
    seed = int(os.environ.get("VERIF_SEED", "0") or 0)
    t0 = time.time()
    env = dict(os.environ)
    env["VERIF_REPO_SRC"] = a.src
    env["PYTHONHASHSEED"] = "0"
    env["PYTHONPATH"] = ROOT + os.pathsep + env.get("PYTHONPATH", "")
    env["PYTHONDONTWRITEBYTECODE"] = "1"
    os.environ["VERIF_REPO_SRC"] = a.src
    from vf.core import deps
    deps.ensure()
    prop = load_prop(pid)
    findings = load_findings(a.extra_findings)

    if a.replay:
        with open(a.replay) as f:
            rep = json.load(f)
        desc = {"replay": rep["case"], "seed": rep.get("seed", 0), "shard": 0, "tier": rep.get("tier", "quick")}
        descs = [desc]
    else:
        descs = prop.plan(a.tier, seed)
        for i, d in enumerate(descs):
            d.setdefault("shard", i)
            d.setdefault("seed", seed)
            d.setdefault("tier", a.tier)
        if a.shard is not None:
            descs = [descs[a.shard]]

    workdir = os.path.join(ROOT, ".work", "%s-%d" % (pid, os.getpid()))
    os.makedirs(workdir, exist_ok=True)
    try:
        if a.inproc:
            from vf import worker
            results = [worker.run_desc(pid, d) for d in descs]
        else:
            default_timeout = 900 if a.tier == "quick" else 7200
            results = run_shards(pid, descs, a.jobs, workdir, env, default_timeout)
    finally:
        shutil.rmtree(workdir, ignore_errors=True)
    m = merge(results)

    # required observation counters: zero => inconclusive, never "held"
    for name in getattr(prop, "REQUIRED", []):
        if a.replay or a.shard is not None:
            break
        if not m["counters"].get(name, 0):
            m["inconclusive"].append("deciding monitor never reached: counter %r is zero" % name)

    new_viol = 0
    lines = []
    os.makedirs(os.path.join(ROOT, "replays", pid), exist_ok=True)
    for sig in sorted(m["violations"]):
        v = m["violations"][sig]
        kf = match_finding(findings, pid, sig)
        if kf:
            lines.append("KNOWN-FINDING: property=%s %s [%s] (%d occurrences this run)" % (pid, kf["what"], sig, v["count"]))
            continue
        new_viol += 1
        case = v["witnesses"][0] if v["witnesses"] else None
        body = {"property": pid, "signature": sig, "what": v["what"], "seed": seed, "tier": a.tier, "case": case,
                "other_witnesses": v["witnesses"][1:]}
        sha = hashlib.sha1(json.dumps([sig, case], sort_keys=True).encode()).hexdigest()[:12]
        path = os.path.join(ROOT, "replays", pid, sha + ".json")
        with open(path, "w") as f:
            json.dump(body, f, indent=1)
        lines.append("VIOLATION property=%s replay=%s" % (pid, path))
        lines.append("  signature: %s (%d occurrences)" % (sig, v["count"]))
        lines.append("  what: %s" % v["what"][:600])

    distinct = len(m["keys"]) + m["bulk_distinct"]
    wall = time.time() - t0
    cov = {
        "evaluations": m["evals"],
        "distinct_nontrivial": distinct,
        "rule": getattr(prop, "RULE", ""),
        "samples": m["samples"][:6],
        "observed": {k: m["counters"][k] for k in sorted(m["counters"])},
        "observed_sets": {k: {"size": len(v), "values": sorted(v, key=str)[:40]} for k, v in sorted(m["sets"].items())},
        "shards": len(descs),
        "known_findings_seen": sorted(s for s in m["violations"] if match_finding(findings, pid, s)),
        "inconclusive": m["inconclusive"][:10],
    }
    if m["exhaustive"] is not None:
        cov["exhaustive"] = bool(m["exhaustive"])
    ev = {"property_id": pid, "tier": a.tier, "seed": seed, "level": prop.LEVEL, "coverage": cov,
          "assumptions": list(getattr(prop, "ASSUMPTIONS", [])), "wall_s": round(wall, 2), "violations": new_viol}
    if not a.replay and a.shard is None and not a.no_evidence:
        os.makedirs(os.path.join(ROOT, "evidence"), exist_ok=True)
        tmp = os.path.join(ROOT, "evidence", pid + ".json.tmp")
        with open(tmp, "w") as f:
            json.dump(ev, f, indent=1, sort_keys=True)
        os.replace(tmp, os.path.join(ROOT, "evidence", pid + ".json"))

    for ln in lines:
        print(ln)
    summ = ", ".join("%s=%s" % (k, m["counters"][k]) for k in sorted(m["counters"])[:60])
    print("%s tier=%s seed=%d evaluations=%d distinct=%d wall=%.1fs" % (pid, a.tier, seed, m["evals"], distinct, wall))
    print("  observed: " + summ)
    if new_viol:
        print("%s: VIOLATED (%d new signatures)" % (pid, new_viol))
        return 1
    if m["inconclusive"]:
        for r in m["inconclusive"][:10]:
            print("INCONCLUSIVE property=%s %s" % (pid, str(r)[:800]))
        return 2
    print("%s: held on what was observed" % pid)
    return 0


def guarded_main():
    """an error of the machinery itself is INCONCLUSIVE (exit 2), never a silent pass and never exit 1 without a VIOLATION line"""
    try:
        return main()
    except SystemExit:
        raise
    except BaseException as e:      # noqa
        import traceback
        traceback.print_exc()
        pid = next((x for x in sys.argv[1:] if not x.startswith("-")), "?").upper()
        print("INCONCLUSIVE property=%s machinery error: %s: %s" % (pid, type(e).__name__, str(e)[:500]))
        return 2


if __name__ == "__main__":
    sys.exit(guarded_main())
