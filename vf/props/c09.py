"""C09 - when the LLCP link ends no application thread is left waiting.

Two real LogicalLinkControllers with their real run() loops (vf.sim.llcpair.ThreadedPair, MACs are instances of the
real nfc.dep classes).  Application threads (one role per thread) sit in or are about to enter
send/recv/accept/connect/resolve/poll/close/sendto/recvfrom, SNEP and handover servers run their service threads.
The link is ended at the k-th exchange by one of the causes

    local      terminate callback of this end turns true      (the other end sees   remote  = DISC(0,0))
    disrupt    the peer falls silent (TimeoutError in the link loop)
    ioerror    IOError in the link loop; mac.deactivate() is a no-op ("ioerror-deact-noop") or the *real*
               nfc.dep deactivate() over a frontend whose device is gone, which raises IOError again
               ("ioerror-deact-raises")
    unencodable-ui    error in the link loop caused by an outgoing PDU that cannot be encoded: an application thread
               of this end calls sendto(b"hello", 64) (with MSG_DONTWAIT or blocking) on a bound logical data link
               socket at exchange k; destination address 64 is outside 0..63, the socket layer does not check it,
               pdu.encode() fails in the link loop, which has to treat that like any other failed exchange
    unencodable-name  same with a service name of 256 octets that neither an SDREQ (resolve) nor a CONNECT SN
               parameter (connect by name) can carry; both ends announce a MIU that lets the PDU pass collect()
    unencodable-type  same with sendto(b"hello", "33"): a destination address of the wrong type, which the socket
               layer does not check either; pdu.encode() fails with TypeError in the link loop
    unencodable-raw   same through a RAW access point socket (nfc.llcp.llc.RAW_ACCESS_POINT, bound): an application
               thread of this end sends, blocking or with MSG_DONTWAIT, a PDU object that cannot be encoded -
               UnnumberedInformation('33', 1, data=b'x') (TypeError in the link loop) or FrameReject(16, 32, flags=99)
               (struct.error in the link loop); a raw access point takes any PDU object, nothing is checked before the
               link loop encodes it
    (should the socket layer reject such a call - nfc.llcp.Error, TypeError or ValueError to the caller that made
    it - or the link survive it, the case falls back to cause "local": counters unencodable_fallback_local and
    unencodable_degraded_to_local/<cause>/<what the caller got>; on the present tree this is what happens to
    unencodable-ui and unencodable-type: sendto() refuses the address with EFAULT)

Oracle (structural, never elapsed time):
  1. after the run loops have ended, once all workload threads show zero progress (sys.monitoring LINE counter of
     nfc/llcp + frame identity) over 3 samples, a thread that is inside an untimed wait called from an nfc function
     and that nobody has notified is blocked forever                      -> blocked-forever/<kind>/<age>-socket/<cause>@<fn>
  2. every completed call returned a value or raised nfc.llcp.Error        -> escape/<kind>/<exc_sig>
  3. then every kind of call is issued once more on every old socket and on sockets created after the
     termination; same two clauses
  4. service threads (everything started by SnepServer/HandoverServer.start()) are gone -> clause 1 with kind service-*
  5. run() came back (return, SystemExit as pinned by the repository's tests for the IOError path, or IOError which
     ContactlessFrontend.connect() turns into `return False`); udp mode: connect() itself returned a value.  Any
     other exception that leaves the link loop (it then ended without terminate())  -> run-loop-died/<exc_sig>/<cause>
     One allowance, cause unencodable-raw only: the link loop may pass the encoder's TypeError / ValueError /
     struct.error for the application's own unencodable PDU object on to the caller of run() / connect() (argument
     error) provided it has terminated the link before: link state SHUTDOWN, LLC marked terminated, every service
     access point shut down and removed (counter unencodable_raw_raised_after_terminate)
  7. a service thread that, once the link of its end has begun to terminate, dies of an exception that is not
     nfc.llcp.Error (threading.excepthook; SystemExit is how a thread may end itself and is not counted): a socket call
     or its result at the end of the link was not handled          -> escape/service-thread/<exc_sig>
  6. spinning (decided on logical counts, never on elapsed time): after both link loops have ended a workload thread
     whose call in progress (service thread: the thread itself) has executed more than SPIN_LINES statements of
     nfc/llcp since the later of (link ended, call entered) and still goes on over SPIN_SAMPLES samples, or that is
     seen in SPIN_WAITS different timed waits called from nfc code inside that one call (statements executed in
     between), cycles inside nfc without returning: it honours neither the error of the calls it makes nor the end of
     the link        -> call-never-returns/spinning/<kind>/<age>-socket/<cause>/<busy|timed-wait@fn>
                        service-thread-survives/spinning/<service function>/<cause>/<busy|timed-wait@fn>
     (on the unchanged tree a call executes at most a few hundred such statements after the link has ended:
     counters max_post_term_lines/call and max_post_term_lines/service-thread; a thread that is merely slow never reaches the counts)
A sample budget that runs out without quiescence is INCONCLUSIVE.

<age> of the socket a blocked call works on:
    old            registered with the LLC (bound) before terminate() began; the thread was already waiting then
    old-shared     same, and other threads wait in calls on the same socket (shared-socket groups)
    old-latewait   same socket class, but the thread entered the wait after terminate() had begun (it had passed the
                   entry checks before): lost wake-up
    entering       entering cases: the call was parked at one of its lock acquisitions before terminate() began and
                   resumed after the link loop had come back
    racing         created before the link loop came back, bound while/after terminate() ran
    new            created after run() came back
Shared-socket groups ("shared" in the descriptor, one group per end and case, variant enumerated): 2 or 3 threads
wait in calls on the SAME socket when the link ends - recv+recv, recv+poll recv, recv+recv+poll recv, poll recv+poll
recv, send+send on a closed window, send+poll acks, poll acks+poll acks, accept+accept, recvfrom+recvfrom, raw
recv+raw recv.  Every one of them has to come back (a termination that wakes one waiter per condition instead of all
leaves the others behind); <age> is then "old-shared".
Frame-reject cases ("fr" in the descriptor): the same pair, causes and MAC modes, but the link is ended only after
every end has had frame-reject events on data link connections that have a thread blocked in a socket call.  The
hostile peer is a thread of the other end with a RAW access point socket (public API) that sends, once it sees the
victim thread inside its wait,
    frmr-received    FRMR for the connection
    frmr-sent-ns     I PDU with an out-of-sequence N(S)            (the local side answers FRMR and shuts the socket)
    frmr-sent-miu    I PDU larger than the receive MIU of the socket                  (same)
    ui-on-dlc / unknown-on-dlc   a non connection-mode PDU (UI, reserved PDU type 1011) addressed to the SAP pair of
                     the connection (same, flag W; an SNL/PAX/AGF/DPS PDU with such addresses does not get that far:
                     it fails to decode, which ends the link)
    dm-on-dlc / cc-on-dlc    DM / CC for an established connection (nfcpy ignores them)
    disc-received    DISC for the connection (the peer closes it: CLOSE_WAIT, DM is sent)
to victims blocked in recv / poll recv / poll acks / send on a closed window / poll send on an established
connection, in accept() on a listening socket and in connect() in progress (there: ui, unknown, frmr, dm).  k exchanges
(0..30) after the events have taken effect the link ends by the cause of the case.  The oracle is unchanged: a
victim may return at the reject (what nfcpy does) or when the link ends, it must not stay blocked; the cause in
the signature becomes <event>+<cause>.  After its first call returned a victim issues the same call once more on
the (now shut down) socket, which has to come back too.
Same-exchange victims (events disc-sx / dm-sx / frmr-sx): the call is ISSUED in the very exchange in which the peer's
DISC / DM / FRMR for its connection arrives.  The hostile PDU is sent first; a sys.monitoring LINE hook holds the
link loop of the victim's end at the first statement of LogicalLinkController.dispatch() for that PDU (it holds no
lock there), the victim thread makes its call - send() on an open window whose I PDU is then queued but not yet
collected ("sendq"), send() on a closed window, recv, poll recv / acks, send with MSG_DONTWAIT followed by poll
send - and once it is seen inside its wait (bounded, selects what is exercised) the link loop goes on and dispatches
the PDU: the schedule "both sides act at the same time".  Oracle and signatures as above.

Entering cases ("ent" in the descriptor): calls that are ENTERING - between their first test of the socket / link
state and their wait - at the moment the link terminates.  Every blocking call kind (recv, send on a closed window,
poll recv/send/acks on a connection, accept with and without a queued CONNECT, connect by SAP and by name, recvfrom,
blocking sendto, poll on a logical data link, resolve, raw recv, close with its DISC handshake) is issued by an
"entrant" thread whose socket's lock and condition objects (and the link controller's lock / the service discovery
condition) are replaced, per instance and on the harness side, by delegating stand-ins (EntGate): everything goes to
the real object, but the p-th outermost acquisition the entrant thread makes inside its call (p enumerated over the
acquisition points the call has, plus one beyond) is held back until the link loop of that end has come back from
terminate(); then the thread goes on.  The thread holds no nfcpy lock while it is parked, so this is the schedule
"preempted right before the lock acquisition, link loop runs the complete termination, thread resumes".  A second
kind of entrant (mode "stmt") is held the same way at the n-th statement of nfc/llcp that its call executes while it
holds none of these locks (sys.monitoring LINE hook; n enumerated over the statements the call path has outside its
critical sections, plus two): preemption at any statement between two critical sections or in front of the first.
Racers (statistical part): further threads issue the same calls when terminate() reaches the MAC / when the link
loop begins to shut the service access points down (plus 0..15 ms), with yield injection at statement starts of
nfc/llcp/tco.py and llc.py in these threads (sleeps of 0.5..20 ms) and in the link loops (sleep(0)) only.  The
oracle is unchanged (clauses 1 and 2); <age> is "entering" for a call that was parked before terminate() began.
The link ends k in (0,1,3,8) exchanges after all entrants are parked (or have passed their last acquisition point
and wait inside the call).

MAC modes: "fake" (PDU level pipe, exchange/activate/deactivate of the real nfc.dep instances replaced), "dep"
(only activate replaced: the real nfc.dep exchange()/deactivate() run over a frame level air) and "udp" (complete
path: real ContactlessFrontend.connect(llcp=...), nfc.clf.udp driver, nfc.dep, over vf.sim.fakenet).  MAC time-outs are
logical (peer silent), see wait_frame().  Directed cases park one chosen thread at the n-th statement of its call
path (sys.monitoring LINE hook) until the link has ended: systematic single preemption of every call path.
"""
import errno
import itertools
import random
import struct
import sys
import threading
import time

import nfc
import nfc.clf
import nfc.dep
import nfc.llcp
import nfc.llcp.llc as L
import nfc.llcp.pdu as P
import nfc.snep
import nfc.handover

from vf.core import watch
from vf.core.rec import exc_sig, exc_text
from vf.sim.llcpair import ThreadedPair

ID = "C09"
LEVEL = "exploration"
RULE = ("case = (cause of termination x end that experiences it x deactivate variant: 13 combinations, among them an "
        "error in the link loop caused by an unencodable outgoing PDU - sendto() to address 64 or to address '33' "
        "(a string), blocking and MSG_DONTWAIT, resolve()/connect() of a 256 octet service name, or (unencodable-raw, "
        "both ends) a PDU object that pdu.encode() rejects with TypeError / struct.error sent through a bound RAW "
        "access point socket, blocking and MSG_DONTWAIT, issued by an application thread at "
        "exchange k) x exchange number "
        "k in 2..40 at which the link ends, both enumerated; x assignment of 20 application roles (blocked recv / accept / "
        "connect by SAP and by name / resolve / send on a closed window / sendto / recvfrom / poll recv,send,acks with "
        "and without time-out / close, SNEP and handover clients in mid-request) to the two ends, SNEP and handover "
        "servers, randomised; on each end one group of 2 or 3 threads that wait in calls on the SAME socket (10 "
        "variants: recv+recv, recv+poll recv, recv+recv+poll recv, poll recv x2, send+send on a closed window, "
        "send+poll acks, poll acks x2, accept x2, recvfrom x2, raw recv x2; enumerated); 2 of 5 cases add one directed preemption (a chosen thread - role, infrastructure or "
        "service thread - is parked at the n-th statement of its call path inside nfc/llcp until the link has ended; "
        "thread and n enumerated); 1 of 10 cases runs the real nfc.dep exchange()/deactivate() over a frame level air "
        "instead of the PDU level FakeMac and 1 of 10 the complete path (two real ContactlessFrontend.connect(llcp=..) "
        "calls, real nfc.clf.udp driver and nfc.dep over the in-memory FakeNet with the fault injected at socket level); "
        "the other schedules are randomised by yield injection. Frame-reject cases (2 per shard quick, 12 thorough) "
        "add: 8 causes x delay k in (0,2,5,12,30) exchanges, enumerated, x 12 victims per end out of 66 enumerated "
        "(blocked call x frame-reject event) combinations - recv / poll recv / poll acks / send on a closed window / "
        "poll send on an established connection, accept, connect in progress x FRMR received, I PDU with wrong N(S), "
        "oversized I PDU, UI, PDU of reserved type 1011, DM, CC, DISC sent by a raw access point of the peer when the victim is seen waiting, "
        "plus 18 same-exchange combinations (send with the I PDU queued but not collected, send on a closed window, recv, "
        "poll recv/acks/send x DISC, DM, FRMR from the peer dispatched in the very exchange in which the call is issued: "
        "the link loop is held in front of dispatch(PDU) until the victim is inside its wait) - "
        "and end the link k exchanges after the events took effect. Entering cases (2 per shard quick, 10 thorough) "
        "add: 13 causes x delay k in (0,1,3,8), enumerated, x on EACH end one entrant thread per (blocking call kind x "
        "outermost lock acquisition point p of that call: 20 points on the unchanged code - recv, send on a closed "
        "window, poll recv/send/acks, accept, accept with a queued CONNECT p=1,2, connect p=1,2, connect by name, "
        "recvfrom, sendto p=1,2, poll on a logical data link, resolve, raw recv, close p=1,2,3) that is held at that "
        "acquisition by a delegating stand-in for the lock/condition until the link loop has come back from "
        "terminate(), 2 probes at p+1 (rotating), 4 entrants held instead at the n-th statement executed outside "
        "every critical section (call kind x n enumerated, 184 points, 8 consecutive ones per case) and 2 racers "
        "(rotating) that start their call when terminate() reaches the MAC / begins to shut the service access "
        "points down, with yield injection in nfc/llcp/tco.py and llc.py. "
        "A case is distinct by "
        "(descriptor, observed schedule signature) and non-trivial if both link loops ended, every thread was "
        "classified and the post-termination calls (every kind, old sockets and new sockets) were issued")
ASSUMPTIONS = [
    "the simulated MACs (instances of the real nfc.dep classes; FakeMac: exchange/activate/deactivate replaced, "
    "dep mode: only activate replaced, frames cross an in-memory air) stand for the radio link; their time-outs are "
    "logical: an exchange times out when the peer is silent (fault script, peer deactivated/gone, or - real NFC-DEP "
    "initiator - peer listening without answering), capped at 4 s real time",
    "ioerror-deact-raises runs the real nfc.dep deactivate() over a frontend whose exchange raises ENODEV, as "
    "ContactlessFrontend.exchange does when the device is gone",
    "pacing sleeps of LogicalLinkController.collect() are capped at 3 ms (time shim in nfc.llcp.llc), they carry no "
    "protocol meaning",
    "outside the udp mode ContactlessFrontend.connect() itself is not run: the link loop thread does what "
    "_llcp_connect() does (activate, run) and clause 5 applies connect()'s own exception handling (IOError -> "
    "return False); in udp mode (vf.sim.fakenet, virtual clock) the link loop threads are the connect() calls",
    "thread schedules are sampled (yield injection at statement starts in nfc/llcp) plus one directed preemption per "
    "directed case; they are not enumerated beyond that",
    "run() raising SystemExit on the IOError path is accepted because the repository's tests pin it",
    "unencodable-* causes: the application thread makes its call when the MAC hook reports exchange k; "
    "nfc.llcp.pdu.encode is wrapped by a pass-through that records failed calls (evidence only); TypeError/ValueError "
    "(and struct.error) raised to the thread that made the bad call are accepted for that one call (argument "
    "errors), and likewise for the calls with the same deliberately invalid arguments (address 64, address '33', 256 "
    "octet name, unencodable PDU object on a raw access point) that are issued after the termination; if the stack "
    "refuses the call or the link is still up 2 s later the case goes on with a local terminate request and is "
    "labelled 'local' (this wait selects the cause that is exercised, it decides no verdict)",
    "frame-reject cases: the hostile PDUs are sent through a RAW access point socket of the peer's real stack; "
    "the harness reads the victim thread's stack (is it inside a wait below nfc?) and the state attribute of the "
    "victim socket's transmission control object only to time the injection and the link end and for the coverage "
    "counters fr_*; bounded waits there (4 s for the victims to block, 3 s for the effect) select what is "
    "exercised and decide no verdict",
    "entering cases: the lock / condition attributes of the entrant's socket, the link controller's lock and the "
    "service discovery condition are replaced per instance by stand-ins that delegate every operation to the real "
    "object; a stand-in only delays the registered entrant thread, at an acquisition it makes while holding none "
    "of these locks (mode stmt: the LINE hook delays it at a statement it executes while holding none of them), "
    "until the link loop of its end has ended (a schedule the interpreter may produce by itself); "
    "the harness reads the socket's receive queue length (accept with a queued CONNECT) and thread stacks only to "
    "time the end of the link; bounded waits there (8 s for the entrants to arrive, 60 s guard on a parked thread) "
    "select what is exercised and decide no verdict; a call that was not parked before terminate() began is not "
    "counted as an entering call",
    "a thread is 'blocked forever' when, after both link loops have ended and all watched threads are quiescent, it "
    "sits in an untimed Condition.wait called from nfc code whose waiter lock nobody has released; threads that "
    "share a socket (shared-socket groups) are all watched, each makes one call and ends, so none of them can wake "
    "another after the verdict; otherwise no other workload thread shares its socket (except the thread that later "
    "issues close(), after the verdict)",
]
REQUIRED = ["terminations", "terminations/local", "terminations/remote", "terminations/disrupt",
            "terminations/ioerror-deact-noop", "terminations/ioerror-deact-raises",
            # a PDU object that cannot be encoded reached the link loop through a raw access point and ended the link
            "terminations/unencodable-raw", "unencodable_cases/raw", "unencodable_how/raw-ui", "unencodable_how/raw-frmr",
            "unencodable_how/raw-ui-nb", "unencodable_how/raw-frmr-nb",
            # the unencodable call was made on a live link at exchange k (it then either ended the link through the
            # link loop - terminations/unencodable-* - or was refused / survived: unencodable_fallback_local)
            "unencodable_cases/ui", "unencodable_cases/name", "unencodable_cases/type", "unencodable_cases_mac/fake",
            "unencodable_cases_mac/dep", "unencodable_cases_mac/udp", "blocked_at_term_calls",
            "after_calls_old", "after_calls_new", "service_threads_started", "service_threads_exited",
            "quiescence_waits", "directed_holds_reached_before_termination", "cases_mac_dep", "cases_mac_fake",
            "cases_mac_udp",
            # frame-reject class: event delivered to a victim that was seen blocked in its call, and (fr_rejects) the
            # victim came back or its socket was shut down before the termination of the link began
            "fr_cases", "fr_events/frmr-received", "fr_events/frmr-sent-ns", "fr_events/frmr-sent-miu",
            "fr_events/ui-on-dlc", "fr_events/unknown-on-dlc", "fr_events/dm-on-dlc", "fr_events/disc-received",
            # same-exchange victims: the call was seen waiting while the link loop was held in front of dispatch(PDU)
            "fr_events/disc-sx", "fr_events/dm-sx", "fr_events/frmr-sx", "fr_victims/sendq", "fr_sx_held_dispatch",
            "fr_rejects/frmr-received", "fr_rejects/frmr-sent-ns", "fr_rejects/frmr-sent-miu", "fr_rejects/ui-on-dlc",
            "fr_victims/recv", "fr_victims/poll-recv", "fr_victims/poll-acks", "fr_victims/send", "fr_victims/accept",
            "fr_victims/connect", "fr_terminations/local", "fr_terminations/remote", "fr_terminations/disrupt",
            "fr_terminations/ioerror-deact-noop", "fr_terminations/ioerror-deact-raises"]

DLC = nfc.llcp.DATA_LINK_CONNECTION
LDL = nfc.llcp.LOGICAL_DATA_LINK
RAW = L.RAW_ACCESS_POINT
SINK, DRAIN, NOACC, LDLSINK = 60, 61, 62, 63
FRSINK, FRNOACC = 58, 59                       # frame-reject cases: accept-and-hold / never accepting listener
NA_NAME = b"urn:nfc:sn:vf-na"
HOLE = b"urn:nfc:sn:vf-hole"
LATE_NAME = b"urn:nfc:sn:vf-late"
BAD_SAP = 64                                   # not a 6 bit address: the UI PDU cannot be encoded
LONG_NAME = b"urn:nfc:sn:vf-long." + b"n" * 237  # 256 octets: neither SDREQ nor SN can carry it
BAD_TYPE_SAP = "33"                            # not an integer: encode_header() fails with TypeError
UNENC = ("unencodable-ui", "unencodable-name", "unencodable-type", "unencodable-raw")
UNENC_HOW = {"unencodable-ui": ("sendto-nb", "sendto"), "unencodable-name": ("resolve", "connect"),
             "unencodable-type": ("sendto-nb", "sendto"),
             "unencodable-raw": ("raw-ui-nb", "raw-frmr", "raw-ui", "raw-frmr-nb")}
ARG_ERRORS = (TypeError, ValueError, struct.error)      # what a call with a deliberately bad argument may raise
SPIN_LINES = 8000          # statements of nfc/llcp one call / service thread may execute after the link has ended
SPIN_SAMPLES = 3           # ... and still be at it over that many samples
SPIN_WAITS = 8             # different timed waits inside one call after the link has ended
DEFAULT_MIU = {"A": 200, "B": 300}
UNENC_MIU = {"A": 320, "B": 300}               # the PDU with the long name must pass collect() (send MIU >= 259)

_real_time = time
_orig_thread_start = threading.Thread.start
_started = []              # (thread, creator) for every Thread.start() in this process (service thread accounting)
_uncaught = []             # (thread, exc_sig, tick of the running case) from threading.excepthook
_cur = {"ctx": None}       # the case that is running (one at a time per shard process)
_encode_errors = []        # exception type names of failed nfc.llcp.pdu.encode() calls (observation only)
_orig_pdu_encode = P.encode


class _FastTime:
    """nfc.llcp.llc sees this instead of `time`: collect()'s pacing sleeps are capped"""
    cap = 0.003

    def sleep(self, s):
        _real_time.sleep(min(s, self.cap))

    def __getattr__(self, n):
        return getattr(_real_time, n)


def _install_process_hooks():
    if getattr(threading.Thread.start, "_vf_c09", False):
        return

    def start(self):
        _started.append((self, threading.current_thread()))
        return _orig_thread_start(self)
    start._vf_c09 = True
    threading.Thread.start = start

    def hook(args):
        try:
            if args.exc_type is SystemExit:      # as the default hook: a thread may end itself this way
                return
            ctx = _cur["ctx"]
            _uncaught.append((args.thread, exc_sig(args.exc_value) if args.exc_value else str(args.exc_type),
                              next(ctx.ticks) if ctx is not None else 0,
                              exc_text(args.exc_value)[-600:] if args.exc_value else ""))
        except Exception:
            pass
    threading.excepthook = hook
    L.time = _FastTime()

    def encode(pdu):                     # what exchange() calls; the exception is passed on unchanged
        try:
            return _orig_pdu_encode(pdu)
        except Exception as e:
            _encode_errors.append(type(e).__name__)
            raise
    P.encode = encode


# =========================================================================================================
# plan
CAUSES = [("local", "A", "noop"), ("local", "B", "noop"), ("disrupt", "A", "noop"),
          ("ioerror", "A", "noop"), ("ioerror", "A", "raises"), ("ioerror", "B", "noop"), ("ioerror", "B", "raises"),
          # unencodable-ui / -type: one end each (the socket layer refuses these calls on the present tree, the
          # cases then run as "local"); unencodable-raw reaches the encoder in the link loop on every tree
          ("unencodable-ui", "A", "noop"), ("unencodable-raw", "B", "noop"),
          ("unencodable-name", "A", "noop"), ("unencodable-name", "B", "noop"),
          ("unencodable-raw", "A", "noop"), ("unencodable-type", "B", "noop")]
K_MIN, K_MAX = 2, 40
SHARED = ["recv+recv", "recv+poll-recv", "recv+recv+poll-recv", "poll-recv+poll-recv", "send+send", "send+poll-acks",
          "poll-acks+poll-acks", "accept+accept", "recvfrom+recvfrom", "raw-recv+raw-recv"]


def plan(tier, seed):
    if tier == "quick":
        shards, per, nfr, nent = 16, 20, 2, 2
    else:
        shards, per, nfr, nent = 48, 120, 12, 10
    out = []
    for s in range(shards):
        d = {"n": per, "stride": shards, "first": s, "nfr": nfr, "nent": nent}
        if tier != "quick":
            d["timeout"] = 1500
        out.append(d)
    return out


def unenc_how(cause, t):
    """which call hands the link loop the unencodable PDU; t = index of the case among those of its cause.  The MAC
    mode of a cause has period 10 in t: the choice alternates within each MAC mode"""
    hows = UNENC_HOW[cause]
    return hows[(t // 10) % 2] if len(hows) == 2 else hows[(t // 10 + t) % len(hows)]


def make_desc(i, seed, rng):
    """i-th case of the enumeration (cause x k), the rest drawn from rng"""
    nk = K_MAX - K_MIN + 1
    j = i + seed * 7919
    cause, end, deact = CAUSES[j % len(CAUSES)]
    k = K_MIN + ((j // len(CAUSES)) * 11 + seed) % nk
    roles = []
    for name in ROLE_NAMES:
        r = rng.random()
        if r < 0.08:
            continue
        ends = "A" if r < 0.38 else ("B" if r < 0.68 else "AB")
        for e in ends:
            roles.append([name, e])
    rng.shuffle(roles)
    d = {"cause": cause, "end": end, "deact": deact, "k": k, "roles": roles,
         "yield_p": rng.choice([0.0, 0.01, 0.02, 0.05]), "yield_seed": rng.randrange(1 << 30),
         "order_seed": rng.randrange(1 << 30), "lto": 100, "agf": rng.random() < 0.7,
         "stagger": rng.choice([0, 0, 1, 3]), "servers": rng.choice(["AB", "AB", "A", "B"])}
    # one group of threads that wait on the same socket per end (variant enumerated, period 30 in i)
    d["shared"] = [[SHARED[(j // 3) % len(SHARED)], "A"], [SHARED[(j // 3 + j + 5) % len(SHARED)], "B"]]
    if cause in UNENC:
        d["how"] = unenc_how(cause, j // len(CAUSES))
        if cause == "unencodable-name":
            d["miu"] = dict(UNENC_MIU)
    if i % 5 == 4:
        # real nfc.dep exchange()/deactivate() over a frame level air, or ("udp") the complete path: real
        # ContactlessFrontend.connect() + nfc.clf.udp driver + nfc.dep over the in-memory FakeNet
        d["mac"] = "dep" if (i // 5) % 2 == 0 else "udp"
        d["lto"] = 250
        d["roles"] = roles = [r for r in roles if r[0] != "resolve-hole"]
    if i % 5 in (1, 3):
        # directed preemption (bound 1): one thread is parked at the n-th statement of its call path until the
        # link has ended, then continues; targets and n are enumerated
        jj = (i // 5) * 2 + (i % 5 == 3) + seed * 101
        tgt = HOLD_TARGETS[jj % len(HOLD_TARGETS)]
        n = 1 + (jj // len(HOLD_TARGETS)) % tgt["nmax"]
        e = "AB"[(jj // 3) % 2]
        pe = "B" if e == "A" else "A"
        if "role" in tgt:
            if tgt["role"] in ROLES and [tgt["role"], e] not in roles:
                roles.insert(0, [tgt["role"], e])
            d["hold"] = {"thread": "%s:%s" % (e, tgt["role"]), "kind": tgt["kind"], "occ": tgt.get("occ", 1), "n": n}
            if "fn" in tgt:
                d["hold"]["fn"] = tgt["fn"]
        else:
            d["hold"] = {"thread": tgt["frag"], "kind": None, "n": n, "end": e}
            d["servers"] = e
        for r in tgt.get("peer_roles", ()):
            if [r, pe] not in roles:
                roles.insert(0, [r, pe])
        d["k"] = 14 + k % 20
        d["yield_p"] = rng.choice([0.0, 0.0, 0.01])
    return d


# frame-reject cases ----------------------------------------------------------------------------------------
FR_CAUSES = CAUSES[:7] + [("unencodable-raw", "AB", "noop")]      # the end alternates
FR_DELAYS = (0, 2, 5, 12, 30)                  # exchanges between "events took effect" and the end of the link
FR_EVENTS = ("frmr-received", "frmr-sent-ns", "frmr-sent-miu", "ui-on-dlc", "unknown-on-dlc", "dm-on-dlc", "cc-on-dlc",
             "disc-received")
FR_ESTABLISHED = ("recv", "poll-recv", "poll-acks", "send", "poll-send")
FR_SX_EVENTS = ("disc-sx", "dm-sx", "frmr-sx")                 # the call is issued in the exchange the PDU arrives in
FR_SX_KINDS = ("sendq", "send", "recv", "poll-recv", "poll-acks", "poll-send")
FR_CALL_KIND = {"sendq": "send"}                               # kind of the call a victim makes
FR_COMBOS = [[k, e] for e in FR_EVENTS for k in FR_ESTABLISHED] + \
            [[k, e] for e in ("ui-on-dlc", "unknown-on-dlc", "frmr-received", "dm-on-dlc") for k in ("accept", "connect")] + \
            [[k, e] for e in FR_SX_EVENTS for k in FR_SX_KINDS]
FR_PER_END = 12


def make_fr_desc(f, seed, rng):
    """f-th frame-reject case: cause x delay and the victims (blocked call x event) enumerated, the rest drawn"""
    j = f + seed * 7919
    cause, end, deact = FR_CAUSES[j % len(FR_CAUSES)]
    k = FR_DELAYS[(j // len(FR_CAUSES)) % len(FR_DELAYS)]
    end = end[(j // len(FR_CAUSES)) % len(end)]
    roles = []
    for name in ROLE_NAMES:
        r = rng.random()
        if r < 0.5 or name == "resolve-hole":
            continue
        for e in ("A" if r < 0.68 else ("B" if r < 0.86 else "AB")):
            roles.append([name, e])
    rng.shuffle(roles)
    nc = len(FR_COMBOS)
    fr = {e: [FR_COMBOS[(j * 2 * FR_PER_END + o + i) % nc] for i in range(FR_PER_END)]
          for e, o in (("A", 0), ("B", FR_PER_END))}
    d = {"cause": cause, "end": end, "deact": deact, "k": k, "roles": roles, "fr": fr,
         "yield_p": rng.choice([0.0, 0.01, 0.02, 0.05]), "yield_seed": rng.randrange(1 << 30),
         "order_seed": rng.randrange(1 << 30), "lto": 100, "agf": rng.random() < 0.7,
         "stagger": rng.choice([0, 0, 1, 3]), "servers": rng.choice(["AB", "AB", "A", "B"])}
    if cause in UNENC:
        d["how"] = UNENC_HOW[cause][(j // (2 * len(FR_CAUSES))) % len(UNENC_HOW[cause])]
    m = (f + f // 8) % 8                 # 1 of 8 over the real nfc.dep, 1 of 8 the complete udp path; every cause
    if m in (3, 7):
        d["mac"] = "dep" if m == 3 else "udp"
        d["lto"] = 250
    return d


# entering cases ---------------------------------------------------------------------------------------------
# (variant, p): the call of that variant is held at the p-th outermost acquisition of a socket / link controller
# lock or condition it makes; the list is what the unchanged code reaches (each is a REQUIRED counter)
ENT_POINTS = [("recv", 1), ("send", 1), ("poll-recv", 1), ("poll-send", 1), ("poll-acks", 1), ("accept", 1),
              ("accept-pending", 1), ("accept-pending", 2), ("connect", 1), ("connect", 2), ("connect-name", 2),
              ("recvfrom", 1), ("sendto", 1), ("sendto", 2), ("ldl-poll-recv", 1), ("resolve", 1), ("raw-recv", 1),
              ("close", 1), ("close", 2), ("close", 3)]
ENT_KIND = {"accept-pending": "accept", "connect-name": "connect", "ldl-poll-recv": "poll-recv"}   # kind of the call
ENT_NPOINTS = {}
for _v, _p in ENT_POINTS:
    ENT_NPOINTS[_v] = max(ENT_NPOINTS.get(_v, 0), _p)
ENT_VARIANTS = sorted(ENT_NPOINTS)
ENT_DELAYS = (0, 1, 3, 8)
ENT_PROBES, ENT_STMTS, ENT_RACERS = 2, 4, 2
# statements (LINE events in nfc/llcp) a call executes outside every critical section before it waits / returns on the
# unchanged code; two more are enumerated (a change that adds a test in front of a lock adds statements)
ENT_STMT_N = {"accept": 10, "accept-pending": 18, "close": 9, "connect": 13, "connect-name": 13, "ldl-poll-recv": 6,
              "poll-acks": 6, "poll-recv": 6, "poll-send": 6, "raw-recv": 8, "recv": 11, "recvfrom": 8, "resolve": 7,
              "send": 10, "sendto": 19}
ENT_STMT_POINTS = [(v, n) for v in ENT_VARIANTS for n in range(1, ENT_STMT_N[v] + 3)]
# per kind: calls that were inside nfc when terminate() began, and calls issued after run() had come back on sockets that
# existed before ("old") and on sockets created afterwards ("new"); the kinds the plan produces in every run
REQUIRED += ["blocked_at_term/" + k for k in (
    "accept", "close", "connect", "poll-acks", "poll-acks-t", "poll-recv", "poll-recv-t", "poll-send", "poll-send-t",
    "raw-recv", "recv", "recvfrom", "resolve", "send", "sendto")]
REQUIRED += ["after/%s/old" % k for k in (
    "accept", "bind", "close", "connect", "getpeername", "getsockname", "getsockopt", "listen", "poll-acks",
    "poll-recv", "poll-recv-t", "poll-send", "raw-recv", "raw-send", "recv", "recvfrom", "send", "sendto", "sendto-nb")]
REQUIRED += ["after/%s/new" % k for k in (
    "accept", "bind", "close", "connect", "getsockname", "listen", "poll-acks", "poll-acks-t", "poll-recv",
    "poll-recv-t", "poll-send", "raw-recv", "raw-send", "recv", "recvfrom", "resolve", "send", "sendto", "sendto-nb")]
REQUIRED += ["shared_blocked_at_term/" + v for v in SHARED] + ["spin_checks",
                                                                 "service_threads_watched_for_uncaught_exceptions"]
REQUIRED += ["entering_cases", "entering_race_calls_during_termination", "entering_stmt_parked"] + \
            ["entering_parked/%s/%d" % vp for vp in ENT_POINTS] + \
            sorted({"entering_calls/" + ENT_KIND.get(v, v) for v in ENT_VARIANTS}) + \
            ["entering_terminations/" + c for c in ("local", "remote", "disrupt", "ioerror-deact-noop",
                                                    "ioerror-deact-raises")]


def make_ent_desc(f, seed, rng):
    """f-th entering case: cause x delay enumerated; every acquisition point on both ends; probes and racers rotate"""
    j = f + seed * 7919
    cause, end, deact = CAUSES[j % len(CAUSES)]
    k = ENT_DELAYS[(j // len(CAUSES)) % len(ENT_DELAYS)]
    nv = len(ENT_VARIANTS)
    ent = {}
    for e, o in (("A", 0), ("B", nv // 2)):
        lst = [[v, p, "park"] for v, p in ENT_POINTS]
        for i in range(ENT_PROBES):               # one acquisition further than the unchanged code makes
            v = ENT_VARIANTS[(j * ENT_PROBES + o + i) % nv]
            lst.append([v, ENT_NPOINTS[v] + 1, "park"])
        for i in range(ENT_STMTS):                # enumerated: 2 * ENT_STMTS consecutive points per case
            v, n = ENT_STMT_POINTS[(j * 2 * ENT_STMTS + (ENT_STMTS if e == "B" else 0) + i) % len(ENT_STMT_POINTS)]
            lst.append([v, n, "stmt"])
        for i in range(ENT_RACERS):
            v = ENT_VARIANTS[(j * ENT_RACERS + o + i * 5) % nv]
            lst.append([v, rng.choice([0, 200, 1000, 3000, 8000, 15000]), rng.choice(["race", "race-early"])])
        rng.shuffle(lst)
        ent[e] = lst
    d = {"cause": cause, "end": end, "deact": deact, "k": k, "roles": [], "ent": ent,
         "yield_p": rng.choice([0.0, 0.01, 0.02]), "yield_seed": rng.randrange(1 << 30),
         "race_p": rng.choice([0.1, 0.2, 0.35]),
         "order_seed": rng.randrange(1 << 30), "lto": 100, "agf": rng.random() < 0.7,
         "stagger": rng.choice([1, 1, 3]), "servers": rng.choice(["AB", "AB", "A", "B"])}
    if cause in UNENC:
        d["how"] = UNENC_HOW[cause][(j // len(CAUSES)) % len(UNENC_HOW[cause])]
        if cause == "unencodable-name":
            d["miu"] = dict(UNENC_MIU)
    m = (f + f // 8) % 8
    if m in (2, 6):
        d["mac"] = "dep" if m == 2 else "udp"
        d["lto"] = 250
    return d


# =========================================================================================================
# case context, sockets, workers
class Ctx:
    def __init__(self, desc):
        self.desc = desc
        self.ticks = itertools.count(1)
        self.ended = {"A": None, "B": None}
        self.term = {"A": None, "B": None}
        self.run_out = {}
        self.run_err = {}
        self.workers = []
        self.socks = []
        self.servers = []
        self.pair = None
        self.triggered = False
        self.order = random.Random(desc["order_seed"])
        self.pre_threads = set(threading.enumerate())
        del _started[:]                      # cases run one after the other in a shard process
        del _uncaught[:]
        _cur["ctx"] = self
        self.started_mark = 0
        self.uncaught_mark = 0
        self.encode_error_mark = len(_encode_errors)
        self.abandoned = set()
        self.gone = {"A": False, "B": False}     # this end's MAC will not send any more
        self.dead = {"A": False, "B": False}     # this end's device raises IOError
        self.capped = False
        self.llcs = {}
        self.clfs = {}
        self.macwait = {"A": False, "B": False}
        self.waiting = {"A": {}, "B": {}}    # thread -> call record it was waiting in when terminate() began
        self.release = threading.Event()     # directed preemption: the parked thread continues
        self.hold = desc.get("hold")
        self.hold_state = {"armed": False, "count": {}, "held": None, "done": False, "timeout": False}
        self.fire = threading.Event()        # unencodable-*: exchange k reached, the application thread makes its call
        self.unenc_rec = None                # call record of that call
        self.unenc_rejected = None           # the socket layer refused the call (argument error to the caller)
        self.unenc_fallback = False          # the call did not end the link: local terminate request instead
        self.unenc_refusal = None            # what the caller of the refused call got (evidence)
        self.spin_base = None                # LINE counters per thread when both link loops had ended
        self.spin_state = {}                 # thread -> what the spin monitor has seen of its call in progress
        self.spinners = []                   # threads judged spinning (stopped after the verdict)
        self.spin_max = {"call": 0, "service-thread": 0}
        self.by_stack = {"A": False, "B": False}   # terminate() of that end reached the MAC before run() came back
        self.run_exc = {}                    # exception object that left run() / connect()
        self.local_term = None               # callable(end): turn this end's terminate callback true
        self.fr = desc.get("fr")             # frame-reject case: {end: [[kind, event], ...]}
        self.fr_workers = []                 # the victim threads
        self.fr_lock = threading.Lock()
        self.fr_pending = 2                  # injectors that have not finished
        self.fr_ready_at = None              # exchange count at which all events had taken effect
        self.xn = 0                          # exchanges seen by the MAC hook (initiator side)
        self.fr_deferred = []                # the ordinary roles of a frame-reject case (started after the events)
        self.fr_done = threading.Event()     # injectors finished, ordinary roles started
        self.arg_errors = []                 # (kind, exception type) of calls with deliberately bad arguments
        self.shared = []                     # shared-socket groups: {"variant", "end", "threads"}
        self.fr_sx = {}                      # (end, local SAP) -> same-exchange victim whose PDU is on its way
        self.fr_sx_held = 0                  # dispatch() calls held for such a victim
        self.ent = desc.get("ent")           # entering case: {end: [[variant, p | delay, mode], ...]}
        self.ent_workers = []                # entrants and racers
        self.ent_threads = {}                # thread ident -> state of the entrant whose call is in progress
        self.ent_release = {"A": threading.Event(), "B": threading.Event()}   # the link loop of that end has ended
        self.ent_go = {"A": threading.Event(), "B": threading.Event()}        # terminate() of that end reached the MAC
        self.ent_sweep = {"A": threading.Event(), "B": threading.Event()}     # ... began to shut the SAPs down
        self.ent_trig = threading.Event()    # the cause has been injected
        self.ent_ready_at = None             # exchange count at which all entrants had arrived
        self.ent_done = threading.Event()
        self.ent_hot = set()                 # thread idents that get yields injected once the cause is injected
        self.ent_loops = {}                  # the link loops among them: ident -> end
        self.ent_yields = 0
        self.ent_rawaddr = {"A": itertools.count(8), "B": itertools.count(8)}
        self._triggered = False

    @property
    def triggered(self):
        return self._triggered

    @triggered.setter
    def triggered(self, v):
        self._triggered = v
        if v:
            self.ent_trig.set()

    def due(self, n):
        """the planned end of the link is due: at exchange k, or (frame-reject / entering cases) k exchanges after
        the events took effect / the entrants arrived"""
        if self.ent is not None:
            return self.ent_ready_at is not None and self.xn >= self.ent_ready_at + self.desc["k"]
        if self.fr is None:
            return n >= self.desc["k"]
        return self.fr_ready_at is not None and self.xn >= self.fr_ready_at + self.desc["k"]

    def llc(self, end):
        return self.llcs[end] if end in self.llcs else (self.pair.a if end == "A" else self.pair.b)

    def stamp_term(self, end):
        """terminate() of this end has reached the MAC: note which threads are already inside a wait in nfc"""
        if self.term[end] is None:
            self.term[end] = next(self.ticks)
            frames = sys._current_frames()
            snap = {}
            for th in threading.enumerate():
                if th in self.pre_threads or th.ident not in frames:
                    continue
                info = watch.classify(frames[th.ident])
                if info.kind == "cond-wait" and info.in_nfc:
                    snap[th] = getattr(th, "cur", None) or True
            del frames
            self.waiting[end] = snap
            self.ent_go[end].set()

    def cause_at(self, end):
        d = self.desc
        if not self.triggered:
            return "disrupt"              # link timed out before the planned point
        if d["cause"] == "local":
            return "local" if end == d["end"] else "remote"
        if d["cause"] == "disrupt":
            return "disrupt"
        if d["cause"] in UNENC:
            # the link loop of d["end"] has to end the link (an initiator deactivates: the peer is cut off; a
            # target answers the pending request with DISC); the label holds if the call was made on a live link
            rec, term = self.unenc_rec, self.term[d["end"]]
            if rec is None or (term is not None and rec[2] > term):
                return "disrupt"
            if self.unenc_fallback:
                return "local" if end == d["end"] else "remote"
            if end == d["end"]:
                return d["cause"]
            # the link loop died without terminate(): then nobody sent a DISC
            died = str(self.run_out.get(d["end"], "")).startswith("escape:") and not self.by_stack[d["end"]]
            return "remote" if d["end"] == "B" and not died else "disrupt"
        if end == d["end"]:
            return "ioerror-deact-" + ("raises" if d.get("mac") in ("dep", "udp") else d["deact"])
        return "disrupt"


class S:
    """a socket plus what the harness knows about its age"""

    def __init__(self, ctx, end, stype, sock=None, accepted=False):
        self.ctx, self.end, self.stype = ctx, end, stype
        self.new = ctx.ended[end] is not None
        # "old" = registered with the LLC before terminate() began (it reaches the MAC first, then shuts the
        # service access points down); "new" = created after run() came back; everything in between is "racing"
        self.bound_before_end = accepted and not self.new and ctx.term[end] is None
        self.sock = sock if sock is not None else nfc.llcp.Socket(ctx.llc(end), stype)
        self.owner = None
        self.shared = False                  # several threads wait in calls on it (shared-socket groups)
        ctx.socks.append(self)

    def mark_bound(self):
        if self.ctx.ended[self.end] is None and self.ctx.term[self.end] is None:
            self.bound_before_end = True

    def age(self):
        if self.new:
            return "new"
        if self.bound_before_end:
            return "old-shared" if self.shared else "old"
        return "racing"


def brief(v):
    if v is None or v is True or v is False:
        return str(v)
    if isinstance(v, (bytes, bytearray)):
        return "bytes"
    if isinstance(v, tuple):
        return "tuple(%s)" % ",".join(brief(x) for x in v)
    return type(v).__name__


class _Abandoned(Exception):
    pass


class Worker(threading.Thread):
    def __init__(self, ctx, end, role, body, phase):
        super().__init__(name="%s:%s" % (end, role), daemon=True)
        self.ctx, self.end, self.role, self.body, self.phase = ctx, end, role, body, phase
        self.peer = "B" if end == "A" else "A"
        self.cur = None
        self.log = []
        self.escapes = []
        self.harness_error = None
        self.pos = 0
        self.cur_line0 = 0
        ctx.workers.append(self)

    def run(self):
        try:
            self.body(self)
        except _Abandoned:
            pass
        except BaseException as e:            # a bug of the harness, never of nfcpy (calls go through do())
            self.harness_error = exc_text(e)

    # -- every nfcpy call of a workload thread goes through here ---------------------------------------
    def do(self, kind, s, fn, *a, **kw):
        ctx = self.ctx
        if self in ctx.abandoned:
            # this thread was judged (blocked forever) and something woke it later (a close() issued by the thread
            # that took over its remaining calls): it must not act any more
            raise _Abandoned()
        if kind == "resolve":            # a name lookup is registered with the LLC when the call is made
            end = s.end if s is not None else self.end
            age = "new" if ctx.ended[end] is not None else ("old" if ctx.term[end] is None else "racing")
        else:
            age = s.age() if s is not None else "none"
        rec = [kind, age, next(ctx.ticks), None, None]
        hold = ctx.hold
        if hold and not ctx.hold_state["armed"] and hold.get("kind") == kind and hold["thread"] == self.name:
            self.hold_seen = getattr(self, "hold_seen", 0) + 1
            if self.hold_seen == hold.get("occ", 1):
                ctx.hold_state["armed"] = True
                ctx.hold_state["ident"] = threading.get_ident()
        mon = ctx.env_mon
        self.cur_line0 = mon.counts.get(threading.get_ident(), 0)
        self.cur = rec
        ok, val = False, None
        try:
            val = fn(*a, **kw)
            ok = True
            out = "ret:" + brief(val)
        except nfc.llcp.Error as e:
            out = "err:" + errno.errorcode.get(e.errno, str(e.errno))
        except BaseException as e:
            if self in ctx.abandoned:        # judged already (spinning) and stopped by the harness: not an outcome
                raise _Abandoned()
            out = "escape:" + exc_sig(e)
            self.escapes.append((kind, rec[1], exc_sig(e), exc_text(e)[-600:]))
        rec[3] = next(self.ctx.ticks)
        rec[4] = out
        hs = ctx.hold_state
        if hs["armed"] and hold and hold.get("kind") and hs.get("ident") == threading.get_ident():
            hs["done"] = True                # only this one call of the thread is subject to the preemption
        self.cur = None
        self.log.append(rec)
        base = ctx.spin_base
        if base is not None:                 # evidence: statements this call executed after the link had ended
            t = threading.get_ident()
            n = mon.counts.get(t, 0) - max(self.cur_line0, base.get(t, 0))
            if n > ctx.spin_max["call"]:
                ctx.spin_max["call"] = n
        return ok, val

    def new_sock(self, stype, end=None):
        end = end or self.end
        box = []
        ok, _ = self.do("socket", None, lambda: box.append(S(self.ctx, end, stype)))
        if not ok:
            return None
        box[0].owner = self
        return box[0]

    def bind(self, s, addr=None):
        ok, _ = self.do("bind", s, s.sock.bind, addr) if addr is not None else self.do("bind", s, s.sock.bind)
        if ok:
            s.mark_bound()
        return ok

    def connect(self, s, dest):
        ok, _ = self.do("connect", s, s.sock.connect, dest)
        return ok

    def accept(self, s):
        ok, c = self.do("accept", s, s.sock.accept)
        if ok and c is not None:
            return S(self.ctx, s.end, DLC, sock=c, accepted=True)
        return None


# =========================================================================================================
# infrastructure on each end (the peers the roles talk to); its threads are application threads as well
def build_infra(ctx, end):
    llc = ctx.llc(end)
    inf = {}

    def lsock(addr, backlog, name=None, rw=None):
        s = S(ctx, end, DLC)
        if rw:
            s.sock.setsockopt(nfc.llcp.SO_RCVBUF, rw)
        s.sock.bind(name if name else addr)
        s.mark_bound()
        s.sock.listen(backlog)
        return s
    inf["sink"] = lsock(SINK, 8)
    inf["drain"] = lsock(DRAIN, 4, rw=2)
    inf["noacc"] = lsock(NOACC, 8)
    inf["noacc-name"] = lsock(None, 8, name=NA_NAME)
    s = S(ctx, end, LDL)
    s.sock.bind(LDLSINK)
    s.mark_bound()
    inf["ldl"] = s
    if ctx.fr is not None or ctx.ent is not None:
        inf["frsink"] = lsock(FRSINK, 16)
        inf["frnoacc"] = lsock(FRNOACC, 16)
    del llc

    def sink_body(w, name="sink"):
        held = []
        for i in range(64):
            c = w.accept(inf[name])
            if c is None:
                break
            if i % 3 == 2:
                w.do("setsockopt", c, c.sock.setsockopt, nfc.llcp.SO_RCVBSY, True)
            held.append(c)

    def drain_conn(c):
        def body(w):
            for _ in range(5000):
                ok, v = w.do("recv", c, c.sock.recv)
                if not ok or v is None:
                    break
            w.do("close", c, c.sock.close)
        return body

    def drain_body(w):
        for _ in range(260):
            c = w.accept(inf["drain"])
            if c is None:
                break
            Worker(ctx, end, "drain-conn", drain_conn(c), 1).start()

    def ldl_body(w):
        for _ in range(5000):
            ok, v = w.do("recvfrom", inf["ldl"], inf["ldl"].sock.recvfrom)
            if not ok or v == (None, None):
                break
    out = [Worker(ctx, end, "sink", sink_body, 1), Worker(ctx, end, "drain", drain_body, 1),
           Worker(ctx, end, "ldl-sink", ldl_body, 1)]
    if ctx.fr is not None or ctx.ent is not None:
        out.append(Worker(ctx, end, "fr-sink", lambda w: sink_body(w, "frsink"), 1))
    return out


# =========================================================================================================
# roles
PAY = bytes(range(48, 48 + 60))


def _connected(w, dest):
    s = w.new_sock(DLC)
    if s is None or not w.bind(s) or not w.connect(s, dest):
        return None
    return s


def r_recv(w):
    s = _connected(w, SINK)
    if s:
        w.do("recv", s, s.sock.recv)


def r_accept(w):
    s = w.new_sock(DLC)
    if s and w.bind(s) and w.do("listen", s, s.sock.listen, 1)[0]:
        w.do("accept", s, s.sock.accept)


def r_connect_sap(w):
    _connected(w, NOACC)


def r_connect_name(w):
    _connected(w, NA_NAME)


def r_resolve_hole(w):
    s = w.new_sock(DLC)
    if s:
        w.do("resolve", s, s.sock.resolve, HOLE + b"-" + w.end.encode())


def r_resolve_loop(w):
    s = w.new_sock(LDL)
    for i in range(150 if s else 0):
        ok, v = w.do("resolve", s, s.sock.resolve, b"urn:nfc:sn:vf-r%d" % i)
        if not ok or v is None:
            break


def r_send_window(w):
    s = _connected(w, SINK)
    for _ in range(3 if s else 0):
        ok, v = w.do("send", s, s.sock.send, PAY)
        if not ok or v is not True:
            break


def r_sendto_loop(w):
    s = w.new_sock(LDL)
    if s and w.bind(s):
        for _ in range(400):
            ok, v = w.do("sendto", s, s.sock.sendto, PAY, LDLSINK)
            if not ok or v is not True:
                break


def r_recvfrom(w):
    s = w.new_sock(LDL)
    if s and w.bind(s):
        w.do("recvfrom", s, s.sock.recvfrom)


def r_poll_recv(w):
    s = _connected(w, SINK)
    if s:
        w.do("poll-recv", s, s.sock.poll, "recv")


def r_poll_recv_t(w):
    s = _connected(w, SINK)
    for _ in range(80 if s else 0):
        ok, v = w.do("poll-recv-t", s, s.sock.poll, "recv", 0.01)
        if not ok or v is not False:
            break


def r_poll_send_loop(w):
    s = w.new_sock(LDL)
    if s and w.bind(s):
        for i in range(300):
            ok, v = w.do("sendto-nb", s, s.sock.sendto, PAY, LDLSINK, nfc.llcp.MSG_DONTWAIT)
            if not ok or v is not True:
                break
            if i % 2:
                ok, v = w.do("poll-send", s, s.sock.poll, "send")
            else:
                ok, v = w.do("poll-send-t", s, s.sock.poll, "send", 0.02)
            if not ok:
                break


def r_poll_acks(w):
    s = _connected(w, SINK)
    if s:
        w.do("poll-acks", s, s.sock.poll, "acks")


def r_poll_acks_t(w):
    s = _connected(w, SINK)
    for _ in range(80 if s else 0):
        ok, v = w.do("poll-acks-t", s, s.sock.poll, "acks", 0.01)
        if not ok:
            break


def r_close_loop(w):
    for _ in range(200):
        s = _connected(w, DRAIN)
        if s is None:
            break
        ok, v = w.do("send", s, s.sock.send, PAY)
        ok2, _ = w.do("close", s, s.sock.close)
        if not (ok and v is True and ok2):
            break


def r_stream(w):
    s = _connected(w, DRAIN)
    for i in range(3000 if s else 0):
        ok, v = w.do("send", s, s.sock.send, PAY)
        if not ok or v is not True:
            break
        if i % 4 == 3 and not w.do("poll-acks-t", s, s.sock.poll, "acks", 0.01)[0]:
            break


def r_snep_idle(w):
    s = _connected(w, b"urn:nfc:sn:snep")
    if s:
        w.do("recv", s, s.sock.recv)


def r_snep_frag(w):
    s = _connected(w, b"urn:nfc:sn:snep")
    if s:
        ok, v = w.do("send", s, s.sock.send, b"\x10\x02" + (1000).to_bytes(4, "big") + bytes(50))
        if ok and v is True:
            ok, v = w.do("recv", s, s.sock.recv)          # Continue
            if ok and v is not None:
                w.do("recv", s, s.sock.recv)              # server now waits for more fragments in recv()


def r_ho_frag(w):
    s = _connected(w, b"urn:nfc:sn:handover")
    if s:
        # first bytes of a handover request message: NDEF record header announcing more than is sent
        ok, v = w.do("send", s, s.sock.send, b"\x91\x02\x20Hr\x12")
        if ok and v is True:
            w.do("recv", s, s.sock.recv)


def r_raw_recv(w):
    s = w.new_sock(RAW)
    if s and w.bind(s):
        w.do("raw-recv", s, s.sock.recv)


def shared_body(variant):
    """2 or 3 threads (this one and helpers it starts) wait in calls on the same socket"""
    kinds = variant.split("+")

    def body(w):
        ctx = w.ctx
        if kinds[0] in ("recv", "poll-recv", "send", "poll-acks"):
            s = _connected(w, SINK)
            if s is None:
                return
            if "send" in kinds:                  # RW(remote) is 1 and the peer never reads: further sends block
                ok, v = w.do("send", s, s.sock.send, PAY)
                if not (ok and v is True):
                    return
        elif kinds[0] == "accept":
            s = w.new_sock(DLC)
            if not (s and w.bind(s) and w.do("listen", s, s.sock.listen, 1)[0]):
                return
        else:
            s = w.new_sock(LDL if kinds[0] == "recvfrom" else RAW)
            if not (s and w.bind(s)):
                return
        k = s.sock
        calls = {"recv": k.recv, "poll-recv": lambda: k.poll("recv"), "send": lambda: k.send(PAY),
                 "poll-acks": lambda: k.poll("acks"), "accept": k.accept, "recvfrom": k.recvfrom, "raw-recv": k.recv}
        s.shared = True
        helpers = [Worker(ctx, w.end, "shared-%s#%d" % (variant, i + 1), lambda h, c=c: h.do(c, s, calls[c]), 1)
                   for i, c in enumerate(kinds[1:])]
        ctx.shared.append({"variant": variant, "end": w.end, "threads": [w] + helpers})
        for h in helpers:
            h.start()
        w.do(kinds[0], s, calls[kinds[0]])
    return body


def r_unencodable(w):
    """the application thread that, at exchange k, hands the link loop a PDU that cannot be encoded"""
    ctx, d = w.ctx, w.ctx.desc
    how = d["how"]
    if how in ("sendto", "sendto-nb"):
        s = w.new_sock(LDL)
        if not (s and w.bind(s)):
            return
    elif how.startswith("raw-"):
        s = w.new_sock(RAW)
        if not (s and w.bind(s)):
            return
    elif how == "resolve":
        s = w.new_sock(LDL)
    else:
        s = w.new_sock(DLC)
        if not (s and w.bind(s)):
            return
    if s is None:
        return
    ctx.fire.wait()                       # set by the MAC hook at exchange k (or after the link loops ended)

    def call(kind, fn, *a):
        def marked():
            ctx.unenc_rec = w.cur
            try:
                return fn(*a)
            except ARG_ERRORS as e:                   # argument error reported to the caller that made the bad call
                ctx.unenc_rejected = exc_sig(e)
                ctx.arg_errors.append((kind, type(e).__name__))
                return "rejected"
        ok, val = w.do(kind, s, marked)
        if (not ok or ctx.unenc_rejected) and ctx.term[w.end] is None and ctx.ended[w.end] is None:
            ctx.unenc_refusal = ctx.unenc_rejected or (w.log[-1][4] if w.log else "?")
            unenc_fallback(ctx)                       # refused on a live link: end the link by local choice
    dest = BAD_TYPE_SAP if d["cause"] == "unencodable-type" else BAD_SAP
    if how == "sendto":
        call("sendto", s.sock.sendto, b"hello", dest)
    elif how == "sendto-nb":
        call("sendto-nb", s.sock.sendto, b"hello", dest, nfc.llcp.MSG_DONTWAIT)
    elif how == "resolve":
        call("resolve", s.sock.resolve, LONG_NAME)
    elif how.startswith("raw-"):
        call("raw-send", s.sock.send, unencodable_pdu(how), nfc.llcp.MSG_DONTWAIT if how.endswith("-nb") else 0)
    else:
        call("connect", s.sock.connect, LONG_NAME)


def unencodable_pdu(how):
    """PDU objects a raw access point accepts and pdu.encode() cannot encode"""
    if how.startswith("raw-ui"):
        return P.UnnumberedInformation(BAD_TYPE_SAP, 1, data=b"x")         # TypeError in encode_header()
    return P.FrameReject(16, 32, flags=99)                                  # struct.error in encode()


def unenc_fallback(ctx):
    if not ctx.unenc_fallback and ctx.local_term is not None:
        ctx.unenc_fallback = True
        ctx.local_term(ctx.desc["end"])


def unenc_guard(ctx):
    """harness thread: if the link is still up some time after the call (the stack dropped the PDU or refused the
    call), the case goes on with a local terminate request; decides which cause is exercised, never a verdict"""
    end = ctx.desc["end"]
    ctx.fire.wait()
    for _ in range(400):
        if ctx.term[end] is not None or ctx.ended[end] is not None:
            return
        _real_time.sleep(0.005)
    unenc_fallback(ctx)


# ---- frame-reject cases: victims (blocked call on a connection that suffers the event) and the hostile peer ------
def fr_victim(kind, event):
    sx = event in FR_SX_EVENTS
    ckind = FR_CALL_KIND.get(kind, kind)

    def body(w):
        st = w.fr
        ctx = w.ctx
        try:
            s = w.new_sock(DLC)
            if kind == "accept":
                if not (s and w.bind(s) and w.do("listen", s, s.sock.listen, 2)[0]):
                    return
                call = s.sock.accept
            elif kind == "connect":
                if not (s and w.bind(s)):
                    return
                call = lambda: s.sock.connect(FRNOACC)                       # noqa: E731
            else:
                if not (s and w.bind(s) and w.connect(s, FRSINK)):
                    return
                if kind == "send":               # RW(remote) is 1 and the peer never reads: the next send() blocks
                    ok, v = w.do("send", s, s.sock.send, PAY)
                    if not (ok and v is True):
                        return
                elif kind == "poll-send" and not sx:     # waits until the link loop has taken the I PDU (short)
                    if not w.do("send-nb", s, s.sock.send, PAY, nfc.llcp.MSG_DONTWAIT)[0]:
                        return
                call = {"recv": s.sock.recv, "poll-recv": lambda: s.sock.poll("recv"),
                        "poll-acks": lambda: s.sock.poll("acks"), "send": lambda: s.sock.send(PAY),
                        "sendq": lambda: s.sock.send(PAY), "poll-send": lambda: s.sock.poll("send")}[kind]
            ok, addr = w.do("getsockname", s, s.sock.getsockname)
            if not ok or addr is None:
                return
            st["sock"], st["addr"] = s, addr
            st["state"] = "armed"
            if sx:
                # the call is made when the link loop of this end is about to dispatch the peer's PDU (or, should
                # that never happen, when the link has ended / after the guard: then the case is not counted)
                for _ in range(400):
                    if st["go"].wait(0.02) or ctx.term[w.end] is not None or ctx.ended[w.end] is not None:
                        break
                if kind == "poll-send":          # the I PDU is queued, not collected: poll('send') waits for it
                    if not w.do("send-nb", s, s.sock.send, PAY, nfc.llcp.MSG_DONTWAIT)[0]:
                        return
                st["issued"] = True
            w.do(ckind, s, call)                 # the call that is blocked when the event arrives
            w.do(ckind, s, call)                 # once more on the same socket (rejected, or the link has ended)
        finally:
            if st["state"] == "init":
                st["state"] = "skip"
    return body


def fr_pdu(kind, event, addr):
    ssap = FRNOACC if kind == "connect" else (3 if kind == "accept" else FRSINK)
    if event in ("frmr-received", "frmr-sx"):
        return P.FrameReject(addr, ssap, flags=1, ptype=0b1100)
    if event == "frmr-sent-ns":
        return P.Information(addr, ssap, ns=5, nr=0, data=b"vf-out-of-sequence")
    if event == "frmr-sent-miu":
        return P.Information(addr, ssap, ns=0, nr=0, data=bytes(150))       # receive MIU of the socket is 128
    if event == "ui-on-dlc":
        return P.UnnumberedInformation(addr, ssap, data=b"vf-ui-on-connection")
    if event == "unknown-on-dlc":
        return P.UnknownProtocolDataUnit(0b1011, addr, ssap, b"vf-reserved-pdu-type")
    if event in ("dm-on-dlc", "dm-sx"):
        return P.DisconnectedMode(addr, ssap, reason=0)
    if event in ("disc-received", "disc-sx"):
        return P.Disconnect(addr, ssap)
    return P.ConnectionComplete(addr, ssap, miu=128, rw=1)


def fr_injector(w):
    """the hostile peer: a RAW access point of this end sends the frame-reject events to the victims of the other
    end once they are seen waiting inside nfc; all waits are bounded and only select what is exercised"""
    ctx = w.ctx
    victims = [v for v in ctx.fr_workers if v.end == w.peer]

    def link_up():
        return all(ctx.term[e] is None and ctx.ended[e] is None for e in "AB")
    try:
        s = w.new_sock(RAW)
        if not (s and w.bind(s)):
            return
        pend, done = list(victims), []

        def inject(v, blocked):
            st = v.fr
            st["blocked"], st["rec"] = blocked, v.cur
            if st["sx"]:                         # the link loop of the victim's end will be held in front of this PDU
                st["rec"] = None
                ctx.fr_sx[(v.end, st["addr"])] = v
            ok, val = w.do("raw-send", s, s.sock.send, fr_pdu(st["kind"], st["event"], st["addr"]),
                           nfc.llcp.MSG_DONTWAIT)
            if ok:
                st["injected"] = next(ctx.ticks)
                st["xn"] = ctx.xn
                v.fr_event = st["event"]
                done.append(v)
        t_end = _real_time.time() + 4.0
        while pend and link_up() and _real_time.time() < t_end:
            frames = sys._current_frames()
            for v in list(pend):
                st = v.fr
                if st["state"] == "skip" or not v.is_alive():
                    pend.remove(v)
                    continue
                cur = v.cur
                if st["state"] != "armed":
                    continue
                if st["sx"]:
                    pend.remove(v)
                    inject(v, False)
                    continue
                in_call = cur is not None and cur[0] == st["kind"]
                info = watch.classify(frames[v.ident]) if v.ident in frames else None
                waits = in_call and info is not None and info.kind == "cond-wait" and info.in_nfc
                if waits or st["kind"] == "poll-send":       # poll('send') waits for one dequeue only: best effort
                    pend.remove(v)
                    inject(v, waits)
            del frames
            _real_time.sleep(0.003)
        for v in pend:
            if v.fr["state"] == "armed" and v.is_alive() and link_up():
                inject(v, False)
        # the events have taken effect: the victim came back, its socket is shut down, or (events the stack
        # ignores) the PDU left this end six exchanges ago
        t_end = _real_time.time() + 3.0
        raw = s.sock._tco
        while done and link_up() and _real_time.time() < t_end:
            for v in list(done):
                st = v.fr
                rec = st["rec"]
                if st["sx"]:                     # effect and timing are recorded by the dispatch hook
                    if st.get("sx_done") or not v.is_alive():
                        done.remove(v)
                    continue
                if st["blocked"] and rec is not None and rec[3] is not None:
                    st["effect"] = "returned"
                elif st["sock"].sock._tco.state.SHUTDOWN:
                    st["effect"] = "shutdown"
                elif len(raw.send_queue) == 0 and ctx.xn >= st["xn"] + 6:
                    st["effect"] = "delivered"
                else:
                    continue
                st["effect_before_term"] = ctx.term[v.end] is None
                done.remove(v)
            _real_time.sleep(0.003)
    finally:
        with ctx.fr_lock:
            ctx.fr_pending -= 1
            if ctx.fr_pending <= 0:
                # now the ordinary roles: nfcpy's collect() serves the lowest SAP with a PDU first, their traffic
                # would hold back the CC / FRMR PDUs of the victims' connections for thousands of exchanges
                stag = ctx.desc.get("stagger", 0)
                for i, r in enumerate(ctx.fr_deferred):
                    r.start()
                    if stag and i % stag == 0:
                        _real_time.sleep(0.0005)
                ctx.fr_ready_at = ctx.xn
                ctx.fr_done.set()


def make_fr_hook(ctx):
    """same-exchange victims: hold the link loop of the victim's end at the first statement of dispatch(PDU) for the
    hostile DISC / DM / FRMR until the victim has issued its call and is seen inside its wait (or has come back);
    bounded (1.5 s), selects what is exercised, decides no verdict.  The link loop holds no lock there."""
    sx, loops = ctx.fr_sx, ctx.ent_loops
    first = {}

    def hook(code, line, t):
        if code.co_name != "dispatch" or not sx:
            return
        fl = first.get(code)
        if fl is None:
            fl = first[code] = min([ln for _, _, ln in code.co_lines() if ln and ln > code.co_firstlineno] or [0])
        end = loops.get(t)
        if line != fl or end is None or not code.co_filename.endswith("/nfc/llcp/llc.py"):
            return
        f = sys._getframe(2)
        p = f.f_locals.get("rcvd_pdu") if f.f_code is code else None
        del f
        if p is None or getattr(p, "name", None) not in ("DISC", "DM", "FRMR"):
            return
        v = sx.get((end, getattr(p, "dsap", None)))
        if v is None or p.ssap != FRSINK or v.fr.get("sx_done"):
            return
        st = v.fr
        ckind = FR_CALL_KIND.get(st["kind"], st["kind"])
        st["go"].set()
        blocked, rec = False, None
        for _ in range(3000):
            cur = v.cur
            if cur is not None and cur[0] == ckind and st.get("issued"):
                fr = sys._current_frames().get(v.ident)
                info = watch.classify(fr) if fr is not None else None
                del fr
                if info is not None and info.kind == "cond-wait" and info.in_nfc:
                    blocked, rec = True, cur
                    break
            elif st.get("issued") and cur is None and not v.is_alive():
                break
            if not v.is_alive():
                break
            _real_time.sleep(0.0005)
        st["blocked"], st["rec"] = blocked, rec
        st["effect"] = "delivered"
        st["effect_before_term"] = ctx.term[end] is None and ctx.ended[end] is None
        st["sx_done"] = True
        ctx.fr_sx_held += 1
    return hook


# ---- entering cases: stand-ins for locks / conditions, entrants, racers ------------------------------------------
class EntGate(object):
    """Harness-side stand-in for a lock or Condition attribute of a socket / of the link controller.  Every operation
    goes to the real object.  In addition, for the thread of an entrant whose call is in progress, the outermost
    acquisitions (the thread holds none of the gated locks) are counted and the p-th one is held back until the link
    loop of the entrant's end has ended - the thread is 'preempted right before it takes the lock'.  Nothing here
    decides a verdict; the guard time-out only means that the case was not exercised as planned (counted)."""

    def __init__(self, real, ctx):
        self._real, self._ctx = real, ctx

    def _arrive(self):
        st = self._ctx.ent_threads.get(threading.get_ident())
        if st is None:
            return None
        if st["depth"] == 0 and st["armed"] and st["mode"] == "park":
            st["n"] += 1
            if st["n"] == st["p"]:
                self._park(st)
        st["depth"] += 1
        return st

    def _park(self, st):
        f = sys._getframe(2)
        while f is not None and not watch.is_nfc_file(f.f_code.co_filename):
            f = f.f_back
        where = "%s:%s" % (watch.short_file(f.f_code.co_filename), f.f_code.co_name) if f else "?"
        del f
        ent_park(self._ctx, st, where)

    def acquire(self, *a, **kw):
        st = self._arrive()
        r = self._real.acquire(*a, **kw)
        if st is not None and not r:
            st["depth"] -= 1
        return r

    def release(self):
        st = self._ctx.ent_threads.get(threading.get_ident())
        if st is not None:
            st["depth"] -= 1
        return self._real.release()

    def __enter__(self):
        self._arrive()
        return self._real.__enter__()

    def __exit__(self, *a):
        st = self._ctx.ent_threads.get(threading.get_ident())
        if st is not None:
            st["depth"] -= 1
        return self._real.__exit__(*a)

    def __getattr__(self, name):             # wait / notify / notify_all / _is_owned ...: the real object
        return getattr(self._real, name)


def ent_park(ctx, st, where):
    """the calling entrant thread stays here until the link loop of its end has ended (guard: 60 s)"""
    end = st["end"]
    st["where"] = where
    st["parked_before_term"] = ctx.term[end] is None and ctx.ended[end] is None
    st["parked"] = next(ctx.ticks)
    st["state"] = "parked"
    ev = ctx.ent_release[end]
    for _ in range(1200):
        if ev.wait(0.05):
            break
    else:
        st["timeout"] = True
    st["released_after_end"] = ctx.ended[end] is not None
    st["state"] = "released"


def ent_gate_obj(ctx, obj, names):
    for name in names:
        real = getattr(obj, name, None)
        if real is not None and not isinstance(real, EntGate):
            setattr(obj, name, EntGate(real, ctx))


def ent_gate_llc(ctx, llc):
    """the link controller's lock (bind, accept, close take it first) and the condition resolve() waits on"""
    ent_gate_obj(ctx, llc, ("lock",))
    if llc.sap[1] is not None:
        ent_gate_obj(ctx, llc.sap[1], ("resp",))


def ent_setup(w, variant):
    """the socket an entrant / racer works on and the call under test -> (kind, S, thunk) or None"""
    ctx = w.ctx

    def link_up():
        return ctx.term[w.end] is None and ctx.ended[w.end] is None
    kind = ENT_KIND.get(variant, variant)
    if variant in ("recv", "send", "poll-recv", "poll-send", "poll-acks", "close"):
        s = _connected(w, FRSINK)
        if s is None:
            return None
        if variant == "send":                # RW(remote) is 1 and the peer never reads: the next send() blocks
            ok, v = w.do("send", s, s.sock.send, PAY)
            if not (ok and v is True):
                return None
        k = s.sock
        call = {"recv": k.recv, "send": lambda: k.send(PAY), "poll-recv": lambda: k.poll("recv"),
                "poll-send": lambda: k.poll("send"), "poll-acks": lambda: k.poll("acks"), "close": k.close}[variant]
        return kind, s, call
    if variant in ("accept", "accept-pending"):
        s = w.new_sock(DLC)
        name = b"urn:nfc:sn:vf-ent-%d" % w.ent["idx"]
        if not (s and w.bind(s, name) and w.do("listen", s, s.sock.listen, 2)[0]):
            return None
        if variant == "accept-pending":      # a CONNECT is queued before accept() is called
            ok, addr = w.do("getsockname", s, s.sock.getsockname)
            if not ok or addr is None:
                return None
            Worker(ctx, w.peer, "ent-conn", lambda c: _connected(c, addr), 1).start()
            t_end = _real_time.time() + 5.0
            while len(s.sock._tco.recv_queue) == 0:
                if not link_up() or _real_time.time() > t_end:
                    return None
                _real_time.sleep(0.002)
        return kind, s, s.sock.accept
    if variant in ("connect", "connect-name"):
        s = w.new_sock(DLC)                  # unbound: connect() binds it first (link controller lock)
        dest = FRNOACC if variant == "connect" else NA_NAME
        return (kind, s, lambda: s.sock.connect(dest)) if s else None
    if variant == "recvfrom":
        s = w.new_sock(LDL)
        if not (s and w.bind(s, b"urn:nfc:sn:vf-ent-%d" % w.ent["idx"])):
            return None
        return kind, s, s.sock.recvfrom
    if variant == "sendto":
        s = w.new_sock(LDL)                  # unbound: sendto() binds it first
        return (kind, s, lambda: s.sock.sendto(PAY, LDLSINK)) if s else None
    if variant == "ldl-poll-recv":
        s = w.new_sock(LDL)
        if not (s and w.bind(s)):
            return None
        return kind, s, lambda: s.sock.poll("recv")
    if variant == "resolve":
        s = w.new_sock(LDL)
        name = HOLE + b"-ent%d-" % w.ent["idx"] + w.end.encode()
        return (kind, s, lambda: s.sock.resolve(name)) if s else None
    if variant == "raw-recv":
        s = w.new_sock(RAW)
        if not (s and w.bind(s, next(ctx.ent_rawaddr[w.end]))):
            return None
        return kind, s, s.sock.recv
    raise ValueError(variant)


def ent_body(w):
    """entrant: the call is held at its p-th outermost lock acquisition (mode park) or at the p-th statement in
    nfc/llcp that it executes while it holds none of the gated locks (mode stmt) until the link loop has ended;
    racer: the call starts when terminate() reaches the MAC (mode race-early) / begins to shut the service access
    points down (mode race), plus p microseconds"""
    ctx, st = w.ctx, w.ent
    try:
        got = ent_setup(w, st["variant"])
        if got is None:
            return
        kind, s, call = got
        st["kind"] = kind
        ent_gate_obj(ctx, s.sock._tco, ("lock", "send_ready", "recv_ready", "acks_ready", "send_token"))
        if st["mode"] in ("race", "race-early"):
            ctx.ent_hot.add(threading.get_ident())
            st["state"] = "ready"
            ev = ctx.ent_go[w.end] if st["mode"] == "race-early" else ctx.ent_sweep[w.end]
            for _ in range(1200):
                if ev.wait(0.05) or ctx.ended[w.end] is not None:
                    break
            t_go = _real_time.perf_counter() + st["p"] * 1e-6
            while _real_time.perf_counter() < t_go:
                pass
        st["rec_index"] = len(w.log)
        ctx.ent_threads[threading.get_ident()] = st
        st["armed"] = st["mode"] in ("park", "stmt")
        if st["armed"]:
            st["state"] = "armed"
        try:
            w.do(kind, s, call)
        finally:
            st["armed"] = False
            ctx.ent_threads.pop(threading.get_ident(), None)
        st["state"] = "done"
        w.do(kind, s, call)                  # once more on the same socket
    finally:
        if st["state"] in ("init", "ready"):
            st["state"] = "skip"


def ent_monitor(ctx):
    """harness thread: the end of the link becomes due once every entrant is parked, has come back, or waits inside
    its call (it has passed its last acquisition); bounded, selects what is exercised, decides no verdict"""
    def link_up():
        return all(ctx.term[e] is None and ctx.ended[e] is None for e in "AB")
    try:
        t_end = _real_time.time() + 8.0
        while link_up() and _real_time.time() < t_end:
            frames = None
            pending = 0
            for w in ctx.ent_workers:
                state = w.ent["state"]
                if state in ("parked", "released", "done", "skip", "ready") or not w.is_alive():
                    continue
                if state == "armed":
                    if frames is None:
                        frames = sys._current_frames()
                    info = watch.classify(frames[w.ident]) if w.ident in frames else None
                    if info is not None and info.kind == "cond-wait" and info.in_nfc:
                        continue
                pending += 1
            del frames
            if not pending:
                break
            _real_time.sleep(0.004)
    finally:
        ctx.ent_ready_at = ctx.xn
        ctx.ent_done.set()


def make_ent_hook(ctx):
    """statistical part: yields at statement starts of nfc/llcp/tco.py and llc.py, in the racers and the link loops
    only, from the moment the cause is injected until both link loops have ended (the first statement of a SAP
    shutdown in a link loop starts the racers of that end).  A racer is put to sleep for
    0.3 .. 4 ms (long enough for a link loop to run the complete terminate() meanwhile) with probability race_p per
    statement, a link loop yields the processor with a tenth of that probability."""
    p = float(ctx.desc.get("race_p", 0.2))
    rng = random.Random(ctx.desc["yield_seed"] ^ 0x5EED)
    hot, trig, ended, loops = ctx.ent_hot, ctx.ent_trig, ctx.ended, ctx.ent_loops
    naps = (0.0005, 0.002, 0.005, 0.01, 0.02)
    match = {}

    threads = ctx.ent_threads

    def hook(code, line, t):
        st = threads.get(t)
        if st is not None and st["depth"] == 0 and st["armed"] and st["mode"] == "stmt":
            st["n"] += 1                 # statement of nfc/llcp executed outside every critical section
            if st["n"] == st["p"]:
                ent_park(ctx, st, "%s:%s" % (watch.short_file(code.co_filename), code.co_name))
            return
        if t not in hot or not trig.is_set() or (ended["A"] is not None and ended["B"] is not None):
            return
        m = match.get(code)
        if m is None:
            m = match[code] = code.co_filename.endswith(("/nfc/llcp/tco.py", "/nfc/llcp/llc.py"))
        if m:
            r = rng.random()
            e = loops.get(t)
            if e is not None:
                if code.co_name == "shutdown":
                    ctx.ent_sweep[e].set()
                if r < p * 0.1:
                    _real_time.sleep(0)
            elif r < p:
                ctx.ent_yields += 1
                _real_time.sleep(naps[int(r / p * len(naps)) % len(naps)])
    return hook


ROLES = {
    "recv": r_recv, "accept": r_accept, "connect-sap": r_connect_sap, "connect-name": r_connect_name,
    "resolve-hole": r_resolve_hole, "resolve-loop": r_resolve_loop, "send-window": r_send_window,
    "sendto-loop": r_sendto_loop, "recvfrom": r_recvfrom, "poll-recv": r_poll_recv, "poll-recv-t": r_poll_recv_t,
    "poll-send-loop": r_poll_send_loop, "poll-acks": r_poll_acks, "poll-acks-t": r_poll_acks_t,
    "close-loop": r_close_loop, "stream": r_stream, "snep-idle": r_snep_idle, "snep-frag": r_snep_frag,
    "ho-frag": r_ho_frag, "raw-recv": r_raw_recv,
}
ROLE_NAMES = sorted(ROLES)

# threads that can be parked at the n-th statement (nfc/llcp code) of a call: role threads / infrastructure threads
# (counted from the entry of the occ-th call of that kind) and service threads (by name, counted from their start)
HOLD_TARGETS = [
    {"role": "recv", "kind": "recv", "nmax": 14}, {"role": "accept", "kind": "accept", "nmax": 16},
    {"role": "connect-sap", "kind": "connect", "nmax": 30}, {"role": "connect-name", "kind": "connect", "nmax": 30},
    {"role": "resolve-hole", "kind": "resolve", "nmax": 14}, {"role": "send-window", "kind": "send", "occ": 2, "nmax": 18},
    {"role": "send-window", "kind": "send", "occ": 1, "nmax": 24}, {"role": "recvfrom", "kind": "recvfrom", "nmax": 14},
    {"role": "poll-recv", "kind": "poll-recv", "nmax": 16}, {"role": "poll-acks", "kind": "poll-acks", "nmax": 14},
    {"role": "raw-recv", "kind": "raw-recv", "nmax": 12}, {"role": "sendto-loop", "kind": "sendto", "occ": 3, "nmax": 20},
    {"role": "poll-send-loop", "kind": "poll-send", "occ": 1, "nmax": 14},
    {"role": "close-loop", "kind": "close", "occ": 2, "nmax": 30},
    {"role": "close-loop", "kind": "connect", "occ": 2, "nmax": 30},
    {"role": "snep-idle", "kind": "recv", "nmax": 14}, {"role": "snep-frag", "kind": "recv", "occ": 2, "nmax": 14},
    {"role": "ho-frag", "kind": "recv", "nmax": 14}, {"role": "stream", "kind": "send", "occ": 5, "nmax": 24},
    {"role": "sink", "kind": "accept", "occ": 2, "nmax": 24, "peer_roles": ["recv", "poll-recv", "poll-acks"]},
    {"role": "ldl-sink", "kind": "recvfrom", "occ": 2, "nmax": 14, "peer_roles": ["sendto-loop"]},
    {"role": "drain", "kind": "accept", "occ": 1, "nmax": 24},
    {"role": "sink", "kind": "accept", "occ": 2, "fn": "accept", "nmax": 8, "peer_roles": ["recv", "poll-recv", "poll-acks"]},
    {"role": "drain", "kind": "accept", "occ": 1, "fn": "accept", "nmax": 8, "peer_roles": ["stream", "close-loop"]},
    {"role": "drain-conn", "kind": "recv", "occ": 3, "nmax": 14, "peer_roles": ["stream"]},
    {"frag": "urn:nfc:sn:snep", "nmax": 40, "peer_roles": ["snep-idle"]},
    {"frag": "urn:nfc:sn:handover", "nmax": 40, "peer_roles": ["ho-frag"]},
    {"frag": "(_serve)", "nmax": 60, "peer_roles": ["snep-idle", "snep-frag"]},
    {"frag": "(serve)", "nmax": 60, "peer_roles": ["ho-frag"]},
]


# =========================================================================================================
# calls issued after the termination
def bad_arg(ctx, kind, fn, *a):
    """thunk for a call with a deliberately invalid argument: TypeError / ValueError / struct.error raised to the caller
    that made the bad call is an argument error, not an outcome of the end of the link (the same allowance as for the
    call that hands the link loop an unencodable PDU); counted"""
    def thunk():
        try:
            return fn(*a)
        except ARG_ERRORS as e:
            ctx.arg_errors.append((kind, type(e).__name__))
            return "rejected"
    return thunk


def old_sequence(ctx, s):
    """[(kind, thunk)] for one socket that existed before the link ended; close comes last, then three more"""
    k = s.sock
    if s.stype == DLC:
        seq = [("getsockopt", lambda: k.getsockopt(nfc.llcp.SO_RCVMIU)), ("getsockname", k.getsockname),
               ("getpeername", k.getpeername),
               ("poll-recv", lambda: k.poll("recv")), ("poll-send", lambda: k.poll("send")),
               ("poll-acks", lambda: k.poll("acks")), ("poll-recv-t", lambda: k.poll("recv", 0.01)),
               ("recv", k.recv), ("send", lambda: k.send(PAY)), ("connect", lambda: k.connect(NOACC)),
               ("accept", k.accept), ("listen", lambda: k.listen(1)), ("bind", k.bind),
               ("resolve", lambda: k.resolve(NA_NAME))]
        tail = [("close", k.close), ("recv", k.recv), ("send", lambda: k.send(PAY)),
                ("poll-recv", lambda: k.poll("recv"))]
    elif s.stype == LDL:
        seq = [("getsockname", k.getsockname), ("poll-recv", lambda: k.poll("recv")),
               ("poll-send", lambda: k.poll("send")), ("poll-recv-t", lambda: k.poll("recv", 0.01)),
               ("recvfrom", k.recvfrom), ("sendto", lambda: k.sendto(PAY, LDLSINK)),
               ("sendto-nb", lambda: k.sendto(PAY, LDLSINK, nfc.llcp.MSG_DONTWAIT)),
               ("sendto-nb", bad_arg(ctx, "sendto-nb", k.sendto, b"hello", BAD_SAP, nfc.llcp.MSG_DONTWAIT)),
               ("sendto-nb", bad_arg(ctx, "sendto-nb", k.sendto, b"hello", BAD_TYPE_SAP, nfc.llcp.MSG_DONTWAIT)),
               ("connect", lambda: k.connect(LDLSINK)), ("bind", k.bind), ("resolve", lambda: k.resolve(NA_NAME)),
               ("resolve", bad_arg(ctx, "resolve", k.resolve, LONG_NAME))]
        tail = [("close", k.close), ("recvfrom", k.recvfrom), ("sendto", lambda: k.sendto(PAY, LDLSINK))]
    else:
        seq = [("poll-recv", lambda: k.poll("recv")), ("raw-recv", k.recv),
               ("raw-send", lambda: k.send(P.UnnumberedInformation(LDLSINK, 33, PAY))), ("bind", k.bind),
               ("raw-send", bad_arg(ctx, "raw-send", k.send, unencodable_pdu("raw-ui"), nfc.llcp.MSG_DONTWAIT)),
               ("raw-send", bad_arg(ctx, "raw-send", k.send, unencodable_pdu("raw-frmr")))]
        tail = [("close", k.close), ("raw-recv", k.recv)]
    ctx.order.shuffle(seq)
    return seq + tail


def old_body(s, seq):
    def body(w):
        while w.pos < len(seq):
            kind, fn = seq[w.pos]
            w.pos += 1
            w.do(kind, s, fn)
    return body


def new_scenarios(end):
    """[(name, body)]: each works on sockets created after the termination; one thread each"""
    def n_connect(w):
        s = w.new_sock(DLC)
        s and w.connect(s, NOACC)

    def n_connect_name(w):
        s = w.new_sock(DLC)
        s and w.connect(s, NA_NAME)

    def n_bind_connect(w):
        s = w.new_sock(DLC)
        if s:
            w.bind(s)
            w.connect(s, SINK)

    # a refused bind() / listen() does not end a scenario: the blocking call is issued all the same (it has to come
    # back whatever the state of the socket is)
    def n_accept(w):
        s = w.new_sock(DLC)
        if s:
            w.bind(s)
            w.do("listen", s, s.sock.listen, 1)
            w.do("accept", s, s.sock.accept)

    def n_accept_name(w):
        s = w.new_sock(DLC)
        if s:
            w.bind(s, LATE_NAME)
            w.do("listen", s, s.sock.listen, 2)
            w.do("accept", s, s.sock.accept)

    def n_dlc_misc(w):
        s = w.new_sock(DLC)
        if s:
            w.do("send", s, s.sock.send, PAY)
            w.do("recv", s, s.sock.recv)
            w.do("poll-recv", s, s.sock.poll, "recv")
            w.bind(s)
            w.do("recv", s, s.sock.recv)
            w.do("poll-recv", s, s.sock.poll, "recv")
            w.do("poll-send", s, s.sock.poll, "send")
            w.do("poll-acks-t", s, s.sock.poll, "acks", 0.01)
            w.do("getsockname", s, s.sock.getsockname)
            w.do("close", s, s.sock.close)
            w.do("recv", s, s.sock.recv)

    def n_poll_acks(w):
        s = w.new_sock(DLC)
        if s:
            w.bind(s)
            w.do("poll-acks", s, s.sock.poll, "acks")

    def n_sendto(w):
        s = w.new_sock(LDL)
        s and w.do("sendto", s, s.sock.sendto, PAY, LDLSINK)

    def n_unencodable(w):
        ctx = w.ctx
        s = w.new_sock(LDL)
        if s:
            w.do("sendto-nb", s, bad_arg(ctx, "sendto-nb", s.sock.sendto, b"hello", BAD_SAP, nfc.llcp.MSG_DONTWAIT))
            w.do("sendto", s, bad_arg(ctx, "sendto", s.sock.sendto, b"hello", BAD_SAP))
            w.do("sendto", s, bad_arg(ctx, "sendto", s.sock.sendto, b"hello", BAD_TYPE_SAP))
            w.do("resolve", s, bad_arg(ctx, "resolve", s.sock.resolve, LONG_NAME))
        s = w.new_sock(DLC)
        s and w.do("connect", s, bad_arg(ctx, "connect", s.sock.connect, LONG_NAME))
        s = w.new_sock(RAW)
        if s:
            w.do("raw-send", s, bad_arg(ctx, "raw-send", s.sock.send, unencodable_pdu("raw-ui"), nfc.llcp.MSG_DONTWAIT))
            w.do("raw-send", s, bad_arg(ctx, "raw-send", s.sock.send, unencodable_pdu("raw-frmr")))

    def n_sendto_nb_poll(w):
        s = w.new_sock(LDL)
        if s and w.do("sendto-nb", s, s.sock.sendto, PAY, LDLSINK, nfc.llcp.MSG_DONTWAIT)[0]:
            w.do("poll-send-t", s, s.sock.poll, "send", 0.01)
            w.do("poll-send", s, s.sock.poll, "send")

    def n_recvfrom(w):
        s = w.new_sock(LDL)
        if s:
            w.bind(s)
            w.do("recvfrom", s, s.sock.recvfrom)

    def n_ldl_poll(w):
        s = w.new_sock(LDL)
        if s:
            w.bind(s)
            w.do("poll-recv-t", s, s.sock.poll, "recv", 0.01)
            w.do("poll-recv", s, s.sock.poll, "recv")

    def n_raw_recv(w):
        s = w.new_sock(RAW)
        if s:
            w.bind(s)
            w.do("raw-recv", s, s.sock.recv)

    def n_resolve(w):
        s = w.new_sock(DLC)
        s and w.do("resolve", s, s.sock.resolve, NA_NAME)

    def n_close(w):
        for t in (DLC, LDL, RAW):
            s = w.new_sock(t)
            if s:
                w.bind(s)
                w.do("close", s, s.sock.close)
            s = w.new_sock(t)
            s and w.do("close", s, s.sock.close)
    return [("connect", n_connect), ("connect-name", n_connect_name), ("bind-connect", n_bind_connect),
            ("accept", n_accept), ("accept-name", n_accept_name), ("dlc-misc", n_dlc_misc), ("poll-acks", n_poll_acks),
            ("sendto", n_sendto), ("sendto-nb-poll", n_sendto_nb_poll), ("recvfrom", n_recvfrom),
            ("ldl-poll", n_ldl_poll), ("raw-recv", n_raw_recv), ("resolve", n_resolve), ("close", n_close),
            ("unencodable", n_unencodable)]


# =========================================================================================================
# the pair: own run wrapper (what _llcp_connect + connect() do), MAC extensions
class Pair(ThreadedPair):
    ctx = None

    def _run(self, name, llc, mac):
        ctx = self.ctx
        out = "?"
        try:
            if llc.activate(mac):
                llc.run(terminate=(lambda: self.term_a) if name == "A" else (lambda: self.term_b))
                out = "returned"
            else:
                out = "no-activation"
        except SystemExit:
            out = "SystemExit"
        except KeyboardInterrupt:
            out = "KeyboardInterrupt"
        except IOError as e:                 # ContactlessFrontend.connect(): except IOError -> return False
            out = "IOError"
            ctx.run_err[name] = exc_sig(e)
        except BaseException as e:
            out = "escape:" + exc_sig(e)
            ctx.run_err[name] = exc_text(e)[-800:]
            ctx.run_exc[name] = e
        self.run_exc[name] = out
        ctx.by_stack[name] = ctx.term[name] is not None
        ctx.run_out[name] = out
        ctx.gone[name] = True
        ctx.stamp_term(name)                 # no-op when terminate() reached the MAC; else: who waits *now*
        ctx.ended[name] = next(ctx.ticks)
        ctx.ent_release[name].set()


class DeadFrontend:
    """what the real nfc.dep code sees of a ContactlessFrontend whose device is gone"""

    def __init__(self, ctx, end):
        self.ctx, self.end = ctx, end

    def exchange(self, data, timeout):
        self.ctx.stamp_term(self.end)
        raise IOError(errno.ENODEV, "No such device")


def hole_filter(n, data):
    """the peer never answers service name lookups for HOLE names (stripped from the wire)"""
    if HOLE not in data:
        return data
    try:
        p = P.decode(data)
        subs = list(p) if p.name == "AGF" else [p]
        keep = []
        for q in subs:
            if q.name == "SNL":
                q.sdreq = [(tid, name) for tid, name in q.sdreq if HOLE not in bytes(name)]
                if not q.sdreq and not q.sdres:
                    continue
            keep.append(q)
        if not keep:
            return b"\x00\x00"
        if len(keep) == 1:
            return P.encode(keep[0])
        return P.encode(P.AggregatedFrame(0, 0, keep))
    except Exception:
        return data


def make_hold_hook(ctx):
    hold, st = ctx.hold, ctx.hold_state
    n, frag, byname = int(hold["n"]), hold["thread"], hold.get("kind") is None
    fn = hold.get("fn")                  # count only statements of this function of nfc/llcp/llc.py

    def hook(code, line, t):
        if st["done"]:
            return
        if byname:
            ident = st.get("ident")
            if ident is None:
                cur = threading.current_thread()
                if frag not in cur.name or cur in ctx.pre_threads or isinstance(cur, Worker):
                    return
                if hold.get("end") and not any(_created_by(ctx, cur, sv) or cur is sv for sv in ctx.servers
                                               if sv._vf_end == hold["end"]):
                    return
                st["ident"] = ident = t
                st["armed"] = True
            if t != ident:
                return
        elif not st["armed"] or t != st.get("ident"):
            return
        if fn is not None and (code.co_name != fn or not code.co_filename.endswith("llc.py")):
            return
        c = st["n"] = st.get("n", 0) + 1
        if c == n:
            st["done"] = True
            st["held"] = "%s:%s" % (watch.short_file(code.co_filename), code.co_name)
            st["held_before_term"] = ctx.term["A"] is None and ctx.term["B"] is None
            runs = [x for x in (ctx.pair.ta, ctx.pair.tb)]
            last, same = None, 0
            for _ in range(600):
                if ctx.release.wait(0.05):
                    return
                cur = tuple(ctx.env_mon.count(x.ident) for x in runs if x.is_alive())
                same = same + 1 if cur == last else 0
                last = cur
                if cur and same >= 8:
                    st["lock_conflict"] = True       # a link loop waits for a lock this thread holds: resume
                    return
            st["timeout"] = True
    return hook


def wait_frame(q, ctx, pipe, peer, cap=4.0, sent_q=None):
    """Logical time-out of the simulated MAC: the exchange "times out" when the peer is really silent (link
    broken by the fault script, peer's MAC deactivated or its link loop gone), not because this machine is slow.
    With `sent_q` (real NFC-DEP initiator): also when the peer has taken everything we sent and is itself
    listening for the next frame - the situation in which a response waiting time expires on a real link (the
    initiator then sends ATN).  `cap` is the only real-time bound (a peer that is alive but does not answer for
    that long counts as silent)."""
    import queue
    me = "A" if peer == "B" else "B"
    t_end = _real_time.time() + cap
    dead = 0
    ctx.macwait[me] = True
    try:
        while True:
            try:
                return q.get(timeout=0.004)
            except queue.Empty:
                pass
            if pipe.broken or ctx.gone[peer]:
                try:
                    return q.get_nowait()
                except queue.Empty:
                    raise nfc.clf.TimeoutError("peer silent")
            if sent_q is not None and ctx.macwait[peer] and sent_q.empty() and q.empty():
                dead += 1
                if dead >= 3:
                    raise nfc.clf.TimeoutError("peer listens but does not answer")
            else:
                dead = 0
            if _real_time.time() > t_end:
                ctx.capped = True
                raise nfc.clf.TimeoutError("peer did not answer within the cap")
    finally:
        ctx.macwait[me] = False


class AirClf:
    """frame level air between two *real* nfc.dep objects ("dep" MAC mode): what Initiator/Target use of a
    ContactlessFrontend is exchange(frame, timeout); real exchange(), real deactivate() (DSL/RLS), real ATN/
    retransmission handling and their error handling run on top of this rendezvous"""

    def __init__(self, pair, ctx, side):
        self.pair, self.ctx, self.side = pair, ctx, side
        self.t_n = 0

    def exchange(self, data, timeout):
        pair, ctx, pipe, d = self.pair, self.ctx, self.pair.pipe, self.ctx.desc
        cause, end = d["cause"], d["end"]
        if self.side == "I":
            with pipe.lock:
                pipe.exchanges += 1
                n = ctx.xn = pipe.exchanges
            if ctx.due(n) and not ctx.triggered:
                if cause == "local" and end == "A":
                    pair.term_a = True
                    ctx.triggered = True
                elif cause == "disrupt":
                    pipe.broken = True
                    ctx.triggered = True
                elif cause == "ioerror" and end == "A":
                    pipe.broken = True
                    ctx.dead["A"] = True
                    ctx.triggered = True
                elif cause in UNENC and end == "A":
                    ctx.triggered = True
                    ctx.fire.set()
            if ctx.dead["A"]:
                raise IOError(errno.ENODEV, "No such device")
            if pipe.broken:
                raise nfc.clf.TimeoutError("link broken")
            pipe._obs("A>B", data)
            pipe.i2t.put(bytes(data))
            return bytearray(wait_frame(pipe.t2i, ctx, pipe, "B", sent_q=pipe.i2t))
        self.t_n += 1
        if cause == "ioerror" and end == "B" and ctx.due(self.t_n) and not ctx.triggered:
            pipe.broken = True
            ctx.dead["B"] = True
            ctx.triggered = True
        if cause in UNENC and end == "B" and ctx.due(self.t_n) and not ctx.triggered:
            ctx.triggered = True
            ctx.fire.set()
        if ctx.dead["B"]:
            raise IOError(errno.ENODEV, "No such device")
        if data is not None and not pipe.broken:
            pipe._obs("B>A", data)
            pipe.t2i.put(bytes(data))
        if timeout is not None and timeout <= 0:
            return None                       # like the drivers: send only
        r = bytearray(wait_frame(pipe.i2t, ctx, pipe, "A"))
        if cause == "local" and end == "B" and ctx.due(self.t_n) and not ctx.triggered:
            pair.term_b = True
            ctx.triggered = True
        return r


def dep_macs(pair, ctx):
    """MAC mode "dep": only activate() is replaced (general bytes swap), everything else is nfc.dep's own code"""
    import types
    pipe = pair.pipe
    i_act, t_act = pair.mi.activate, pair.mt.activate

    def i_activate(self, target=None, **o):
        gb = i_act(target, **o)
        self.rwt, self.miu, self.pni, self.did, self.nad = 0.25, 251, 0, None, None
        self.target, self._acm = nfc.clf.RemoteTarget("212F"), False
        return gb

    def t_activate(self, timeout=None, **o):
        import queue
        gb = t_act(timeout, **o)
        self.rwt, self.miu, self.did, self.nad = 0.25, 251, None, None
        self.target, self.acm = nfc.clf.LocalTarget("212F"), False
        try:
            self.cmd = bytearray(pipe.i2t.get(timeout=5.0))      # the first DEP_REQ arrives during activation
        except queue.Empty:
            return None
        return gb
    for mac, act, end in ((pair.mi, i_activate, "A"), (pair.mt, t_activate, "B")):
        del mac.__dict__["exchange"]
        del mac.__dict__["deactivate"]
        mac.activate = types.MethodType(act, mac)
        real = type(mac).deactivate

        def deactivate(self, *a, _real=real, _end=end, **kw):
            ctx.stamp_term(_end)
            try:
                return _real(self, *a, **kw)
            finally:
                ctx.gone[_end] = True
        mac.deactivate = types.MethodType(deactivate, mac)
        mac.clf = AirClf(pair, ctx, "I" if end == "A" else "T")
    pipe.keep_wire = False


def extend_macs(pair, ctx):
    import types
    if ctx.desc.get("mac") == "dep":
        return dep_macs(pair, ctx)
    d = ctx.desc
    pipe = pair.pipe
    cause, end, deact = d["cause"], d["end"], d["deact"]
    st = {"t_n": 0, "owes": False}

    def i_exchange(self, data, timeout):
        with pipe.lock:
            pipe.exchanges += 1
            n = ctx.xn = pipe.exchanges
        if ctx.due(n) and not ctx.triggered:
            if cause == "local" and end == "A":
                pair.term_a = True
                ctx.triggered = True
            elif cause == "disrupt":
                pipe.broken = True
                ctx.triggered = True
            elif cause == "ioerror" and end == "A":
                pipe.broken = True
                ctx.dead["A"] = True
                ctx.triggered = True
            elif cause in UNENC and end == "A":
                ctx.triggered = True
                ctx.fire.set()
        if ctx.dead["A"]:
            raise IOError(errno.EIO, "injected I/O error")
        if pipe.broken:
            raise nfc.clf.TimeoutError("link broken")
        pipe._obs("A>B", data)
        pipe.i2t.put(bytes(data))
        return bytearray(hole_filter(n, wait_frame(pipe.t2i, ctx, pipe, "B")))

    def t_exchange(self, data, timeout):
        st["t_n"] += 1
        if data is not None:
            st["owes"] = False
        if cause == "ioerror" and end == "B" and ctx.due(st["t_n"]) and not ctx.triggered:
            pipe.broken = True
            ctx.dead["B"] = True
            ctx.triggered = True
        if cause in UNENC and end == "B" and ctx.due(st["t_n"]) and not ctx.triggered:
            ctx.triggered = True
            ctx.fire.set()
        if ctx.dead["B"]:
            raise IOError(errno.EIO, "injected I/O error (target side)")
        if data is not None:
            if pipe.broken:
                raise nfc.clf.TimeoutError("link broken")
            pipe._obs("B>A", data)
            pipe.t2i.put(bytes(data))
        r = bytearray(hole_filter(st["t_n"], wait_frame(pipe.i2t, ctx, pipe, "A")))
        st["owes"] = True
        if cause == "local" and end == "B" and ctx.due(st["t_n"]) and not ctx.triggered:
            pair.term_b = True
            ctx.triggered = True
        return r

    def i_deactivate(self, release=True):
        ctx.stamp_term("A")
        pipe.deactivated["I"] += 1
        ctx.gone["A"] = True

    def t_deactivate(self, data=None):
        # what the real Target.deactivate(data) does on a live link: answer the pending request with `data`
        ctx.stamp_term("B")
        pipe.deactivated["T"] += 1
        if data and st["owes"] and not pipe.broken:
            st["owes"] = False
            pipe._obs("B>A", data)
            pipe.t2i.put(bytes(data))
        ctx.gone["B"] = True

    for mac, fns in ((pair.mi, {"exchange": i_exchange, "deactivate": i_deactivate}),
                     (pair.mt, {"exchange": t_exchange, "deactivate": t_deactivate})):
        for name, fn in fns.items():
            setattr(mac, name, types.MethodType(fn, mac))
    if cause == "ioerror" and deact == "raises":
        mac = pair.mi if end == "A" else pair.mt
        quiet = mac.deactivate
        real = type(mac).deactivate                         # the real nfc.dep deactivate()

        def deactivate(self, *a, **kw):
            if ctx.dead[end]:                               # the device is gone
                try:
                    return real(self, *a, **kw)
                finally:
                    ctx.gone[end] = True
            return quiet(*a, **kw)                          # link ended earlier for another reason
        mac.deactivate = types.MethodType(deactivate, mac)
        mac.clf = DeadFrontend(ctx, end)
        mac.did = mac.nad = None
        if end == "A":
            mac.target = nfc.clf.RemoteTarget("212F")
            mac._acm = False
            mac.pni = 0
        else:
            mac.target = nfc.clf.LocalTarget("212F")
            mac.acm = False
            mac.cmd = None
    pipe.keep_wire = False


# =========================================================================================================
# one case
class Env:
    def __init__(self):
        _install_process_hooks()
        self.mon = watch.LineMonitor(("/nfc/llcp/",), 0.0, random.Random(0)).start()
        self.hb = watch.Heartbeat().start()
        self.q = watch.Quiescence(self.mon, interval=0.05, samples=3, min_ticks=8, heartbeat=self.hb, budget=200)

    def close(self):
        self.hb.stop()
        self.mon.stop()


class CaseResult:
    def __init__(self):
        self.violations = []      # (sig, what, extra)
        self.inconc = []
        self.counts = {}
        self.seen = {}
        self.sched = 0
        self.nontrivial = False

    def count(self, name, n=1):
        self.counts[name] = self.counts.get(name, 0) + n

    def see(self, name, v):
        self.seen.setdefault(name, set()).add(v)


def link_shut_down(ctx, end):
    """terminate() of this end ran to completion: what the anchors of the property name as the terminated state"""
    llc = ctx.llc(end)
    try:
        return bool(llc.terminated) and bool(llc.link.SHUTDOWN) and all(sap is None for sap in llc.sap)
    except Exception:
        return False


def service_kind(info):
    for fr in info.stack:
        if fr.startswith("nfc/snep/server.py:"):
            return "service-snep-" + fr.split(":")[1].lstrip("_")
        if fr.startswith("nfc/handover/server.py:"):
            return "service-handover-" + fr.split(":")[1].lstrip("_")
    return "service-unknown"


def service_threads(ctx):
    """server objects plus every thread (transitively) started by one of them in this case"""
    svc = set(ctx.servers)
    for th, creator in _started[ctx.started_mark:]:
        if creator in svc and not isinstance(th, Worker):
            svc.add(th)
    return svc


def lock_is_free(th):
    """innermost frame in nfc code and no progress: the thread waits for a lock (`with self.lock`) or is merely not
    scheduled (loaded machine).  True when every lock that frame can be waiting for (lock attribute of `self`, of its
    llc) is demonstrably unowned: then the thread is not blocked, only starved -> no verdict, sample again."""
    f = sys._current_frames().get(th.ident)
    if f is None:
        return False
    obj = f.f_locals.get("self")
    del f
    locks = [getattr(obj, "lock", None), getattr(getattr(obj, "llc", None), "lock", None)]
    locks = [getattr(x, "_real", x) for x in locks if x is not None]
    if not locks:
        return False
    try:
        return all(repr(x).startswith("<unlocked ") for x in locks)
    except Exception:
        return False


def flag_blocked(ctx, res, th, info, phase):
    """a quiescent thread: violation if it is blocked forever inside nfc"""
    d = ctx.desc
    if info.kind == "lock-or-c-call-in-nfc" and lock_is_free(th):
        res.count("lock_verdicts_withdrawn_lock_is_free")
        return None
    if isinstance(th, Worker):
        end = th.end
        cur = th.cur
        if cur is None:
            return None                   # it came back between the last sample and now: sample again
        kind, age = cur[0], cur[1]
        who = th.name
    elif th in (ctx.pair.ta, ctx.pair.tb):
        end = "A" if th is ctx.pair.ta else "B"
        kind, age, who = "run-loop", "none", th.name
    else:
        end = "A" if any(th is s or _created_by(ctx, th, s) for s in ctx.servers if s._vf_end == "A") else "B"
        kind, age, who = service_kind(info), "old", "service thread " + th.name
    cause = ctx.cause_at(end)
    if getattr(th, "fr_event", None):
        cause = "%s+%s" % (th.fr_event, cause)      # its connection suffered this frame-reject event before
    elif kind == "run-loop" and any(v.end == end and v.fr.get("injected") for v in ctx.fr_workers):
        cause = "frame-reject-event+" + cause       # the link loop stopped after such events were sent to this end
    if not info.blocked_forever_in_nfc():
        return False
    ent = getattr(th, "ent", None)
    if ent is not None and ent.get("parked") and ent.get("parked_before_term") and cur[2] < ent["parked"] and \
            cur[0] == ent["kind"] and ent.get("rec_index") == len(th.log):
        age = "entering"                  # the call was held at a lock acquisition while the link terminated
    elif age in ("old", "old-shared"):
        was = ctx.waiting[end].get(th)
        if not (was is True or (was is not None and was is getattr(th, "cur", None))):
            age = "old-latewait"          # it passed the entry checks before, reached the wait after the shutdown
    sig = "blocked-forever/%s/%s-socket/%s@%s" % (kind, age, cause, info.nfc_func)
    what = ("%s (end %s) is blocked forever in %s on a %s socket after the link ended by %s at exchange k=%d "
            "(phase %s): untimed %s called from %s, nobody notified; stack %s"
            % (who, end, kind, age, cause, d["k"], phase, info.kind, info.nfc_func, " < ".join(info.stack[:7])))
    res.violations.append((sig, what, {"thread": who, "call": kind, "socket": age, "cause": cause, "phase": phase,
                                       "stack": info.stack[:9], "wait": [info.kind, info.timeout, info.notified]}))
    return True


def service_function(frame):
    """'service-snep-listen' ...: the outermost frame of a SNEP / handover server module on this stack"""
    name = None
    for f in watch.frames_of(frame):
        fn = f.f_code.co_filename.replace("\\", "/")
        if fn.endswith("/nfc/snep/server.py"):
            name = "service-snep-" + f.f_code.co_name.lstrip("_")
        elif fn.endswith("/nfc/handover/server.py"):
            name = "service-handover-" + f.f_code.co_name.lstrip("_")
    return name or "service-unknown"


def spin_check(ctx, env, res, th, frames, phase):
    """clause 6, evaluated once per sample for a live watched thread after both link loops have ended.  Logical
    counts only: statements of nfc/llcp executed (LINE counter) and timed waits entered inside the one call in
    progress (worker) / by the thread (service thread) since the link ended.  Returns True when the thread was
    judged spinning (violation recorded)."""
    base = ctx.spin_base
    if base is None or th.ident is None or th in (ctx.pair.ta, ctx.pair.tb):
        return False
    n = env.mon.counts.get(th.ident, 0)
    if isinstance(th, Worker):
        cur = th.cur
        if cur is None:
            ctx.spin_state.pop(th, None)
            return False
        start = max(base.get(th.ident, 0), th.cur_line0)
    else:
        cur = th
        start = base.get(th.ident, 0)
    res.count("spin_checks")
    st = ctx.spin_state.get(th)
    if st is None or st["call"] is not cur:
        st = ctx.spin_state[th] = {"call": cur, "last": None, "over": 0, "waits": 0, "wait_fn": None, "stacks": []}
    if n == st["last"]:
        return False                          # no statement executed since the previous sample: not for this clause
    first = st["last"] is None
    st["last"] = n
    kind = "service-thread" if cur is th else "call"
    if n - start > ctx.spin_max[kind]:
        ctx.spin_max[kind] = n - start
    f = frames.get(th.ident)
    if f is None:
        return False
    info = watch.classify(f)
    if not first and info.kind == "cond-wait" and info.in_nfc and info.timeout not in (None, "?"):
        st["waits"] += 1                      # a timed wait it was not in at the previous sample
        st["wait_fn"] = info.nfc_func
        res.count("spin_timed_waits_seen")
    if n - start > SPIN_LINES:
        st["over"] += 1
    if len(st["stacks"]) < 3:
        st["stacks"].append(info.stack[:6])
    if st["over"] >= SPIN_SAMPLES:
        how = "busy"
    elif st["waits"] >= SPIN_WAITS:
        how = "timed-wait@%s" % st["wait_fn"]
    else:
        return False
    d = ctx.desc
    if cur is th:
        end = "A" if any(th is s or _created_by(ctx, th, s) for s in ctx.servers if s._vf_end == "A") else "B"
        what_in = service_function(f)
        cause = ctx.cause_at(end)
        sig = "service-thread-survives/spinning/%s/%s/%s" % (what_in, cause, how)
        who = "service thread %s (end %s)" % (th.name, end)
        extra = {"thread": th.name, "function": what_in}
    else:
        end, cause = th.end, ctx.cause_at(th.end)
        if getattr(th, "fr_event", None):
            cause = "%s+%s" % (th.fr_event, cause)
        sig = "call-never-returns/spinning/%s/%s-socket/%s/%s" % (cur[0], cur[1], cause, how)
        who = "%s (end %s) in %s on a %s socket" % (th.name, end, cur[0], cur[1])
        extra = {"thread": th.name, "call": cur[0], "socket": cur[1]}
    what = ("%s keeps cycling inside nfc after the link ended by %s at exchange k=%d (phase %s) and does not come "
            "back: %d statements of nfc/llcp executed since then (bound %d), %d different timed waits (bound %d); "
            "sampled stacks %s" % (who, cause, d["k"], phase, n - start, SPIN_LINES, st["waits"], SPIN_WAITS,
                                   " | ".join(" < ".join(x) for x in st["stacks"])))
    extra.update({"cause": cause, "phase": phase, "how": how, "statements": n - start, "timed_waits": st["waits"],
                  "stacks": st["stacks"]})
    res.violations.append((sig, what, extra))
    res.count("spin_verdicts")
    return True


def _async_stop(th):
    """after the verdict: make a spinning thread leave (SystemExit raised asynchronously in it); clean-up only"""
    import ctypes
    try:
        if th.is_alive() and th.ident is not None:
            ctypes.pythonapi.PyThreadState_SetAsyncExc(ctypes.c_ulong(th.ident), ctypes.py_object(SystemExit))
    except Exception:
        pass


def _created_by(ctx, th, server):
    svc = {server}
    for t, creator in _started[ctx.started_mark:]:
        if creator in svc:
            svc.add(t)
    return th in svc


def run_case(desc, env):
    if desc.get("mac") == "udp":
        return run_case_udp(desc, env)
    res = CaseResult()
    ctx = Ctx(desc)
    res.times = [("start", _real_time.time())]
    env.mon.reset(desc["yield_p"], random.Random(desc["yield_seed"]))
    ctx.env_mon = env.mon
    if ctx.hold:
        env.mon.hook = make_hold_hook(ctx)
    elif ctx.ent is not None:
        env.mon.hook = make_ent_hook(ctx)
    elif ctx.fr is not None:
        env.mon.hook = make_fr_hook(ctx)
    opts = {"lto": desc["lto"], "agf": bool(desc["agf"])}
    infra = []

    def before(pair):
        pair.ctx = ctx
        ctx.pair = pair
        ctx.local_term = lambda e: setattr(pair, "term_a" if e == "A" else "term_b", True)
        extend_macs(pair, ctx)
        if ctx.ent is not None:
            for e in "AB":
                ent_gate_llc(ctx, ctx.llc(e))
        for e in "AB":
            infra.extend(build_infra(ctx, e))
        for e in desc["servers"]:
            for cls in (nfc.snep.SnepServer, nfc.handover.HandoverServer):
                srv = cls(ctx.llc(e))
                srv.daemon = True
                srv._vf_end = e
                ctx.servers.append(srv)
    miu = desc.get("miu", DEFAULT_MIU)
    pair = Pair(dict(opts, miu=miu["A"]), dict(opts, miu=miu["B"]), before_start=before)
    for w in infra:
        w.start()
    for srv in ctx.servers:
        srv.start()
    pair.ta.start()
    pair.tb.start()
    ctx.ent_loops.update({pair.ta.ident: "A", pair.tb.ident: "B"})
    ctx.ent_hot.update(ctx.ent_loops)
    # roles need the link parameters of an activated LLC (llc.connect reads cfg['send-miu'])
    for _ in range(4000):
        if all("send-miu" in x.cfg for x in (pair.a, pair.b)) or not (pair.ta.is_alive() and pair.tb.is_alive()):
            break
        _real_time.sleep(0.001)
    if not all("send-miu" in x.cfg for x in (pair.a, pair.b)):
        res.inconc.append("activation of the pair failed (harness)")
        return res, ctx
    start_roles(ctx, desc)
    return finish_case(ctx, env, res)


def start_roles(ctx, desc):
    stag = desc.get("stagger", 0)
    if desc["cause"] in UNENC:
        Worker(ctx, desc["end"], "unencodable", r_unencodable, 1).start()
        threading.Thread(target=unenc_guard, args=(ctx,), name="vf-unenc-guard", daemon=True).start()
    if ctx.fr is not None:
        for e in "AB":
            for kind, event in ctx.fr[e]:
                w = Worker(ctx, e, "fr-%s-%s" % (kind, event), fr_victim(kind, event), 1)
                w.fr = {"kind": kind, "event": event, "state": "init", "sock": None, "sx": event in FR_SX_EVENTS,
                        "go": threading.Event()}
                ctx.fr_workers.append(w)
        for w in ctx.fr_workers:
            w.start()
        for e in "AB":
            Worker(ctx, e, "fr-inject", fr_injector, 1).start()
    if ctx.ent is not None:
        for e in "AB":
            for idx, (variant, p, mode) in enumerate(ctx.ent[e]):
                w = Worker(ctx, e, "ent-%s-%s-%s" % (variant, p, mode), ent_body, 1)
                w.ent = {"variant": variant, "p": int(p), "mode": mode, "idx": idx, "end": e, "state": "init",
                         "kind": ENT_KIND.get(variant, variant), "n": 0, "depth": 0, "armed": False}
                ctx.ent_workers.append(w)
        for i, w in enumerate(ctx.ent_workers):
            w.start()
            if stag and i % stag == 0:
                _real_time.sleep(0.0005)
        threading.Thread(target=ent_monitor, args=(ctx,), name="vf-ent-monitor", daemon=True).start()
    if ctx.fr is None and ctx.ent is None:
        for variant, e in desc.get("shared", ()):
            Worker(ctx, e, "shared-" + variant, shared_body(variant), 1).start()
    for i, (name, e) in enumerate(desc["roles"]):
        w = Worker(ctx, e, name, ROLES[name], 1)
        if ctx.fr is not None:
            ctx.fr_deferred.append(w)
            continue
        w.start()
        if stag and i % stag == 0:
            _real_time.sleep(0.0005)


def finish_case(ctx, env, res):
    """common part of a case once the link is up and the roles run: termination, verdicts, further calls"""
    desc, pair = ctx.desc, ctx.pair
    res.times.append(("roles-started", _real_time.time()))
    # ---- phase 1a: the run loops must end ------------------------------------------------------------------
    runs = [pair.ta, pair.tb]
    status, infos = env.q.wait(lambda: runs)
    res.count("quiescence_waits")
    parked = (ctx.hold is not None and ctx.hold_state.get("held") and not ctx.release.is_set()) or \
        any(w.ent.get("state") == "parked" for w in ctx.ent_workers)
    ctx.release.set()
    for e in "AB":
        ctx.ent_release[e].set()
    if status != "done" and parked:
        # a link loop that does not end while the harness itself holds a thread back (directed preemption inside a
        # critical section: the parked thread owns a socket lock the shutdown needs) is judged only after that thread
        # has been let go - never by which of the two harness mechanisms happened to be scheduled first
        res.count("run_loops_rejudged_after_release_of_parked_thread")
        status, infos = env.q.wait(lambda: runs)
        res.count("quiescence_waits")
    for _ in range(3):                           # "blocked on a lock" that turned out to be free: starved, wait again
        if status == "done" or not any(i.kind == "lock-or-c-call-in-nfc" and lock_is_free(t) for t, i in infos.items()):
            break
        res.count("lock_verdicts_withdrawn_lock_is_free")
        status, infos = env.q.wait(lambda: runs)
        res.count("quiescence_waits")
    if ctx.hold_state.get("lock_conflict"):
        res.count("holds_released_early_lock_conflict")
    if status != "done":
        stuck = False
        for th, info in infos.items():
            if flag_blocked(ctx, res, th, info, "run"):
                stuck = True
                ctx.abandoned.add(th)
                th._vf_info = info
        if not stuck:
            res.inconc.append("run loops neither ended nor blocked in nfc (%s): %s"
                              % (status, [i.stack[:4] for i in infos.values()]))
            return res, ctx
        if ctx.fr is not None:
            # a link loop that is blocked forever (it holds the link controller lock) is the verdict of this case;
            # everything else would be a consequence of it, and a very slow one to establish thread by thread
            ctx.fire.set()
            return res, ctx
    res.times.append(("runs-ended", _real_time.time()))
    ctx.spin_base = dict(env.mon.counts)         # clause 6 counts from here
    ctx.fire.set()                               # link ended before exchange k: the call is made afterwards
    mode = desc.get("mac", "fake")
    for e in "AB":
        out = ctx.run_out.get(e, "alive")
        res.count("run_outcome/%s/%s" % (ctx.cause_at(e), out))
        if out.startswith("escape:") and ctx.cause_at(e) == "unencodable-raw" and link_shut_down(ctx, e) and \
                isinstance(ctx.run_exc.get(e), ARG_ERRORS):
            # the encoder's complaint about the application's own PDU object, passed on after a complete terminate()
            res.count("unencodable_raw_raised_after_terminate")
            res.count("unencodable_raw_raised_after_terminate/%s/%s" % (mode, type(ctx.run_exc[e]).__name__))
        elif out.startswith("escape:"):
            res.violations.append(("run-loop-died/%s/%s" % (out[7:], ctx.cause_at(e)),
                                   "%s of end %s did not come back but raised an exception that is neither documented "
                                   "nor handled (the link loop ended without terminate()) after %s: %s"
                                   % ("ContactlessFrontend.connect()" if mode == "udp" else "LogicalLinkController.run()",
                                      e, ctx.cause_at(e), ctx.run_err.get(e)),
                                   {"cause": ctx.cause_at(e), "mode": mode}))
        if desc["cause"] in UNENC and e == desc["end"] and (ctx.cause_at(e) in UNENC or ctx.cause_at(e) == "local"):
            res.count("unencodable_cases/" + desc["cause"].split("-")[1])
            res.count("unencodable_cases_mac/" + mode)
            if ctx.unenc_fallback:
                res.count("unencodable_fallback_local")
                res.see("unencodable_rejected_by_socket_layer", str(ctx.unenc_rejected))
                # explicit: this case did not exercise its cause, the link ended by a local terminate request
                res.count("unencodable_degraded_to_local/%s/%s"
                          % (desc["cause"], str(ctx.unenc_refusal or "link-survived-the-call").split("@")[0]))
        if ctx.cause_at(e) in UNENC:
            res.count("unencodable_calls_before_termination")
            res.count("unencodable_how/" + desc["how"])
            for name in _encode_errors[ctx.encode_error_mark:]:
                res.count("unencodable_encode_failures_in_link_loop/" + name)
            if out == "returned":
                res.count(("unencodable_connect_returned/" if mode == "udp" else "unencodable_link_loop_returned/") + mode)
    for e in "AB":
        if ctx.ended[e] is None:
            ctx.ended[e] = next(ctx.ticks)           # blocked run loop: everything from here on is "afterwards"
        if ctx.term[e] is None:
            ctx.term[e] = ctx.ended[e]
    if not ctx.triggered:
        res.count("premature_terminations")
    if ctx.capped:
        res.count("mac_waits_capped")
    if ctx.hold:
        hs = ctx.hold_state
        res.count("directed_cases")
        if hs["held"] and hs.get("held_before_term"):
            res.count("directed_holds_reached_before_termination")
            res.see("hold_points", "%s/%s@%s" % (ctx.hold["thread"].split(":", 1)[-1], ctx.hold.get("kind"), hs["held"]))
        if hs["timeout"]:
            res.inconc.append("directed hold was never released (harness)")
    for e in "AB":
        res.count("terminations")
        res.count("terminations/" + ctx.cause_at(e))
    res.see("k", desc["k"])
    res.count("cases_mac_" + desc.get("mac", "fake"))

    # ---- phase 1b: every thread that was in (or about to enter) a call must come back ------------------------
    def phase1_threads():
        return [w for w in ctx.workers if w.phase == 1 and w not in ctx.abandoned] + \
               [t for t in service_threads(ctx) if t not in ctx.abandoned]
    if ctx.fr is not None and not ctx.fr_done.wait(20.0):
        res.inconc.append("frame-reject case: the injector threads did not finish (harness)")
        return res, ctx
    if ctx.ent is not None and not ctx.ent_done.wait(20.0):
        res.inconc.append("entering case: the monitor thread did not finish (harness)")
        return res, ctx
    if not settle(ctx, env, res, phase1_threads, "at-termination"):
        return res, ctx
    res.times.append(("phase1-settled", _real_time.time()))
    svc = service_threads(ctx)
    res.count("service_threads_started", len(svc))
    res.count("service_threads_exited", sum(1 for t in svc if not t.is_alive()))

    # ---- phase 3: one further call of every kind, old sockets and new sockets ---------------------------------
    olds = [s for s in ctx.socks if not s.new]
    ctx.order.shuffle(olds)
    olds = olds[:32]
    post = []
    for s in olds:
        seq = old_sequence(ctx, s)
        w = Worker(ctx, s.end, "post-old", old_body(s, seq), 3)
        w.seq, w.sock_s, w.hangs = seq, s, 0
        post.append(w)
    for e in "AB":
        for name, body in new_scenarios(e):
            post.append(Worker(ctx, e, "post-new-" + name, body, 3))
    ctx.order.shuffle(post)
    for w in post:
        w.start()

    def phase3_threads():
        return [w for w in ctx.workers if w.phase == 3 and w not in ctx.abandoned]

    def continue_old(w):
        # after a blocked call the remaining calls on that socket are issued by a fresh thread; after the second
        # blocked call on one socket only close() and what follows it is still issued (bounds the rounds)
        if getattr(w, "seq", None) is not None and w.pos < len(w.seq):
            n = Worker(ctx, w.end, "post-old", old_body(w.sock_s, w.seq), 3)
            n.seq, n.sock_s, n.hangs = w.seq, w.sock_s, w.hangs + 1
            first_tail = next(i for i, (kind, _) in enumerate(w.seq) if kind == "close")
            n.pos = w.pos if n.hangs < 2 or w.pos > first_tail else first_tail
            n.start()
    if not settle(ctx, env, res, phase3_threads, "afterwards", on_abandon=continue_old):
        return res, ctx
    res.times.append(("phase3-settled", _real_time.time()))
    res.nontrivial = True
    return res, ctx


def run_case_udp(desc, env):
    """MAC mode "udp": the complete path.  Two real ContactlessFrontend('udp:...').connect(llcp=...) calls, real
    nfc.clf.udp driver, real nfc.dep, real LLC over vf.sim.fakenet (virtual clock: protocol time-outs expire
    when every stack waits, not with elapsed time).  The link loop threads *are* the connect() calls, so
    "connect() returns to its caller" is observed literally (clause 5 on connect() itself)."""
    import types
    from vf.sim import fakenet
    res = CaseResult()
    ctx = Ctx(desc)
    res.times = [("start", _real_time.time())]
    env.mon.reset(desc["yield_p"], random.Random(desc["yield_seed"]))
    ctx.env_mon = env.mon
    if ctx.ent is not None:
        env.mon.hook = make_ent_hook(ctx)
    elif ctx.fr is not None:
        env.mon.hook = make_fr_hook(ctx)
    cause, end = desc["cause"], desc["end"]
    net = fakenet.FakeNet(clock="virtual", keep_frames=False, stall_limit=10.0)
    st = {"n": 0, "broken": False, "term": {"A": False, "B": False}, "connected": {"A": False, "B": False}}
    up = threading.Event()
    stacks = {}
    infra = []

    def observer(f):
        # initiator -> target NFC-DEP information requests = LLCP exchanges
        p = f.payload
        if f.to_listener and p and (bytes(p[1:3]) == b"\xd4\x06" or bytes(p[2:4]) == b"\xd4\x06"):
            st["n"] += 1
            ctx.xn = st["n"]
            if ctx.due(st["n"]) and not ctx.triggered and all(st["connected"].values()):
                ctx.triggered = True
                if cause == "local":
                    st["term"][end] = True
                elif cause == "disrupt":
                    st["broken"] = True
                elif cause in UNENC:
                    ctx.fire.set()
                else:
                    ctx.dead[end] = True

    def hook(f):
        return "drop" if st["broken"] else None

    def sock_fault(op, sock, args):
        cur = threading.current_thread()
        for e in "AB":
            if ctx.dead[e] and stacks.get(e) is cur:
                return IOError(errno.EIO, "injected I/O error (host link to the device)")
        return None
    ctx.local_term = lambda e: st["term"].__setitem__(e, True)
    net.observers.append(observer)
    net.hook = hook
    net.sock_fault = sock_fault

    def options(e):
        def on_startup(llc):
            ctx.llcs[e] = llc
            if ctx.ent is not None:
                ent_gate_llc(ctx, llc)
            infra.extend(build_infra(ctx, e))
            if e in desc["servers"]:
                for cls in (nfc.snep.SnepServer, nfc.handover.HandoverServer):
                    srv = cls(llc)
                    srv.daemon = True
                    srv._vf_end = e
                    ctx.servers.append(srv)
                    srv.start()
            for w in [w for w in infra if w.end == e]:
                w.start()
            return llc

        def on_connect(llc):
            real = type(llc.mac).deactivate

            def deactivate(self, *a, **kw):
                ctx.stamp_term(e)
                try:
                    return real(self, *a, **kw)
                finally:
                    ctx.gone[e] = True
            llc.mac.deactivate = types.MethodType(deactivate, llc.mac)
            st["connected"][e] = True
            if all(st["connected"].values()):
                up.set()
            return True
        return {"role": "initiator" if e == "A" else "target", "lto": desc["lto"], "agf": bool(desc["agf"]),
                "miu": desc.get("miu", DEFAULT_MIU)[e], "on-startup": on_startup, "on-connect": on_connect}

    def stack(e):
        def body():
            out = "?"
            try:
                clf = fakenet.make_clf(net, "udp:localhost:54321")
                ctx.clfs[e] = clf
                polls = [0]

                def term():
                    polls[0] += 1
                    return st["term"][e] or net.aborted is not None or polls[0] > 20000 or \
                        (ctx.ended["A" if e == "B" else "B"] is not None)
                r = clf.connect(llcp=options(e), terminate=term)
                out = "returned"
                res.see("connect_returned", repr(r))
            except SystemExit:
                out = "SystemExit"
            except KeyboardInterrupt:
                out = "KeyboardInterrupt"
            except BaseException as e2:
                out = "escape:" + exc_sig(e2)
                ctx.run_err[e] = exc_text(e2)[-800:]
                ctx.run_exc[e] = e2
            ctx.by_stack[e] = ctx.term[e] is not None
            ctx.run_out[e] = out
            ctx.gone[e] = True
            ctx.stamp_term(e)
            ctx.ended[e] = next(ctx.ticks)
            ctx.ent_release[e].set()
        return body

    net.install()
    try:
        ths = net.spawn_all([stack("B"), stack("A")], ["runB", "runA"])
        stacks["B"], stacks["A"] = ths
        ctx.ent_loops.update({ths[0].ident: "B", ths[1].ident: "A"})
        ctx.ent_hot.update(ctx.ent_loops)
        ctx.pair = types.SimpleNamespace(ta=stacks["A"], tb=stacks["B"], a=None, b=None, pipe=None)
        if not up.wait(15.0):
            net.abort("no link")
            res.inconc.append("udp mode: the two stacks did not connect (harness)")
            return res, ctx
        start_roles(ctx, desc)
        res, ctx = finish_case(ctx, env, res)
        if net.aborted is not None or net.deadlocks:
            res.inconc.append("udp mode: net aborted (%s), deadlocks=%d" % (net.aborted, net.deadlocks))
        return res, ctx
    finally:
        net.abort("case over")
        for th in stacks.values():
            th.join(2.0)
        net.uninstall()


def settle(ctx, env, res, get_threads, phase, on_abandon=None, max_rounds=40):
    """wait until the given threads are gone; blocked ones are flagged and abandoned (round after round); threads
    that spin (clause 6) are flagged and abandoned at the sample at which their counts pass the bounds"""
    def watched():
        ths = [th for th in get_threads() if th not in ctx.abandoned]
        if ctx.spin_base is None:
            return ths
        frames = sys._current_frames()
        out = []
        for th in ths:
            if th.is_alive() and spin_check(ctx, env, res, th, frames, phase):
                ctx.abandoned.add(th)
                ctx.spinners.append(th)
                _async_stop(th)               # the verdict is recorded; it would only burn processor time from here
                if on_abandon and isinstance(th, Worker):
                    on_abandon(th)
            else:
                out.append(th)
        del frames
        return out
    for _ in range(max_rounds):
        status, infos = env.q.wait(watched)
        res.count("quiescence_waits")
        if status == "done":
            return True
        if status == "watchdog":
            res.inconc.append("no quiescence within the sample budget (%s): %s"
                              % (phase, [(t.name, i.stack[:3]) for t, i in list(infos.items())[:4]]))
            return False
        res.count("quiescence_verdicts")
        progress = False
        flagged = []
        for th, info in infos.items():           # all verdicts first, only then new threads (they may call close())
            verdict = flag_blocked(ctx, res, th, info, phase)
            if verdict is None:
                progress = True
            elif verdict:
                ctx.abandoned.add(th)
                th._vf_info = info
                progress = True
                flagged.append(th)
        for th in flagged:
            if on_abandon and isinstance(th, Worker):
                on_abandon(th)
        if not progress:
            res.inconc.append("threads without progress that are not blocked inside nfc (%s): %s"
                              % (phase, [(t.name, i.kind, i.timeout, i.stack[:4]) for t, i in list(infos.items())[:4]]))
            return False
    res.inconc.append("more than %d quiescence rounds (%s)" % (max_rounds, phase))
    return False


def account(ctx, res):
    """evidence from the call logs + clause 2 (escapes)"""
    for w in ctx.workers:
        if w.harness_error:
            res.inconc.append("harness error in %s: %s" % (w.name, w.harness_error[-500:]))
        recs = list(w.log) + ([w.cur] if w.cur else [])
        for kind, age, t_in, t_out, out in recs:
            term, ended = ctx.term[w.end], ctx.ended[w.end]
            if term is None or ended is None:
                continue
            outcome = out if out else "blocked"
            if t_in < term and (t_out is None or t_out > term):
                res.count("blocked_at_term_calls")
                res.count("blocked_at_term/" + kind)
                res.count("woken/" + outcome.split("@")[0])
            elif t_in > ended:
                res.count("after_calls_" + ("new" if age == "new" else "old"))
                res.count("after/%s/%s" % (kind, age))
                res.count("outcome/" + outcome.split("@")[0])
                res.see("after_outcomes", "%s/%s:%s" % (kind, age, outcome.split("@")[0]))
            elif t_out is not None and t_in > term:
                res.count("during_termination_calls")
        for kind, age, es, text in w.escapes:
            cause = ctx.cause_at(w.end)
            res.violations.append(("escape/%s/%s" % (kind, es),
                                   "%s: %s on a %s socket left with an exception that is not nfc.llcp.Error after %s: %s"
                                   % (w.name, kind, age, cause, text[-300:]),
                                   {"call": kind, "socket": age, "cause": cause}))
    for g in ctx.shared:
        term = ctx.term[g["end"]]
        res.count("shared_groups/" + g["variant"])
        n = 0
        for th in g["threads"]:
            rec = th.cur or (th.log[-1] if th.log else None)
            if rec is not None and term is not None and rec[2] < term and (rec[3] is None or rec[3] > term):
                n += 1
        if n >= 2:                            # at least two threads were inside their calls on the one socket
            res.count("shared_blocked_at_term/" + g["variant"])
            res.count("shared_waiters_at_term", n)
    effective = {"A": 0, "B": 0}
    for w in ctx.fr_workers:
        st = w.fr
        kind, event = st["kind"], st["event"]
        if not st.get("injected"):
            res.count("fr_victims_without_event/" + st["state"])
            continue
        res.count("fr_injected")
        if not st["blocked"]:
            res.count("fr_victims_not_seen_blocked/" + kind)
            continue
        if st.get("effect") and st.get("effect_before_term"):
            effective[w.end] += 1
            res.count("fr_events/" + event)
            res.count("fr_victims/" + kind)
            res.count("fr_effect/" + st["effect"])
            res.see("fr_combinations", "%s/%s" % (kind, event))
            if st["effect"] in ("returned", "shutdown"):
                res.count("fr_rejects/" + event)
        rec, term = st["rec"], ctx.term[w.end]
        if rec[3] is None:
            res.count("fr_blocked_call/never-returned")
        elif term is None or rec[3] < term:
            res.count("fr_blocked_call/returned-at-the-event")
            res.see("fr_outcomes_at_the_event", "%s/%s:%s" % (kind, event, rec[4].split("@")[0]))
        else:
            res.count("fr_blocked_call/returned-when-the-link-ended")
    if ctx.fr_sx_held:
        res.count("fr_sx_held_dispatch", ctx.fr_sx_held)
    if ctx.fr is not None and ctx.triggered and sum(effective.values()):
        res.count("fr_cases")
        res.see("fr_delay_k", ctx.desc["k"])
        for e in "AB":
            if effective[e] and ctx.term[e] is not None:
                res.count("fr_terminations/" + ctx.cause_at(e))
    good = {"A": 0, "B": 0}
    for w in ctx.ent_workers:
        st = w.ent
        variant, p, kind = st["variant"], st["p"], st["kind"]
        idx = st.get("rec_index")
        rec = None if idx is None else (w.log[idx] if idx < len(w.log) else w.cur)
        term, ended = ctx.term[w.end], ctx.ended[w.end]
        if st["mode"] in ("race", "race-early"):
            if rec is None or term is None or ended is None:
                res.count("entering_race_not_started/" + st["state"])
                continue
            res.count("entering_race_calls")
            res.count("entering_race_calls/" + kind)
            when = "before" if rec[2] < term else ("during" if rec[2] < ended else "after")
            res.count("entering_race_calls_%s_termination" % when)
            if when != "after" and (rec[3] is None or rec[3] > term):
                res.count("entering_race_calls_overlapping_termination")
                res.see("entering_race_outcomes", "%s:%s" % (kind, (rec[4] or "blocked").split("@")[0]))
            continue
        if st["mode"] == "stmt":
            if st.get("timeout"):
                res.inconc.append("entering case: a parked thread was not released within the guard (harness)")
            if rec is None or not st.get("parked"):
                res.count("entering_stmt_not_parked")
            elif not (st.get("parked_before_term") and st.get("released_after_end") and ctx.triggered):
                res.count("entering_stmt_parked_but_not_across_termination")
            else:
                good[w.end] += 1
                res.count("entering_stmt_parked")
                res.count("entering_stmt_calls/" + kind)
                res.see("entering_stmt_points", "%s@%s" % (variant, st.get("where")))
                res.see("entering_stmt_outcomes", "%s:%s" % (kind, (rec[4] or "blocked").split("@")[0]))
            continue
        beyond = p > ENT_NPOINTS[variant]
        if st.get("timeout"):
            res.inconc.append("entering case: a parked thread was not released within the guard (harness)")
        if rec is None or not st.get("parked"):
            res.count(("entering_probe_not_parked/%s/%d" if beyond else "entering_not_parked/%s/%d") % (variant, p))
            if not beyond:
                res.see("entering_not_parked_state", "%s/%d:%s" % (variant, p, st["state"]))
            continue
        if not (st.get("parked_before_term") and st.get("released_after_end") and ctx.triggered):
            res.count("entering_parked_but_not_across_termination/%s/%d" % (variant, p))
            continue
        good[w.end] += 1
        res.count(("entering_parked_beyond/%s/%d" if beyond else "entering_parked/%s/%d") % (variant, p))
        res.count("entering_calls/" + kind)
        res.see("entering_points", "%s/%d@%s" % (variant, p, st.get("where")))
        res.see("entering_outcomes", "%s/%d:%s" % (variant, p, (rec[4] or "blocked").split("@")[0]))
    if ctx.ent is not None:
        res.count("entering_race_yields", ctx.ent_yields)
        if sum(good.values()):
            res.count("entering_cases")
            res.see("entering_delay_k", ctx.desc["k"])
            for e in "AB":
                if good[e]:
                    res.count("entering_terminations/" + ctx.cause_at(e))
    for kind, name in ctx.arg_errors:
        res.count("arg_errors_accepted/%s/%s" % (kind, name))
    svc = service_threads(ctx)
    res.count("service_threads_watched_for_uncaught_exceptions", len(svc))
    for th, es, tick, text in _uncaught[ctx.uncaught_mark:]:
        res.see("uncaught_in_thread", "%s %s" % ("service" if not isinstance(th, Worker) else "worker", es))
        res.count("uncaught_exceptions_in_threads")
        if th in svc and th not in ctx.spinners:
            end = "A" if any(th is sv or _created_by(ctx, th, sv) for sv in ctx.servers if sv._vf_end == "A") else "B"
            term = ctx.term[end]
            if term is None or tick < term:
                res.count("uncaught_in_service_thread_before_termination")     # not about the end of the link
                continue
            cause = ctx.cause_at(end)
            res.violations.append(("escape/service-thread/%s" % es,
                                   "service thread %s (end %s) died of an exception that is not nfc.llcp.Error after "
                                   "the link ended by %s: %s" % (th.name, end, cause, text[-400:]),
                                   {"thread": th.name, "cause": cause}))


def cleanup(ctx):
    """after the verdict: try to let leaked threads go (not part of any oracle)"""
    for th in ctx.spinners:
        _async_stop(th)
    for th in list(ctx.abandoned):
        info = getattr(th, "_vf_info", None)
        if info is not None:
            watch.wake(info)
    def shutdown_saps():
        for llc in [ctx.llc(e) for e in "AB" if ctx.pair and (e in ctx.llcs or getattr(ctx.pair, "a", None))]:
            try:
                for sap in list(llc.sap):
                    if sap is not None:
                        sap.shutdown()
            except Exception:
                pass
    # in a thread: a link loop that is blocked forever holds the link controller lock this needs
    t = threading.Thread(target=shutdown_saps, name="vf-cleanup-saps", daemon=True)
    t.start()
    t.join(2.0)

    def closer():
        for s in ctx.socks:
            try:
                s.sock.close()
            except Exception:
                pass
    threading.Thread(target=closer, name="vf-cleanup", daemon=True).start()
    for clf in ctx.clfs.values():
        try:
            clf.close()
        except Exception:
            pass
    for th in list(ctx.abandoned):
        info = getattr(th, "_vf_info", None)
        if info is not None:
            watch.wake(info)


def evaluate(desc, env, R):
    """run one case and report into R; returns the list of violation signatures"""
    res, ctx = run_case(desc, env)
    ctx.release.set()
    ctx.fire.set()
    for e in "AB":
        ctx.ent_release[e].set()
    ctx.ent_trig.set()
    env.mon.hook = None
    if ctx.pair is not None:
        try:
            account(ctx, res)
        finally:
            cleanup(ctx)
    evaluate.last_times = getattr(res, "times", [])
    sched = env.mon.sig
    key = dict(desc)
    key["sched"] = sched
    R.case(key, nontrivial=res.nontrivial)
    R.seen("schedule_signatures", "%012x" % sched)
    R.count("monitor_events", env.mon.events)
    R.count("yields_injected", env.mon.yields)
    R.max("thread_switches_per_case", env.mon.switches)
    if not res.violations:                       # evidence for the bound of clause 6 (statements after the link ended)
        R.max("post_term_lines/call", ctx.spin_max["call"])
        R.max("post_term_lines/service-thread", ctx.spin_max["service-thread"])
    for k, v in res.counts.items():
        R.count(k, v)
    for k, vs in res.seen.items():
        for v in vs:
            R.seen(k, v)
    sigs = []
    for sig, what, extra in res.violations:
        case = dict(desc)
        case["expect"] = sig
        case["witness"] = extra
        R.violation(sig, what, case)
        sigs.append(sig)
    for r in res.inconc:
        R.inconc("%s [case cause=%s end=%s k=%d deact=%s]" % (r, desc["cause"], desc["end"], desc["k"], desc["deact"]))
    return sigs


def run(desc, R, rng):
    env = Env()
    try:
        base = threading.active_count()
        for j in range(desc["n"]):
            i = desc["first"] + j * desc["stride"]
            d = make_desc(i, int(desc.get("seed", 0)), rng)
            evaluate(d, env, R)
            R.max("live_threads_in_shard", threading.active_count() - base)
        for j in range(desc.get("nfr", 0)):
            f = desc["first"] + j * desc["stride"]
            evaluate(make_fr_desc(f, int(desc.get("seed", 0)), rng), env, R)
            R.max("live_threads_in_shard", threading.active_count() - base)
        for j in range(desc.get("nent", 0)):     # after the others: their rng draws stay what they were
            f = desc["first"] + j * desc["stride"]
            evaluate(make_ent_desc(f, int(desc.get("seed", 0)), rng), env, R)
            R.max("live_threads_in_shard", threading.active_count() - base)
        R.sample({"last_case": {k: d[k] for k in ("cause", "end", "deact", "k", "yield_p", "agf")},
                  "roles": len(d["roles"])})
    finally:
        env.close()


def replay(case, R):
    desc = {k: v for k, v in case.items() if k not in ("expect", "witness")}
    env = Env()
    try:
        for attempt in range(4):             # threads: the schedule is not reproducible, the mechanism is
            sigs = evaluate(desc, env, R)
            if case.get("expect") is None or case["expect"] in sigs:
                break
    finally:
        env.close()


if __name__ == "__main__":                   # debugging: python -m vf.props.c09 '{"cause":...}' or an index
    import faulthandler
    import json
    from vf.core.rec import Recorder
    faulthandler.dump_traceback_later(120, exit=True)
    R = Recorder(ID)
    arg = sys.argv[1] if len(sys.argv) > 1 else "0"
    env = Env()
    if arg.startswith("{"):
        descs = [json.loads(arg)]
    else:
        mk = make_desc
        if arg.startswith("fr"):
            mk, arg = make_fr_desc, arg[2:]
        elif arg.startswith("ent"):
            mk, arg = make_ent_desc, arg[3:]
        lo, _, hi = arg.partition(":")
        rng = random.Random(1)
        descs = [mk(i, 0, rng) for i in range(int(lo), int(hi or int(lo) + 1))]
    for d in descs:
        t0 = time.time()
        sigs = evaluate(d, env, R)
        print("case", {k: d.get(k) for k in ("cause", "end", "deact", "k", "yield_p", "hold", "mac")}, "%.2fs" % (time.time() - t0),
              "threads", threading.active_count(),
              " ".join("%s+%.2f" % (n, t - evaluate.last_times[0][1]) for n, t in evaluate.last_times[1:]),
              "pipe-exchanges", "events", env.mon.events)
        for s in sorted(set(sigs)):
            print("   ", s)
    out = R.dump()
    print(json.dumps({k: out[k] for k in ("counters", "inconclusive")}, indent=1, sort_keys=True))
    print({k: v for k, v in out["sets"].items() if k != "schedule_signatures"})
    sys.stdout.flush()
    import os
    os._exit(0)
