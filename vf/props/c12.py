"""C12 - ISO-DEP: each APDU is executed at most once and its complete response is returned, or a
Type4TagCommandError is raised; no block exceeds the card's frame size.

Real Type4ATag / Type4BTag objects, built by the real nfc.tag.activate() (RATS / ATTRIB) on a real
ContactlessFrontend over SimTagDevice, talk to the ISO/IEC 14443-4 PICC-rule card model vf.sim.t4t.T4TCard.  The card
runs an echo application: every command gets a response that is a function of the command bytes with a chosen length,
and the card logs every execution.  A block level fault script assigns to the n-th frame exchange of the observed
APDU exchange one of
    L  command lost (card sees nothing, reader times out)        C  command destroyed on the way (card sees nothing valid) and
    l  response lost (card acted, reader times out)                 the reader's receiver reports a TransmissionError
    c  response corrupted (reader gets TransmissionError)        d  the card's previous I- or S-block arrives (again) in place of
or lets the card leave the field from exchange j on ("dead").       the answer to this frame (duplicate / late frame)
WTX requests replace chosen card answers (WTXM 1..59, optionally with the power level indication b8-b7 of ISO/IEC 14443-4 7.3;
"timed": the card answers at the end of the FWT x WTXM it asked for).  Storm cards: endless S(WTX), R(ACK) with the other
block number for every I-block, every I-block lost.  "pre": a first exchange under its own script that fails or recovers,
then the exchange under test on the same tag object under its script (pairs).

Monitors
  exec      the card executed the APDU under test at most once, and nothing it was not sent (pairs: also the APDU of the
            first exchange at most once over both exchanges)
  response  a returned value is exactly the card's response to *that* APDU (not truncated / extended / stale);
            a follow-up exchange in the same session returns its own response; after a failed exchange the next call returns
            its own response or raises Type4TagCommandError (stale-response/after-error/...)
  error     every failure is a Type4TagCommandError (status word errors carry the SW)
  frame     every block the reader sent has len(block)+2 <= FSC and len(block) <= device max_send
  recovery  no block exchange sees more errors than the retry budget (fault positions less than three frame exchanges apart
            count as one cluster; every cluster <= budget; no fault at all: every FWI, budget 0 included): the exchange must
            succeed.  Not claimed with duplicated frames, for storm cards, after a failed exchange, when the card is gone
  bounded   the exchange ends within a bounded number of frames (also when the card is gone; storm cards: 400 frames)
"""
import hashlib
import itertools


ID = "C12"
LEVEL = "fault_enumeration"
RULE = ("case = (activation config: Type 4A/4B, FSCI 0-8, FWI 0-14, device max_send/max_recv, card response block size; Type 4B "
        "with the basic 12-byte and the extended 13-byte ATQB whose 4th protocol info byte carries an SFGI different from "
        "FSCI and FWI: in the fault enumeration every second 4B configuration, plus the enumeration of every (FSCI, FWI, "
        "SFGI) with pairwise different values on a card that uses its whole FWT) x "
        "(command length, response length around multiples of the block payload, transceive / send_apdu, status word) x "
        "(WTX positions, WTXM, power level indication, timed) x (fault script over the frame exchanges of the APDU exchange); "
        "scripts are enumerated exhaustively for <= 2 faults (thorough <= 3) over {L,l,C,c} x positions for exchanges of <= 10 "
        "(16) frames, every single duplicated block (d) at every position, every 'card gone from frame j', every single WTX "
        "position x every single fault, bursts of 2..budget+1 errors on one block (stride 1 and 2) at every block, a lost "
        "chained I-block for every chain length 2..24, storm cards, random scripts with up to 5 faults beyond; pairs: every "
        "(block, kind) way to fail / to recover the first exchange x every single fault of the second; distinct by the whole "
        "descriptor (ids removed); non-trivial if a fault was consumed, a WTX was sent or chaining took place")
ASSUMPTIONS = ["in the ATS variant and ATQB variant cases the card answers at the end of its frame waiting time: a time-out handed to "
               "exchange() that is shorter than the card's FWT loses the response (elsewhere time-out values are not judged)",
               "the simulated reader device polls like nfc.clf.rcs380 (SENSB_REQ 05 00 10: extended ATQB supported), so the 13-byte "
               "extended ATQB of ISO/IEC 14443-3 7.9.4 is a conformant answer; FSC and FWI are the card model's own configuration",
               "vf.sim.t4t.T4TCard follows the PICC rules of ISO/IEC 14443-4 7.5.4 (block numbering, rules 9-13, D, E)",
               "a corrupted command is ignored by the card (it cannot tell it from noise); the reader sees a time-out (L) or, when "
               "the disturbance also hits its receiver, a TransmissionError (C)",
               "a duplicated / late frame is the last block the card transmitted and only an I- or S-block: a repeated R(ACK) "
               "carries the block number that PCD rule 6 answers with a retransmission, which no reader can tell from a genuine one",
               "S(WTX) coding of ISO/IEC 14443-4 7.3: request INF = power level indication b8-b7 | WTXM b6-b1; the response carries the "
               "same WTXM with b8-b7 = 00; the cards of the power level cases do not answer a response with another coding (RFU "
               "value: protocol error) except the 'lenient-card' cases; a timed card answers FWT x WTXM (at most FWT_MAX) after the S(WTX) response, a shorter time-out given to "
               "exchange() loses that answer",
               "after a failed (chained) command the card keeps the blocks it received: the I-blocks of the next command continue "
               "that chain (nothing in ISO/IEC 14443-4 but a new activation ends a chain)",
               "the retry budget is the FWT derived one documented in DESIGN C12: min(int(1 s / FWT), 5) retries",
               "frames carry no CRC at the Device.exchange boundary; FSC accounts for it with +2",
               "SFGT is not judged"]
REQUIRED = ["exchanges", "executions_checked", "responses_compared", "frame_size_checked", "recovered", "reported_t4error",
            "recovery_required_checked", "pcd_I_chain", "card_I_chain", "pcd_RNAK", "pcd_RACK", "card_SWTX",
            "card_retransmit", "type4a", "type4b", "followup_checked", "card_gone_cases", "type4b_extended_atqb",
            "type4b_extended_atqb_pcd_chaining", "atqb_variant_exchanges", "atqb_variant_extended",
            "ats_variant_exchanges", "wtx_exchanges", "clean_success",
            "fault_L", "fault_l", "fault_C", "fault_c", "fault_d", "fault_d_answer_differs_from_duplicate",
            "pair_after_failed_exchange_checked", "pair_after_error_card_had_executed", "pair_after_error_card_had_not_executed",
            "pair_after_error_abandoned_command_chain_checked", "pair_after_error_last_block_received_checked",
            "pair_after_error_last_block_not_received_checked", "pair_after_recovery_checked",
            "burst_within_budget_checked", "budget0_fault_free_checked", "lost_pcd_chained_iblock", "long_chain_loss_cases",
            "wtx_power_level_exchanges", "wtx_power_level_lenient_card", "wtx_power_level_strict_card", "wtx_timed_exchanges", "wtx_timed_extensions_granted",
            "storm_wtx", "storm_rack", "storm_iloss", "storm_ended_with_t4error"]

FSC_TABLE = (16, 24, 32, 40, 48, 64, 96, 128, 256)


def budget(fwi):
    fwt = 4096 / 13.56E6 * (2 ** fwi)
    return min(int(1 / fwt), 5)


def stream(seed, n):
    out = bytearray()
    i = 0
    while len(out) < n:
        out += hashlib.blake2b(seed + i.to_bytes(4, "big"), digest_size=32).digest()
        i += 1
    return bytes(out[:n])


def rsp_for(apdu, rlen, sw):
    return stream(b"R" + bytes(apdu), rlen) + bytes(sw)


def pcd_chunk(cfg):
    return min(FSC_TABLE[cfg["fsci"]], cfg["max_send"]) - 3


def card_chunk(cfg):
    fsd = 256 if cfg["max_recv"] >= 256 else 128
    m = min(fsd, FSC_TABLE[cfg["fsci"]]) - 3
    if cfg.get("chunk"):
        m = max(1, min(cfg["chunk"], fsd - 3))
    return m


def nblocks(cfg, x):
    """frame exchanges of the fault free APDU exchange (without WTX)"""
    mc, mr = pcd_chunk(cfg), card_chunk(cfg)
    clen = wire_len(x)
    return max(1, -(-clen // mc)) + max(1, -(-(x["rlen"] + 2) // mr)) - 1


def wire_len(x):
    if x["via"] == "transceive":
        return x["clen"]
    d = x["clen"]
    return 4 + (1 + d if d else 0) + (1 if x.get("mrl") else 0)


def timed_activate(card, max_send, max_recv):
    """like vf.sim.tagdevice.activate, but the card uses its whole frame waiting time: a reader time-out below the
    card's FWT loses the response (the card has acted, the reader has stopped listening)"""
    import nfc.clf
    import nfc.tag
    from vf.sim.tagdevice import SimTagDevice, frontend

    class TimedDevice(SimTagDevice):
        fwt = 4096 / 13.56E6 * (2 ** card.fwi)
        fwt_max = 4096 / 13.56E6 * (2 ** 14)
        short_timeouts = 0
        wtx_waits = 0

        def send_cmd_recv_rsp(self, target, data, timeout):
            short = self.n_commands >= 1 and timeout is not None and timeout < self.fwt
            if (not short and timeout is not None and data is not None and len(data) == 2 and data[0] == 0xF2
                    and card.wtx_pending is not None and data[1] & 0x3F == card.wtx_pending[2] & 0x3F):
                # an S(WTX) response that acknowledges the pending request: the card uses the whole temporary frame
                # waiting time FWT x WTXM (at most FWT_MAX) it asked for (ISO/IEC 14443-4 7.3) before it answers
                need = min((card.wtx_pending[2] & 0x3F) * self.fwt, self.fwt_max)
                self.wtx_waits += 1
                short = timeout < need * (1 - 1e-9)
            if short:
                self.short_timeouts += 1
                inner = self.script
                self.script = lambda n, d: ("rsp_lost", nfc.clf.TimeoutError)
                try:
                    return SimTagDevice.send_cmd_recv_rsp(self, target, data, timeout)
                finally:
                    self.script = inner
            return SimTagDevice.send_cmd_recv_rsp(self, target, data, timeout)

    dev = TimedDevice(card, max_send=max_send, max_recv=max_recv)
    card.power_cycle()
    clf = frontend(dev)
    target = clf.sense(nfc.clf.RemoteTarget(card.brty))
    if target is None:
        return clf, dev, None
    return clf, dev, nfc.tag.activate(clf, target)


def ats_label(ats):
    if len(ats) < 2:
        return "ats-no-T0"
    return "ats-" + ("+".join(n for n, b in (("TA", 0x10), ("TB", 0x20), ("TC", 0x40)) if ats[1] & b) or "T0-only")


# ---------------------------------------------------------------------------------------------------------------
class Session(object):
    """one activation of a fresh card; exchanges are issued through the real tag object"""

    def __init__(self, cfg):
        import nfc.clf
        from vf.sim import t4t, tagdevice
        self.nfc_clf = nfc.clf
        self.cfg = cfg
        ext = cfg["kind"] == "B" and cfg.get("sfgi") is not None
        self.card = t4t.T4TCard(kind=cfg["kind"], fsci=cfg["fsci"], fwi=cfg["fwi"], resp_chunk=cfg.get("chunk"),
                                ats=cfg.get("ats"), sfgi=cfg["sfgi"] if ext else 0, ext_atqb=ext)
        self.cur = {}
        self.card.responder = self._respond
        if cfg.get("ats") is not None or cfg.get("timed"):
            self.clf, self.dev, self.tag = timed_activate(self.card, cfg["max_send"], cfg["max_recv"])
        else:
            self.clf, self.dev, self.tag = tagdevice.activate(self.card, max_send=cfg["max_send"], max_recv=cfg["max_recv"])

    def _respond(self, apdu):
        rlen, sw = self.cur.get(bytes(apdu), (3, b"\x90\x00"))
        return rsp_for(apdu, rlen, sw)

    def build(self, x):
        """-> (callable performing the exchange, APDU bytes on the wire, expected ('ret', bytes) | ('sw', int))"""
        ident = x["id"].to_bytes(2, "big")
        sw = bytes(x.get("sw", b"\x90\x00"))
        if x["via"] == "transceive":
            apdu = (b"\x90\xEC" + ident + stream(b"C" + ident, max(0, x["clen"] - 4)))[:x["clen"]]
            rsp = rsp_for(apdu, x["rlen"], sw) if apdu else b""
            self.cur[apdu] = (x["rlen"], sw)
            return (lambda: self.tag.transceive(apdu)), apdu, ("ret", rsp)
        data = stream(b"C" + ident, x["clen"])
        mrl = x.get("mrl", 0)
        apdu = b"\x90\xEC" + ident + (bytes([len(data)]) + data if data else b"") + (bytes([mrl & 255]) if mrl else b"")
        rsp = rsp_for(apdu, x["rlen"], sw)
        self.cur[apdu] = (x["rlen"], sw)
        chk = x.get("check", True)
        if chk and sw != b"\x90\x00":
            exp = ("sw", int.from_bytes(sw, "big"))
        else:
            exp = ("ret", rsp[:-2] if chk else rsp)
        return (lambda: self.tag.send_apdu(0x90, 0xEC, ident[0], ident[1], data or None, mrl, chk)), apdu, exp


def classify_wrong(got, exp, prev):
    """prev: an earlier response of the same session, or a list of them"""
    prevs = prev if isinstance(prev, (list, tuple)) else ([] if prev is None else [prev])
    if got != exp and any(got == p for p in prevs):
        return "stale"
    if len(got) < len(exp) and exp.startswith(got):
        return "truncated"
    if len(got) > len(exp) and got.startswith(exp):
        return "extended"
    if len(got) == len(exp):
        return "altered"
    return "other-length"


def clusters_within(pos, bud):
    """every cluster of fault positions (neighbours less than three frame exchanges apart, i.e. possibly on the same
    block or on the recovery of the same block) has at most `bud` members: each block then sees at most `bud` errors"""
    n, last = 0, None
    for p in pos:
        n = n + 1 if (last is not None and p - last < 3) else 1
        if n > bud:
            return False
        last = p
    return True


def last_block_received(frames):
    """did the card receive the last block of the reader that advances the block numbers (I-block or R(ACK); R(NAK) only
    asks) - after an exchange the reader gave up this decides whether the two block numbers are still in step"""
    last, got = None, False
    for _n, cmd, rsp in frames:
        if cmd is None or not (cmd[0] & 0xE2 == 0x02 or cmd[0] & 0xF6 == 0xA2):
            continue
        if cmd != last:
            last, got = cmd, False
        if not (isinstance(rsp, str) and (rsp.startswith("cmd_lost") or rsp == "dead")):
            got = True
    return got


STORM_BOUND = 400        # frames: 64 S(WTX) requests per block are tolerated by the reader, each may cost a retry cycle


def run_case(case, R, count=True):
    """execute one case; returns the list of (signature, text) violations (also recorded in R)

    case: cfg, x (the exchange under test) with script / dead_from / wtx* / storm keys at the top level;
          warm: fault free single block exchanges first;  pre: an exchange (dict with x, script, wtx ...) that runs under
          its own fault script before the one under test (pair cases: the exchange under test follows a failed or a
          recovered exchange on the same tag object);  follow: fault free exchange after a successful one"""
    import nfc.clf
    import nfc.tag
    import nfc.tag.tt4 as tt4
    from vf.sim.tagdevice import SimTagDevice
    from vf.sim.t4t import exc_tag_sig as exc_sig
    cfg = case["cfg"]
    viol = []

    def bad(sig, what):
        viol.append((sig, what))
        R.violation(sig, what, case)

    try:
        S = Session(cfg)
        if S.tag is None:
            raise ValueError("activation returned None")
    except Exception as e:            # noqa  activation is C08's subject; here it is a precondition
        if cfg.get("ats") is not None:
            R.count("ats_variant_not_activated_c08_subject")
        else:
            R.inconc("activation failed in C12 setup: %r %s" % (e, cfg))
        return viol
    card, dev = S.card, S.dev
    fsc = card.fsc
    answers = {}                         # frame number -> what the card really answered (None: mute)
    card_command = card.command

    def spy(data):
        r = card_command(data)
        answers[dev.n_commands - 1] = r
        return r

    card.command = spy
    history = []                         # card responses of earlier exchanges of this session (with and without SW)
    for w in range(case.get("warm", 0)):
        fn, apdu, exp = S.build({"via": "transceive", "clen": 5 + w, "rlen": 4, "id": 0xFF00 + w})
        try:
            history.append(bytes(fn()))
        except tt4.Type4TagCommandError as e:
            # a fault free single block exchange directly after activation (no script is installed yet)
            wctx = ("atqb-extended" if cfg.get("sfgi") is not None else "atqb-basic") if cfg.get("timed") else "plain"
            bad("fault-free-exchange-failed/%s" % wctx, "the fault free exchange before the one under test failed: errno %s" % e.errno)
            return viol
    TO, TE = nfc.clf.TimeoutError, nfc.clf.TransmissionError
    ext_atqb = cfg["kind"] == "B" and cfg.get("sfgi") is not None
    executed_before = []                 # APDUs of earlier exchanges under a script: [(apdu, times executed so far)]

    def one_exchange(st, pfx):
        """one exchange under the fault script of `st`; pfx: '' or 'after-error/' ... (what preceded it in this session)"""
        x = st["x"]
        fn, apdu, exp = S.build(x)
        base = dev.n_commands
        log0 = len(dev.log)
        card.reset_logs()
        script = {int(p): k for p, k in st.get("script", [])}
        dead_from = st.get("dead_from")
        storm = st.get("storm")
        storm_from = st.get("storm_from", 0)
        consumed = set()
        dups = {}

        def hook(n, data):
            i = n - base
            if dead_from is not None and i >= dead_from:
                consumed.add("dead")
                return ("cmd_lost", TO)
            if storm == "iloss" and i >= storm_from and data and data[0] & 0xE2 == 0x02:
                consumed.add("storm")
                return ("cmd_lost", TO)
            k = script.get(i)
            if k is None:
                return None
            if k == "d":
                # the card's previous block arrives (again) in place of the answer to this frame.  Only I- and S-blocks:
                # a repeated R(ACK) carries the block number that asks for a retransmission (PCD rule 6), which no
                # reader can tell from a genuine one
                dup = card.last
                if dup is None or dup[0] & 0xE6 == 0xA2:
                    if count:
                        R.count("fault_d_not_applicable")
                    return None
                consumed.add(i)
                dups[i] = bytes(dup)
                return ("replace", bytes(dup))
            consumed.add(i)
            if k == "L":
                return ("cmd_lost", TO)
            if k == "C":
                return ("cmd_lost", TE)
            return ("rsp_lost", TO if k == "l" else TE)

        wtx = set(st.get("wtx", []))
        wtxm = st.get("wtxm", 1)
        rounds = st.get("wtx_rounds", 1)
        if storm == "wtx":
            rounds = 10 ** 9
        wtx_kinds = set()

        def wtx_fn(c, out, rnd):
            if ((c.answer_no - 1) in wtx or (storm == "wtx" and c.answer_no - 1 >= storm_from)) and rnd < rounds:
                if out[0] & 0xE2 == 0x02:
                    wtx_kinds.add("rsp-chain" if c.resp_block_no >= 2 else "rsp-first")
                else:
                    wtx_kinds.add("cmd-chain")
                return wtxm
            return 0

        def rack_storm(c, data):
            if dev.n_commands - 1 - base >= storm_from and data[0] & 0xE2 == 0x02:
                consumed.add("storm")
                return bytes([0xA2 | ((data[0] & 1) ^ 1)])
            return None

        card.wtx_fn = wtx_fn if (wtx or storm == "wtx") else None
        card.wtx_power = st.get("wtx_pl", 0)
        card.wtx_strict = bool(st.get("wtx_strict", True))
        card.block_hook = rack_storm if storm == "rack" else None
        dev.script = hook
        if storm or (st.get("wtx_pl") and card.wtx_strict):
            dev.command_bound = base + STORM_BOUND
        else:
            dev.command_bound = base + 60 + 12 * (nblocks(cfg, x) + len(wtx) * rounds + len(script))
        short0 = getattr(dev, "short_timeouts", 0)
        outcome = None
        try:
            got = fn()
            outcome = ("ret", bytes(got) if got is not None else None)
        except tt4.Type4TagCommandError as e:
            outcome = ("t4err", e.errno)
        except SimTagDevice.Bound:
            outcome = ("bound", None)
        except BaseException as e:          # noqa
            outcome = ("escape", e)
        dev.script = None
        card.wtx_fn = None
        card.block_hook = None
        dev.command_bound = None
        nfaults = len([c for c in consumed if isinstance(c, int)])
        executed = [a for a, r in card.apdu_log]
        n_exec = executed.count(apdu) if apdu else 0
        earlier = [a for a, _n in executed_before]
        foreign = [a for a in executed if a != apdu and a not in earlier]
        if not apdu:
            ctx = "empty-apdu"
        elif "rsp-chain" in wtx_kinds:
            ctx = "wtx-rsp-chain"
        elif wtx_kinds:
            ctx = "wtx"
        else:
            ctx = "plain"
        if cfg.get("ats") is not None:
            ctx = ats_label(cfg["ats"])
            if count:
                R.count("ats_variant_exchanges")
                R.count("ats_variant_short_timeouts", dev.short_timeouts - short0)
        if cfg.get("timed") and cfg["kind"] == "B" and not st.get("wtx_timed"):
            ctx = "atqb-extended" if ext_atqb else "atqb-basic"
            if count:
                R.count("atqb_variant_exchanges")
                R.count("atqb_variant_extended" if ext_atqb else "atqb_variant_basic")
                R.count("atqb_variant_short_timeouts", dev.short_timeouts - short0)
        if wtx_kinds and st.get("wtx_pl") and not storm:
            # the card checks the coding of the S(WTX) response (b8-b7 = 00) unless it is a 'lenient' one
            ctx = "wtx-power-level" + ("" if card.wtx_strict else "/lenient-card")
        if st.get("wtx_timed"):
            ctx = "wtx-timed"
        if wtx_kinds and card.wtx_strict and card.wtx_rsp_pl_bits and not storm:
            ctx += "/power-level-echoed-in-response"
        if storm:
            ctx = "storm-" + storm
        ctx = pfx + ctx

        # ---- wire monitor
        n_frames = 0
        for n, cmd, rsp in dev.log[log0:]:
            if cmd is None:
                continue
            n_frames += 1
            if len(cmd) + 2 > fsc:
                bad("frame-size/block+crc>FSC", "reader sent a block of %d+2 bytes to a card with FSC %d" % (len(cmd), fsc))
            if len(cmd) > cfg["max_send"]:
                bad("frame-size/block>device-max-send", "block of %d bytes, device max_send %d" % (len(cmd), cfg["max_send"]))
            if count:
                pcb = cmd[0]
                if pcb & 0xE2 == 0x02:
                    R.count("pcd_I_chain" if pcb & 0x10 else "pcd_I")
                elif pcb & 0xF6 == 0xA2:
                    R.count("pcd_RACK")
                elif pcb & 0xF6 == 0xB2:
                    R.count("pcd_RNAK")
                elif pcb & 0xF7 == 0xF2:
                    R.count("pcd_SWTX")
                else:
                    R.count("pcd_other_block")
        n_dup_eff = len([i for i, d in dups.items() if answers.get(base + i) != d])
        if count:
            for n, cmd, rsp in dev.log[log0:]:
                if cmd is not None and cmd[0] & 0xF2 == 0x12 and isinstance(rsp, str) and rsp.startswith("cmd_lost"):
                    R.count("lost_pcd_chained_iblock")
                    R.seen("lost_chained_iblock_chain_length", -(-wire_len(x) // pcd_chunk(cfg)))
        if count:
            R.count("frame_size_checked", n_frames)
            R.count("frames", n_frames)
            R.max("frames_per_exchange", n_frames)
            for k, v in card.blocks.items():
                if v and k.startswith("tx_"):
                    R.count("card_" + k[3:], v)
            R.count("card_retransmit", card.blocks["retransmit"])
            R.count("card_ignored_blocks", card.blocks["ignored"])
            R.count("exchanges")
            R.count("type4a" if cfg["kind"] == "A" else "type4b")
            if ext_atqb:
                R.count("type4b_extended_atqb")
                R.seen("extended_atqb_sfgi", cfg["sfgi"])
                R.max("extended_atqb_sensb_res_len", len(card.sensb_res))
                if any(c is not None and c[0] & 0xF2 == 0x12 for _n, c, _r in dev.log[log0:]):
                    R.count("type4b_extended_atqb_pcd_chaining")
            R.seen("fsci", cfg["fsci"])
            R.seen("fwi", cfg["fwi"])
            R.seen("retry_budget", budget(cfg["fwi"]))
            R.seen("context", ctx)
            for c in consumed:
                if isinstance(c, int):
                    R.count("fault_" + script[c])
                    R.seen("fault_position", c)
            if dups:
                R.count("fault_d_answer_differs_from_duplicate", n_dup_eff)
                for d in dups.values():
                    R.seen("duplicated_block_kind", "I" if d[0] & 0xE2 == 0x02 else "S" if d[0] & 0xC0 == 0xC0 else "other")
            if wtx_kinds:
                R.count("wtx_exchanges")
                for k in wtx_kinds:
                    R.count("wtx_" + k)
                if st.get("wtx_pl") and not storm:
                    R.count("wtx_power_level_exchanges")
                    R.count("wtx_power_level_strict_card" if card.wtx_strict else "wtx_power_level_lenient_card")
                    R.count("wtx_responses_with_b8b7_set", card.wtx_rsp_pl_bits)
                    R.seen("wtx_request_inf", (st["wtx_pl"] & 3) << 6 | wtxm & 0x3F)
                if st.get("wtx_timed"):
                    R.count("wtx_timed_exchanges")
                    R.count("wtx_timed_extensions_granted", len(card.wtx_accepted))
                    R.count("wtx_timed_short_timeouts", dev.short_timeouts - short0)
                    R.seen("wtx_timed_wtxm", wtxm)
            if dead_from is not None:
                R.count("card_gone_cases")
            if storm:
                R.count("storm_" + storm)
                R.max("storm_frames", n_frames)

        # ---- exec monitor
        if count:
            R.count("executions_checked")
            R.count("card_executions", len(executed))
        if n_exec > 1:
            bad("executed-twice/%s" % ctx, "the card executed the same APDU %d times" % n_exec)
        for i, (a, n0) in enumerate(executed_before):
            n1 = executed.count(a)
            if n1:
                executed_before[i] = (a, n0 + n1)
                if n0 + n1 > 1:
                    bad("executed-twice/earlier-apdu/%s" % ctx, "the APDU of the preceding exchange was executed %d times in all" % (n0 + n1))
                elif count:
                    R.count("earlier_apdu_executed_late")
        if foreign:
            bad("foreign-apdu-executed/%s" % ctx, "the card executed %d APDU(s) that were never sent, first %s (sent %s)"
                % (len(foreign), foreign[0][:24].hex(), apdu[:24].hex()))

        # ---- response / error monitor
        ok = False
        kind = outcome[0]
        if kind == "ret":
            got = outcome[1]
            if count:
                R.count("responses_compared")
            if exp[0] == "ret":
                if got != exp[1]:
                    cls = classify_wrong(got or b"", exp[1], history)
                    if cls == "stale" and pfx.startswith("after-error/"):
                        bad("stale-response/%s" % ctx, "after a failed exchange the response of an earlier APDU was returned for the next APDU")
                    else:
                        bad("wrong-response/%s/%s" % (cls, ctx),
                            "returned %d bytes, the card's response has %d" % (len(got or b""), len(exp[1])))
                elif n_exec != 1 and apdu:
                    bad("returned-but-not-executed/%s" % ctx, "a response was returned but the card executed the APDU %d times" % n_exec)
                else:
                    ok = True
            else:
                bad("status-word-ignored/%s" % ctx, "card answered SW %04X, send_apdu returned data" % exp[1])
        elif kind == "t4err":
            if exp[0] == "sw" and outcome[1] == exp[1] and n_exec == 1:
                ok = True                      # the complete response is the status word; it was delivered as the documented error
            elif outcome[1] > 0 and not (exp[0] == "sw" and outcome[1] == exp[1]):
                bad("wrong-response/status-word/%s" % ctx, "Type4TagCommandError carries SW %04X the card never sent" % outcome[1])
            if count and not ok:
                R.count("reported_t4error")
                R.seen("reported_errno", outcome[1])
        elif kind == "bound":
            bad("nontermination/%s%s" % (ctx, "/card-gone" if dead_from is not None else ""),
                "exchange did not end within %d frames" % (dev.n_commands - base))
        else:
            e = outcome[1]
            bad("escape/%s/%s" % (ctx, exc_sig(e)), "exchange raised %r instead of Type4TagCommandError" % (e,))

        # ---- recovery clause: no block exchange sees more errors than the retry budget -> the exchange must succeed
        # (without any fault: at every FWI).  Not after a failed exchange, not with duplicated frames, not for storm cards
        pos = sorted(c for c in consumed if isinstance(c, int))
        bud = budget(cfg["fwi"])
        must = bool(dead_from is None and not storm and not dups and not pfx.startswith("after-error/") and apdu and clusters_within(pos, bud))
        if must:
            if count:
                R.count("recovery_required_checked")
                if not pos and bud == 0:
                    R.count("budget0_fault_free_checked")
                if any(b - a < 3 for a, b in zip(pos, pos[1:])):
                    R.count("burst_within_budget_checked")
                    R.max("burst_within_budget_faults", len(pos))
            if kind == "t4err" and not ok:
                bad("not-recovered/%s" % ctx, "%d fault(s), no block exchange with more than the retry budget of %d: "
                    "Type4TagCommandError errno %s" % (len(pos), bud, outcome[1]))
        if storm and kind == "t4err" and count:
            R.count("storm_ended_with_t4error")
        if ok and count:
            R.count("recovered" if nfaults else "clean_success")
        rsp_full = rsp_for(apdu, x["rlen"], bytes(x.get("sw", b"\x90\x00"))) if apdu else b""
        history.extend([rsp_full, rsp_full[:-2]])
        executed_before.append((apdu, n_exec))
        nontrivial = bool(nfaults or wtx_kinds or dead_from is not None or storm or n_frames > 1)
        return {"ok": ok, "kind": kind, "nfaults": nfaults, "exp": exp, "apdu": apdu, "ctx": ctx, "nontrivial": nontrivial,
                "frames": n_frames, "errno": outcome[1] if kind == "t4err" else None, "log": dev.log[log0:]}

    # ---- an exchange under its own fault script before the one under test (pair cases)
    pfx = ""
    pre_nontrivial = False
    if case.get("pre"):
        r0 = one_exchange(case["pre"], "")
        pre_nontrivial = r0["nontrivial"]
        if r0["kind"] in ("bound", "escape"):
            return viol, True, r0["frames"]
        if r0["ok"]:
            pfx = "after-recovery/" if r0["nfaults"] else "after-clean/"
        else:
            # the reader gave up; when that happened in the middle of a chained command the card still holds the part it got
            if len(card.rx):
                pfx = "after-error/abandoned-command-chain/"
            else:
                pfx = "after-error/last-block-%sreceived/" % ("" if last_block_received(r0["log"]) else "not-")
        if count:
            R.count("pair_" + pfx[:-1].replace("-", "_").replace("/", "_") + "_checked")
            if not r0["ok"]:
                R.count("pair_after_failed_exchange_checked")
                R.seen("pair_first_exchange_errno", r0["errno"])
                R.count("pair_after_error_card_had_executed" if executed_before[-1][1] else "pair_after_error_card_had_not_executed")
                R.seen("pair_first_exchange_failed_by", "".join(sorted({k for _p, k in case["pre"].get("script", [])})))

    # ---- the exchange under test
    r = one_exchange(case, pfx)
    ok, ctx, exp = r["ok"], r["ctx"], r["exp"]
    if count and pfx:
        R.count("pair_second_ok" if ok else "pair_second_not_ok")

    # ---- follow-up in the same session: block numbers still in step, nothing stale
    if ok and case.get("follow", True):
        fn2, apdu2, exp2 = S.build({"via": "transceive", "clen": 6, "rlen": 5, "id": 0xFE00})
        dev.command_bound = dev.n_commands + 40
        try:
            got2 = bytes(fn2())
            if got2 != exp2[1]:
                cls = "stale" if (exp[0] == "ret" and got2 == exp[1]) else classify_wrong(got2, exp2[1], None)
                bad("followup-wrong-response/%s/%s" % (cls, ctx), "the exchange after a successful one returned a wrong response")
            elif [a for a, r_ in card.apdu_log].count(apdu2) != 1:
                bad("followup-executed-not-once/%s" % ctx, "follow-up executed %d times" % [a for a, r_ in card.apdu_log].count(apdu2))
        except tt4.Type4TagCommandError as e:
            bad("followup-failed/%s" % ctx, "fault free exchange after a successful one failed: errno %s" % e.errno)
        except SimTagDevice.Bound:
            bad("followup-nontermination/%s" % ctx, "follow-up exchange did not end")
        except BaseException as e:      # noqa
            bad("followup-escape/%s/%s" % (ctx, exc_sig(e)), "follow-up raised %r" % (e,))
        dev.command_bound = None
        if count:
            R.count("followup_checked")
    return viol, bool(r["nontrivial"] or pre_nontrivial), r["frames"]


# ---------------------------------------------------------------------------------------------------------------
def shapes(cfg, rng, full):
    mc, mr = pcd_chunk(cfg), card_chunk(cfg)
    cl = sorted({1, 4, 5, max(1, mc - 1), mc, mc + 1, 2 * mc - 1, 2 * mc, 2 * mc + 1, 3 * mc})
    rt = sorted({2, 3, max(2, mr - 1), mr, mr + 1, 2 * mr - 1, 2 * mr, 2 * mr + 1, 3 * mr + 1})
    out = []
    for c in cl:
        for t in rt:
            out.append((c, t - 2))
    if not full:
        rng.shuffle(out)
    return out


def make_x(rng, clen, rlen, ident):
    via = rng.choice(["transceive", "transceive", "send_apdu"])
    x = {"via": via, "clen": clen, "rlen": rlen, "id": ident}
    if via == "send_apdu":
        # command data length so that the APDU on the wire has clen bytes where possible (short APDU: <= 255 data bytes)
        mrl = rng.choice([0, 0, 256, 1 + rlen % 255])
        d = max(0, min(255, clen - 5 - (1 if mrl else 0)))
        x.update({"clen": d, "mrl": mrl, "check": rng.random() < 0.7})
        if rng.random() < 0.15:
            x["sw"] = rng.choice([b"\x6A\x82", b"\x67\x00", b"\x62\x82"])
    return x


def plan(tier, seed):
    combos = [(k, f) for f in range(9) for k in "AB"]            # 18
    n = 16
    shards = [{"combos": []} for _ in range(n)]
    for i, c in enumerate(combos):
        shards[i % n]["combos"].append(list(c))
    for i, s in enumerate(shards):
        s["nshards"] = n
        s["pairs_shapes"] = 24 if tier == "quick" else 81
        s["triples_shapes"] = 0 if tier == "quick" else 6
        s["max_frames"] = 10 if tier == "quick" else 16
        s["random"] = 1500 if tier == "quick" else 40000
        s["wtx_shapes"] = 5 if tier == "quick" else 30
        s["timeout"] = 900 if tier == "quick" else 3600          # wall-clock guards only (INCONCLUSIVE); generous: shared, loaded machine
    return shards


FWI_CYCLE = [4, 0, 8, 9, 10, 11, 12, 14, 1, 2, 3, 5, 6, 7, 13]
DEV_CYCLE = [(290, 290), (290, 255), (64, 290), (40, 64), (290, 290), (19, 290)]


def pick_sfgi(fsci, fwi, salt):
    """an SFGI (0..14) that differs from the FSCI and the FWI of the same ATQB"""
    cand = [v for v in range(15) if v != fsci and v != fwi]
    return cand[salt % len(cand)]


def atqb_triples():
    """(FSCI, FWI, SFGI | None): the basic ATQB for every (FSCI, FWI) and the extended ATQB for every combination of
    pairwise different values"""
    out = []
    for fsci in range(9):
        for fwi in range(15):
            out.append((fsci, fwi, None))
            for sfgi in range(15):
                if len({fsci, fwi, sfgi}) == 3:
                    out.append((fsci, fwi, sfgi))
    return out


def run(desc, R, rng):
    if desc["shard"] == 0:
        from vf.sim import t4t
        failures = t4t.selftest()           # card model vs the literal transcripts of tests/test_tag_tt4.py
        R.count("sim_selftest_run")
        if failures:
            R.inconc("card model self-test failed: %s" % failures[:3])
    ident = itertools.count(1)
    thorough = desc.get("tier") == "thorough"
    n_cfg = 0
    for kind, fsci in desc["combos"]:
        variants = []
        for j in range(3 if not thorough else 6):
            fwi = FWI_CYCLE[(desc["shard"] * 3 + fsci + j * 5 + n_cfg) % len(FWI_CYCLE)]
            ms, mr = DEV_CYCLE[(desc["shard"] + j + fsci) % len(DEV_CYCLE)] if j else (290, 290)
            chunk = None if j < 2 else rng.choice([None, 1, 5, FSC_TABLE[fsci] - 4])
            cfg = {"kind": kind, "fsci": fsci, "fwi": fwi, "max_send": ms, "max_recv": mr, "chunk": chunk}
            if kind == "B" and (j + fsci) % 2 == 1:
                # extended ATQB (13 byte SENSB_RES): FSCI, FWI and SFGI pairwise different
                if fwi == fsci:
                    cfg["fwi"] = fwi = FWI_CYCLE[(FWI_CYCLE.index(fwi) + 1) % len(FWI_CYCLE)]
                cfg["sfgi"] = pick_sfgi(fsci, fwi, desc["shard"] + j)
            variants.append(cfg)
        n_cfg += 1
        for vi, cfg in enumerate(variants):
            run_cfg(desc, R, rng, cfg, ident, primary=(vi == 0))
    # every FWI value gets at least the single fault sweep on one shape (retry budget 0..5)
    for fwi in range(15):
        kind, fsci = desc["combos"][0]
        cfg = {"kind": kind, "fsci": fsci, "fwi": fwi, "max_send": 290, "max_recv": 290, "chunk": None}
        if kind == "B" and fwi != fsci and fwi & 1:
            cfg["sfgi"] = pick_sfgi(fsci, fwi, fwi)
        mc, mr = pcd_chunk(cfg), card_chunk(cfg)
        x = {"via": "transceive", "clen": mc + 1, "rlen": mr, "id": next(ident) & 0xFFFF}
        sweep(R, cfg, x, 1, desc["max_frames"], warm=fwi & 1)
    # Type 4B activation variants: basic ATQB for every (FSCI, FWI), extended ATQB for every (FSCI, FWI, SFGI) with pairwise
    # different values; command and response chaining, fault free and with one lost response; the card uses its whole FWT
    triples = atqb_triples()
    for fsci, fwi, sfgi in triples[desc["shard"]::desc.get("nshards", 16)]:
        cfg = {"kind": "B", "fsci": fsci, "fwi": fwi, "max_send": 290, "max_recv": 290, "chunk": None, "timed": True}
        if sfgi is not None:
            cfg["sfgi"] = sfgi
        mc, mr = pcd_chunk(cfg), card_chunk(cfg)
        x = {"via": "transceive", "clen": 2 * mc + 1, "rlen": mr - 1, "id": next(ident) & 0xFFFF}
        emit(R, {"cfg": cfg, "x": x, "warm": 0})
        emit(R, {"cfg": cfg, "x": x, "warm": 1, "script": [[1, "l"]]})
    # Type 4A activation variants: every subset of TA(1)/TB(1)/TC(1) x historical bytes; the card uses its whole FWT
    if desc["shard"] % 4 == 0:
        from vf.sim.t4t import build_ats
        for sub in range(8):
            for nh in (0, 1, 2, 5, 15):
                for fwi in (1, 4, 8, 11):
                    card_fwi = fwi if sub & 2 else 4
                    ats = build_ats(5, fwi, 0, ta=0x80 if sub & 1 else None, tb=bool(sub & 2), tc=0x02 if sub & 4 else None,
                                    hist=stream(b"H", nh))
                    cfg = {"kind": "A", "fsci": 5, "fwi": card_fwi, "max_send": 290, "max_recv": 290, "chunk": None, "ats": ats}
                    x = {"via": "transceive", "clen": 70, "rlen": 70, "id": next(ident) & 0xFFFF}
                    emit(R, {"cfg": cfg, "x": x, "warm": 0})
                    emit(R, {"cfg": cfg, "x": x, "warm": 0, "script": [[0, "l"]]})
    new_classes(desc, R, rng, ident)
    R.exhaustive = False


PAIR_FWI = [(4, 12, 11), (8, 13, 10), (0, 14, 11), (9, 12, 10)]       # retry budgets 5, 0, 1 | 3


def plain_cfg(kind, fsci, fwi, salt=0, **kw):
    cfg = {"kind": kind, "fsci": fsci, "fwi": fwi, "max_send": 290, "max_recv": 290, "chunk": None}
    if kind == "B" and salt & 1 and fwi != fsci:
        cfg["sfgi"] = pick_sfgi(fsci, fwi, salt)
    cfg.update(kw)
    return cfg


def single_fault_scripts(nb, kinds, extra=2):
    return [[]] + [[[p, k]] for p in range(nb + extra) for k in kinds]


def new_classes(desc, R, rng, ident):
    thorough = desc.get("tier") == "thorough"
    sh = desc["shard"]
    kind, fsci = desc["combos"][0]
    nid = lambda: next(ident) & 0xFFFF       # noqa

    def shape(cfg, cblocks, rblocks, via="transceive"):
        mc, mr = pcd_chunk(cfg), card_chunk(cfg)
        clen = 5 if cblocks == 1 else (cblocks - 1) * mc + 2
        rlen = 4 if rblocks == 1 else (rblocks - 1) * mr + 1
        return {"via": via, "clen": clen, "rlen": rlen, "id": nid()}

    # ---- pairs: an exchange that fails (more errors on one block than the retry budget, or a duplicated block), then a
    # second APDU on the same tag object, fault free and under every single fault
    fwis = PAIR_FWI[sh % 4]
    for ci, fwi in enumerate(fwis if thorough else fwis[:2]):
        cfg = plain_cfg(kind, fsci, fwi, salt=sh + ci)
        b = budget(fwi)
        for cb, rb in ((1, 1), (2, 1), (1, 2)) + (((2, 2), (3, 1)) if thorough else ()):
            x1 = shape(cfg, cb, rb)
            nb1 = nblocks(cfg, x1)
            fails = [[[p + j, k] for j in range(b + 1)] for p in range(nb1) for k in ("lcLC" if thorough else "lcL")]
            fails += [[[p, "d"]] for p in range(nb1)]
            for fscript in fails:
                for cb2, rb2, kinds in ((1, 1, "LlCc"), (2, 2, "LlCc" if thorough else "Ll")):
                    x2 = shape(cfg, cb2, rb2)
                    for s2 in single_fault_scripts(nblocks(cfg, x2), kinds):
                        emit(R, {"cfg": cfg, "warm": 1, "pre": {"x": dict(x1, id=nid()), "script": fscript},
                                 "x": dict(x2, id=nid()), "script": s2})
    # ---- pairs: a recovered exchange N, then a faulted exchange N+1 (block number bookkeeping after R(ACK)/R(NAK) recovery)
    fwi = FWI_CYCLE[(sh * 7 + 3) % len(FWI_CYCLE)]
    if budget(fwi) == 0:
        fwi = 4
    cfg = plain_cfg(kind, fsci, fwi, salt=sh)
    for cb, rb in ((1, 1), (2, 1), (1, 2), (2, 2)) if thorough else ((2, 1), (1, 2), (1, 1)):
        x1 = shape(cfg, cb, rb)
        for s1 in single_fault_scripts(nblocks(cfg, x1), "LlCc", extra=1)[1:]:
            for cb2, rb2 in ((2, 2), (1, 1)) if thorough else ((2, 2),):
                x2 = shape(cfg, cb2, rb2)
                for s2 in single_fault_scripts(nblocks(cfg, x2), "LlCc" if thorough else "Llc"):
                    emit(R, {"cfg": cfg, "warm": sh & 1, "pre": {"x": dict(x1, id=nid()), "script": s1},
                             "x": dict(x2, id=nid()), "script": s2})
    # ---- budget-exact recovery: k consecutive errors on one block (stride 1: the recovery block fails as well, stride 2:
    # the repeated I-block fails again), k = 2 .. budget + 1
    for ci, fwi in enumerate(PAIR_FWI[(sh + 1) % 4] + PAIR_FWI[(sh + 2) % 4] if thorough else PAIR_FWI[(sh + 1) % 4]):
        cfg = plain_cfg(kind, fsci, fwi, salt=sh + ci)
        b = budget(fwi)
        for cb, rb in ((1, 1), (2, 2), (3, 1), (1, 3)):
            x = shape(cfg, cb, rb, via="send_apdu" if (cb == 1 and ci & 1) else "transceive")
            if x["via"] == "send_apdu":
                x.update({"clen": 1, "mrl": 0, "check": True})
            nb = nblocks(cfg, x)
            emit(R, {"cfg": cfg, "x": dict(x, id=nid()), "warm": ci & 1})
            for p in range(nb):
                for k in range(2, b + 2):
                    for stride in (1, 2):
                        for ks in ["L" * k, "l" * k, "C" * k, "c" * k, "".join(rng.choice("LlCc") for _ in range(k))]:
                            emit(R, {"cfg": cfg, "x": dict(x, id=nid()), "warm": p & 1,
                                     "script": [[p + j * stride, ks[j]] for j in range(k)]})
                            R.count("burst_scripts")
    # ---- a fault free exchange succeeds at every FWI (retry budget 0 included)
    for fwi in range(15):
        cfg = plain_cfg(kind, fsci, fwi, salt=fwi)
        for cb, rb in ((1, 1), (2, 2), (3, 3)):
            emit(R, {"cfg": cfg, "x": shape(cfg, cb, rb), "warm": fwi & 1})
    # ---- storm cards: endless S(WTX), R(ACK) with the other block number for every I-block, every I-block lost
    for ci, fwi in enumerate((4, 11, 13) if thorough else (FWI_CYCLE[sh % len(FWI_CYCLE)],)):
        cfg = plain_cfg(kind, fsci, fwi, salt=sh)
        for cb, rb in ((1, 1), (2, 2)):
            for storm in ("wtx", "rack", "iloss"):
                for sf in range(cb + rb - 1 if storm == "wtx" else cb):
                    emit(R, {"cfg": cfg, "x": shape(cfg, cb, rb), "warm": sf & 1, "storm": storm, "storm_from": sf,
                             "wtxm": rng.choice([1, 59]), "follow": False})
    # ---- long command chains: a chained (non-final) I-block lost on the way to the card, every chain length
    for fs in ((0, 1, 2) if thorough else (sh % 3,)):
        cfg = plain_cfg(kind, fs, (4, 0, 8, 9, 10, 11, 2, 7)[(sh + fs) % 8], salt=sh)        # retry budget >= 1
        mc = pcd_chunk(cfg)
        for n in range(2, 25):
            x = {"via": "transceive", "clen": rng.randrange((n - 1) * mc + 1, n * mc + 1), "rlen": rng.choice([2, 20]), "id": nid()}
            where = sorted(set(range(n - 1)) if thorough else {0, n - 2, rng.randrange(n - 1)})
            for p in where:
                for k in "LC":
                    emit(R, {"cfg": cfg, "x": dict(x, id=nid()), "warm": n & 1, "script": [[p, k]]})
                    R.count("long_chain_loss_cases" if n > 10 else "short_chain_loss_cases")
    # ---- waiting time extension, timed: the card answers at the end of the FWT x WTXM it asked for
    tf = [(12, 0, 9), (14, 4, 11), (13, 8, 10), (12, 1, 5)][sh % 4]
    for fwi in (tf + (14, 12, 4, 0) if thorough else tf):
        cfg = plain_cfg(kind, fsci, fwi, salt=sh, timed=True)
        x = shape(cfg, 2, 2)
        for w in range(3):
            for wtxm in (1, 2, 31, 59):
                for pl in (0, 1 + (wtxm + w) % 3):
                    emit(R, {"cfg": cfg, "x": dict(x, id=nid()), "warm": w & 1, "wtx": [w], "wtxm": wtxm, "wtx_pl": pl,
                             "wtx_rounds": 1 + (wtxm & 1), "wtx_timed": True})


def _no_ids(o):
    if isinstance(o, dict):
        return {k: _no_ids(v) for k, v in o.items() if k != "id"}
    if isinstance(o, (list, tuple)):
        return [_no_ids(v) for v in o]
    return o


def emit(R, case):
    res = run_case(case, R)
    if len(res) != 3:
        return
    viol, nontrivial, frames = res
    R.case(_no_ids(case), nontrivial=nontrivial)
    return frames


def sweep(R, cfg, x, max_faults, max_frames, warm=0, wtx=(), kinds="LlCc", extra=None):
    """exhaustive scripts with up to max_faults faults over the frame positions of this exchange"""
    nb = nblocks(cfg, x) + len(wtx)
    if nb > max_frames:
        return 0
    n = 0
    span = nb + 2          # retransmissions lengthen the exchange; positions past the end are never consumed
    for k in range(1, max_faults + 1):
        span_k = span + 2 * (k - 1)
        for pos in itertools.combinations(range(span_k), k):
            for ks in itertools.product(kinds, repeat=k):
                case = {"cfg": cfg, "x": x, "warm": warm, "script": [[p, c] for p, c in zip(pos, ks)]}
                if wtx:
                    case["wtx"] = list(wtx)
                if extra:
                    case.update(extra)
                emit(R, case)
                n += 1
    R.count("enumerated_scripts", n)
    R.count("enumerated_%d_fault_sweeps" % max_faults)
    return n


def run_cfg(desc, R, rng, cfg, ident, primary):
    thorough = desc.get("tier") == "thorough"
    shp = shapes(cfg, rng, full=False)
    # fault free run of every shape (structure: chaining both ways), both block number parities
    for (c, r) in shp:
        x = make_x(rng, c, r, next(ident) & 0xFFFF)
        emit(R, {"cfg": cfg, "x": x, "warm": rng.randrange(2)})
    R.sample({"cfg": cfg, "shapes": len(shp), "pcd_chunk": pcd_chunk(cfg), "card_chunk": card_chunk(cfg)})
    # single faults: every shape; pairs: a subset (all when thorough and primary)
    n_pairs = desc["pairs_shapes"] if primary else max(2, desc["pairs_shapes"] // 4)
    for si, (c, r) in enumerate(shp):
        x = make_x(rng, c, r, next(ident) & 0xFFFF)
        warm = si & 1
        if si < n_pairs:
            sweep(R, cfg, x, 2, desc["max_frames"], warm)
        else:
            sweep(R, cfg, x, 1, desc["max_frames"], warm)
        if primary and si < desc["triples_shapes"]:
            sweep(R, cfg, x, 3, 8, warm, kinds="Llc")
        # a duplicated / late block of the card in place of the expected one, at every position
        if primary or si < 10:
            sweep(R, cfg, dict(x, id=next(ident) & 0xFFFF), 1, desc["max_frames"], 1, kinds="d")
        if thorough and primary and si < 12:
            sweep(R, cfg, dict(x, id=next(ident) & 0xFFFF), 2, desc["max_frames"], 1, kinds="dl")
    # card gone from frame j, for every j
    for (c, r) in shp[:6 if not thorough else 30]:
        x = make_x(rng, c, r, next(ident) & 0xFFFF)
        for j in range(nblocks(cfg, x) + 1):
            emit(R, {"cfg": cfg, "x": x, "warm": j & 1, "dead_from": j})
            # the card disappears after a recoverable fault
            if j:
                emit(R, {"cfg": cfg, "x": x, "warm": 0, "dead_from": j + 2, "script": [[j - 1, rng.choice("Llc")]]})
    # WTX at every answer position, alone and with every single fault
    for (c, r) in shp[:desc["wtx_shapes"] if primary else 2]:
        x = make_x(rng, c, r, next(ident) & 0xFFFF)
        nb = nblocks(cfg, x)
        if nb > desc["max_frames"]:
            continue
        for w in range(nb):
            for rounds in (1, 2):
                emit(R, {"cfg": cfg, "x": x, "warm": w & 1, "wtx": [w], "wtxm": rng.choice([1, 2, 59]), "wtx_rounds": rounds})
            sweep(R, cfg, x, 1, desc["max_frames"] + 1, warm=w & 1, wtx=(w,), kinds="Llc")
            # the card supports the power level indication (b8-b7 of the INF byte of its S(WTX) requests)
            pl = 1 + (w + nb) % 3
            emit(R, {"cfg": cfg, "x": dict(x, id=next(ident) & 0xFFFF), "warm": w & 1, "wtx": [w], "wtxm": rng.choice([1, 2, 30, 59]),
                     "wtx_rounds": 1 + (w & 1), "wtx_pl": pl, "wtx_strict": (w + nb) % 3 != 0})
            if w == nb // 2:
                sweep(R, cfg, dict(x, id=next(ident) & 0xFFFF), 1, desc["max_frames"] + 1, warm=1, wtx=(w,), kinds="d")
                sweep(R, cfg, dict(x, id=next(ident) & 0xFFFF), 1, desc["max_frames"] + 1, warm=w & 1, wtx=(w,), kinds="Llc",
                      extra={"wtx_pl": pl, "wtxm": 1 + (w * 7 + nb) % 59})
    # empty APDU (an I-block without INF is a legal block)
    if primary:
        emit(R, {"cfg": cfg, "x": {"via": "transceive", "clen": 0, "rlen": 0, "id": 0}, "warm": 0, "follow": False})
    # random scripts with up to 5 faults on longer exchanges
    mc, mr = pcd_chunk(cfg), card_chunk(cfg)
    for _ in range(desc["random"] // (1 if primary else 3)):
        c = rng.choice([rng.randrange(1, 6 * mc + 2), mc * rng.randrange(1, 7) + rng.choice([-1, 0, 1])])
        r = rng.choice([rng.randrange(0, 6 * mr), mr * rng.randrange(1, 7) + rng.choice([-3, -2, -1])])
        x = make_x(rng, max(1, c), max(0, r), next(ident) & 0xFFFF)
        nb = nblocks(cfg, x)
        nf = rng.choice([1, 2, 3, 3, 4, 5])
        script = sorted({rng.randrange(nb + 2 * nf) for _ in range(nf)})
        case = {"cfg": cfg, "x": x, "warm": rng.randrange(2), "script": [[p, rng.choice("LlCc")] for p in script]}
        if rng.random() < 0.15:
            case["wtx"] = sorted({rng.randrange(nb) for _ in range(rng.choice([1, 2]))})
            case["wtxm"] = rng.choice([1, 3, 59])
        if rng.random() < 0.05:
            case["dead_from"] = rng.randrange(nb + 4)
        emit(R, case)
        R.count("random_scripts")


def replay(case, R):
    res = run_case(case, R, count=True)
    if len(res) == 3:
        R.case("replay", nontrivial=res[1])
