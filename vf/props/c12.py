"""C12 - ISO-DEP: each APDU is executed at most once and its complete response is returned, or a
Type4TagCommandError is raised; no block exceeds the card's frame size.

Real Type4ATag / Type4BTag objects, built by the real nfc.tag.activate() (RATS / ATTRIB) on a real
ContactlessFrontend over SimTagDevice, talk to the ISO/IEC 14443-4 PICC-rule card model vf.sim.t4t.T4TCard.  The card
runs an echo application: every command gets a response that is a function of the command bytes with a chosen length,
and the card logs every execution.  A block level fault script assigns to the n-th frame exchange of the observed
APDU exchange one of
    L  command lost (card sees nothing, reader times out)        C  command corrupted (card ignores it -> time-out)
    l  response lost (card acted, reader times out)              c  response corrupted (reader gets TransmissionError)
or lets the card leave the field from exchange j on ("dead").  WTX requests replace chosen card answers.

Monitors
  exec      the card executed the APDU under test at most once, and nothing it was not sent
  response  a returned value is exactly the card's response to *that* APDU (not truncated / extended / stale);
            a follow-up exchange in the same session returns its own response
  error     every failure is a Type4TagCommandError (status word errors carry the SW)
  frame     every block the reader sent has len(block)+2 <= FSC and len(block) <= device max_send
  recovery  a single fault per block exchange (faults at least three frame exchanges apart), retry budget >= 1:
            the exchange must succeed
  bounded   the exchange ends within a bounded number of frames (also when the card is gone)
"""
import hashlib
import itertools


ID = "C12"
LEVEL = "fault_enumeration"
RULE = ("case = (activation config: Type 4A/4B, FSCI 0-8, FWI 0-14, device max_send/max_recv, card response block size; Type 4B "
        "with the basic 12-byte and the extended 13-byte ATQB whose 4th protocol info byte carries an SFGI different from "
        "FSCI and FWI: in the fault enumeration every second 4B configuration, plus the enumeration of every (FSCI, FWI, "
        "SFGI) with pairwise different values on a card that uses its whole FWT) x "
        "(command length, response length around multiples of the block payload, transceive / send_apdu, status word) x "
        "(WTX positions) x (fault script over the frame exchanges of the APDU exchange); scripts are enumerated "
        "exhaustively for <= 2 faults (thorough <= 3) over {L,l,C,c} x positions for exchanges of <= 10 (16) frames, "
        "every 'card gone from frame j', every single WTX position x every single fault, random scripts with up to 5 "
        "faults beyond; distinct by the whole descriptor; non-trivial if a fault was consumed, a WTX was sent or "
        "chaining took place")
ASSUMPTIONS = ["in the ATS variant and ATQB variant cases the card answers at the end of its frame waiting time: a time-out handed to "
               "exchange() that is shorter than the card's FWT loses the response (elsewhere time-out values are not judged)",
               "the simulated reader device polls like nfc.clf.rcs380 (SENSB_REQ 05 00 10: extended ATQB supported), so the 13-byte "
               "extended ATQB of ISO/IEC 14443-3 7.9.4 is a conformant answer; FSC and FWI are the card model's own configuration",
               "vf.sim.t4t.T4TCard follows the PICC rules of ISO/IEC 14443-4 7.5.4 (block numbering, rules 9-13, D, E)",
               "a corrupted command is ignored by the card (it cannot tell it from noise) and shows as a time-out",
               "the retry budget is the FWT derived one documented in DESIGN C12: min(int(1 s / FWT), 5) retries",
               "frames carry no CRC at the Device.exchange boundary; FSC accounts for it with +2",
               "SFGT is not judged"]
REQUIRED = ["exchanges", "executions_checked", "responses_compared", "frame_size_checked", "recovered", "reported_t4error",
            "recovery_required_checked", "pcd_I_chain", "card_I_chain", "pcd_RNAK", "pcd_RACK", "card_SWTX",
            "card_retransmit", "type4a", "type4b", "followup_checked", "card_gone_cases", "type4b_extended_atqb",
            "type4b_extended_atqb_pcd_chaining", "atqb_variant_exchanges", "atqb_variant_extended"]

FSC_TABLE = (16, 24, 32, 40, 48, 64, 96, 128, 256)


def budget(fwi):
    fwt = 4096 / 13.56E6 * (2 ** fwi)
    return min(int(1 / fwt), 5)


def stream(seed, n):
    out = bytearray()
    i = 0
    while len(out) < n:
        out += hashlib.blake2b(seed + i.to_bytes(4, "big"), digest_size=32).digest()
        i += 1
    return bytes(out[:n])


def rsp_for(apdu, rlen, sw):
    return stream(b"R" + bytes(apdu), rlen) + bytes(sw)


def pcd_chunk(cfg):
    return min(FSC_TABLE[cfg["fsci"]], cfg["max_send"]) - 3


def card_chunk(cfg):
    fsd = 256 if cfg["max_recv"] >= 256 else 128
    m = min(fsd, FSC_TABLE[cfg["fsci"]]) - 3
    if cfg.get("chunk"):
        m = max(1, min(cfg["chunk"], fsd - 3))
    return m


def nblocks(cfg, x):
    """frame exchanges of the fault free APDU exchange (without WTX)"""
    mc, mr = pcd_chunk(cfg), card_chunk(cfg)
    clen = wire_len(x)
    return max(1, -(-clen // mc)) + max(1, -(-(x["rlen"] + 2) // mr)) - 1


def wire_len(x):
    if x["via"] == "transceive":
        return x["clen"]
    d = x["clen"]
    return 4 + (1 + d if d else 0) + (1 if x.get("mrl") else 0)


def timed_activate(card, max_send, max_recv):
    """like vf.sim.tagdevice.activate, but the card uses its whole frame waiting time: a reader time-out below the
    card's FWT loses the response (the card has acted, the reader has stopped listening)"""
    import nfc.clf
    import nfc.tag
    from vf.sim.tagdevice import SimTagDevice, frontend

    class TimedDevice(SimTagDevice):
        fwt = 4096 / 13.56E6 * (2 ** card.fwi)
        short_timeouts = 0

        def send_cmd_recv_rsp(self, target, data, timeout):
            if self.n_commands >= 1 and timeout is not None and timeout < self.fwt:
                self.short_timeouts += 1
                inner = self.script
                self.script = lambda n, d: ("rsp_lost", nfc.clf.TimeoutError)
                try:
                    return SimTagDevice.send_cmd_recv_rsp(self, target, data, timeout)
                finally:
                    self.script = inner
            return SimTagDevice.send_cmd_recv_rsp(self, target, data, timeout)

    dev = TimedDevice(card, max_send=max_send, max_recv=max_recv)
    card.power_cycle()
    clf = frontend(dev)
    target = clf.sense(nfc.clf.RemoteTarget(card.brty))
    if target is None:
        return clf, dev, None
    return clf, dev, nfc.tag.activate(clf, target)


def ats_label(ats):
    if len(ats) < 2:
        return "ats-no-T0"
    return "ats-" + ("+".join(n for n, b in (("TA", 0x10), ("TB", 0x20), ("TC", 0x40)) if ats[1] & b) or "T0-only")


# ---------------------------------------------------------------------------------------------------------------
class Session(object):
    """one activation of a fresh card; exchanges are issued through the real tag object"""

    def __init__(self, cfg):
        import nfc.clf
        from vf.sim import t4t, tagdevice
        self.nfc_clf = nfc.clf
        self.cfg = cfg
        ext = cfg["kind"] == "B" and cfg.get("sfgi") is not None
        self.card = t4t.T4TCard(kind=cfg["kind"], fsci=cfg["fsci"], fwi=cfg["fwi"], resp_chunk=cfg.get("chunk"),
                                ats=cfg.get("ats"), sfgi=cfg["sfgi"] if ext else 0, ext_atqb=ext)
        self.cur = {}
        self.card.responder = self._respond
        if cfg.get("ats") is not None or cfg.get("timed"):
            self.clf, self.dev, self.tag = timed_activate(self.card, cfg["max_send"], cfg["max_recv"])
        else:
            self.clf, self.dev, self.tag = tagdevice.activate(self.card, max_send=cfg["max_send"], max_recv=cfg["max_recv"])

    def _respond(self, apdu):
        rlen, sw = self.cur.get(bytes(apdu), (3, b"\x90\x00"))
        return rsp_for(apdu, rlen, sw)

    def build(self, x):
        """-> (callable performing the exchange, APDU bytes on the wire, expected ('ret', bytes) | ('sw', int))"""
        ident = x["id"].to_bytes(2, "big")
        sw = bytes(x.get("sw", b"\x90\x00"))
        if x["via"] == "transceive":
            apdu = (b"\x90\xEC" + ident + stream(b"C" + ident, max(0, x["clen"] - 4)))[:x["clen"]]
            rsp = rsp_for(apdu, x["rlen"], sw) if apdu else b""
            self.cur[apdu] = (x["rlen"], sw)
            return (lambda: self.tag.transceive(apdu)), apdu, ("ret", rsp)
        data = stream(b"C" + ident, x["clen"])
        mrl = x.get("mrl", 0)
        apdu = b"\x90\xEC" + ident + (bytes([len(data)]) + data if data else b"") + (bytes([mrl & 255]) if mrl else b"")
        rsp = rsp_for(apdu, x["rlen"], sw)
        self.cur[apdu] = (x["rlen"], sw)
        chk = x.get("check", True)
        if chk and sw != b"\x90\x00":
            exp = ("sw", int.from_bytes(sw, "big"))
        else:
            exp = ("ret", rsp[:-2] if chk else rsp)
        return (lambda: self.tag.send_apdu(0x90, 0xEC, ident[0], ident[1], data or None, mrl, chk)), apdu, exp


def classify_wrong(got, exp, prev):
    if prev is not None and got == prev and got != exp:
        return "stale"
    if len(got) < len(exp) and exp.startswith(got):
        return "truncated"
    if len(got) > len(exp) and got.startswith(exp):
        return "extended"
    if len(got) == len(exp):
        return "altered"
    return "other-length"


def run_case(case, R, count=True):
    """execute one case; returns the list of (signature, text) violations (also recorded in R)"""
    import nfc.clf
    import nfc.tag
    import nfc.tag.tt4 as tt4
    from vf.sim.tagdevice import SimTagDevice
    from vf.sim.t4t import exc_tag_sig as exc_sig
    cfg, x = case["cfg"], case["x"]
    viol = []

    def bad(sig, what):
        viol.append((sig, what))
        R.violation(sig, what, case)

    try:
        S = Session(cfg)
        if S.tag is None:
            raise ValueError("activation returned None")
    except Exception as e:            # noqa  activation is C08's subject; here it is a precondition
        if cfg.get("ats") is not None:
            R.count("ats_variant_not_activated_c08_subject")
        else:
            R.inconc("activation failed in C12 setup: %r %s" % (e, cfg))
        return viol
    card, dev = S.card, S.dev
    fsc = card.fsc
    prev_rsp = None
    for w in range(case.get("warm", 0)):
        fn, apdu, exp = S.build({"via": "transceive", "clen": 5 + w, "rlen": 4, "id": 0xFF00 + w})
        try:
            prev_rsp = bytes(fn())
        except tt4.Type4TagCommandError as e:
            # a fault free single block exchange directly after activation (no script is installed yet)
            wctx = ("atqb-extended" if cfg.get("sfgi") is not None else "atqb-basic") if cfg.get("timed") else "plain"
            bad("fault-free-exchange-failed/%s" % wctx, "the fault free exchange before the one under test failed: errno %s" % e.errno)
            return viol
    # ---- the exchange under test
    fn, apdu, exp = S.build(x)
    base = dev.n_commands
    log0 = len(dev.log)
    card.reset_logs()
    script = {int(p): k for p, k in case.get("script", [])}
    dead_from = case.get("dead_from")
    consumed = set()
    TO, TE = nfc.clf.TimeoutError, nfc.clf.TransmissionError

    def hook(n, data):
        i = n - base
        if dead_from is not None and i >= dead_from:
            consumed.add("dead")
            return ("cmd_lost", TO)
        k = script.get(i)
        if k is None:
            return None
        consumed.add(i)
        if k in "LC":
            return ("cmd_lost", TO)
        return ("rsp_lost", TO if k == "l" else TE)

    wtx = set(case.get("wtx", []))
    wtxm = case.get("wtxm", 1)
    rounds = case.get("wtx_rounds", 1)
    wtx_kinds = set()

    def wtx_fn(c, out, rnd):
        if (c.answer_no - 1) in wtx and rnd < rounds:
            if out[0] & 0xE2 == 0x02:
                wtx_kinds.add("rsp-chain" if c.resp_block_no >= 2 else "rsp-first")
            else:
                wtx_kinds.add("cmd-chain")
            return wtxm
        return 0

    card.wtx_fn = wtx_fn if wtx else None
    dev.script = hook
    dev.command_bound = base + 60 + 12 * (nblocks(cfg, x) + len(wtx) * rounds + len(script))
    outcome = None
    try:
        got = fn()
        outcome = ("ret", bytes(got) if got is not None else None)
    except tt4.Type4TagCommandError as e:
        outcome = ("t4err", e.errno)
    except SimTagDevice.Bound:
        outcome = ("bound", None)
    except BaseException as e:          # noqa
        outcome = ("escape", e)
    dev.script = None
    card.wtx_fn = None
    dev.command_bound = None
    nfaults = len([c for c in consumed if c != "dead"])
    executed = [a for a, r in card.apdu_log]
    n_exec = executed.count(apdu) if apdu else 0
    foreign = [a for a in executed if a != apdu]
    if not apdu:
        ctx = "empty-apdu"
    elif "rsp-chain" in wtx_kinds:
        ctx = "wtx-rsp-chain"
    elif wtx_kinds:
        ctx = "wtx"
    else:
        ctx = "plain"
    if cfg.get("ats") is not None:
        ctx = ats_label(cfg["ats"])
        if count:
            R.count("ats_variant_exchanges")
            R.count("ats_variant_short_timeouts", dev.short_timeouts)
    ext_atqb = cfg["kind"] == "B" and cfg.get("sfgi") is not None
    if cfg.get("timed") and cfg["kind"] == "B":
        ctx = "atqb-extended" if ext_atqb else "atqb-basic"
        if count:
            R.count("atqb_variant_exchanges")
            R.count("atqb_variant_extended" if ext_atqb else "atqb_variant_basic")
            R.count("atqb_variant_short_timeouts", dev.short_timeouts)

    # ---- wire monitor
    n_frames = 0
    for n, cmd, rsp in dev.log[log0:]:
        if cmd is None:
            continue
        n_frames += 1
        if len(cmd) + 2 > fsc:
            bad("frame-size/block+crc>FSC", "reader sent a block of %d+2 bytes to a card with FSC %d" % (len(cmd), fsc))
        if len(cmd) > cfg["max_send"]:
            bad("frame-size/block>device-max-send", "block of %d bytes, device max_send %d" % (len(cmd), cfg["max_send"]))
        if count:
            pcb = cmd[0]
            if pcb & 0xE2 == 0x02:
                R.count("pcd_I_chain" if pcb & 0x10 else "pcd_I")
            elif pcb & 0xF6 == 0xA2:
                R.count("pcd_RACK")
            elif pcb & 0xF6 == 0xB2:
                R.count("pcd_RNAK")
            elif pcb & 0xF7 == 0xF2:
                R.count("pcd_SWTX")
            else:
                R.count("pcd_other_block")
    if count:
        R.count("frame_size_checked", n_frames)
        R.count("frames", n_frames)
        R.max("frames_per_exchange", n_frames)
        for k, v in card.blocks.items():
            if v and k.startswith("tx_"):
                R.count("card_" + k[3:], v)
        R.count("card_retransmit", card.blocks["retransmit"])
        R.count("card_ignored_blocks", card.blocks["ignored"])
        R.count("exchanges")
        R.count("type4a" if cfg["kind"] == "A" else "type4b")
        if ext_atqb:
            R.count("type4b_extended_atqb")
            R.seen("extended_atqb_sfgi", cfg["sfgi"])
            R.max("extended_atqb_sensb_res_len", len(card.sensb_res))
            if any(c is not None and c[0] & 0xF2 == 0x12 for _n, c, _r in dev.log[log0:]):
                R.count("type4b_extended_atqb_pcd_chaining")
        R.seen("fsci", cfg["fsci"])
        R.seen("fwi", cfg["fwi"])
        R.seen("retry_budget", budget(cfg["fwi"]))
        R.seen("context", ctx)
        for c in consumed:
            if c != "dead":
                R.count("fault_" + script[c])
                R.seen("fault_position", c)
        if wtx_kinds:
            R.count("wtx_exchanges")
            for k in wtx_kinds:
                R.count("wtx_" + k)
        if dead_from is not None:
            R.count("card_gone_cases")

    # ---- exec monitor
    if count:
        R.count("executions_checked")
        R.count("card_executions", len(executed))
    if n_exec > 1:
        bad("executed-twice/%s" % ctx, "the card executed the same APDU %d times" % n_exec)
    if foreign:
        bad("foreign-apdu-executed/%s" % ctx, "the card executed %d APDU(s) that were never sent, first %s (sent %s)"
            % (len(foreign), foreign[0][:24].hex(), apdu[:24].hex()))

    # ---- response / error monitor
    ok = False
    kind = outcome[0]
    if kind == "ret":
        got = outcome[1]
        if count:
            R.count("responses_compared")
        if exp[0] == "ret":
            if got != exp[1]:
                bad("wrong-response/%s/%s" % (classify_wrong(got or b"", exp[1], prev_rsp), ctx),
                    "returned %d bytes, the card's response has %d" % (len(got or b""), len(exp[1])))
            elif n_exec != 1 and apdu:
                bad("returned-but-not-executed/%s" % ctx, "a response was returned but the card executed the APDU %d times" % n_exec)
            else:
                ok = True
        else:
            bad("status-word-ignored/%s" % ctx, "card answered SW %04X, send_apdu returned data" % exp[1])
    elif kind == "t4err":
        if exp[0] == "sw" and outcome[1] == exp[1] and n_exec == 1:
            ok = True                      # the complete response is the status word; it was delivered as the documented error
        elif outcome[1] > 0 and not (exp[0] == "sw" and outcome[1] == exp[1]):
            bad("wrong-response/status-word/%s" % ctx, "Type4TagCommandError carries SW %04X the card never sent" % outcome[1])
        if count and not ok:
            R.count("reported_t4error")
            R.seen("reported_errno", outcome[1])
    elif kind == "bound":
        bad("nontermination/%s%s" % (ctx, "/card-gone" if dead_from is not None else ""),
            "exchange did not end within %d frames" % (dev.n_commands - base))
    else:
        e = outcome[1]
        bad("escape/%s/%s" % (ctx, exc_sig(e)), "exchange raised %r instead of Type4TagCommandError" % (e,))

    # ---- recovery clause
    pos = sorted(c for c in consumed if c != "dead")
    single_per_block = all(b - a >= 3 for a, b in zip(pos, pos[1:]))
    must = (dead_from is None and single_per_block and budget(cfg["fwi"]) >= 1 and apdu)
    if must:
        if count:
            R.count("recovery_required_checked")
        if kind == "t4err" and not ok:
            bad("not-recovered/%s" % ctx, "%d fault(s), at most one per block exchange, retry budget %d: "
                "Type4TagCommandError errno %s" % (len(pos), budget(cfg["fwi"]), outcome[1]))
    if ok and count:
        R.count("recovered" if nfaults else "clean_success")

    # ---- follow-up in the same session: block numbers still in step, nothing stale
    if ok and case.get("follow", True):
        fn2, apdu2, exp2 = S.build({"via": "transceive", "clen": 6, "rlen": 5, "id": 0xFE00})
        dev.command_bound = dev.n_commands + 40
        try:
            got2 = bytes(fn2())
            if got2 != exp2[1]:
                cls = "stale" if (exp[0] == "ret" and got2 == exp[1]) else classify_wrong(got2, exp2[1], None)
                bad("followup-wrong-response/%s/%s" % (cls, ctx), "the exchange after a successful one returned a wrong response")
            elif [a for a, r in card.apdu_log].count(apdu2) != 1:
                bad("followup-executed-not-once/%s" % ctx, "follow-up executed %d times" % [a for a, r in card.apdu_log].count(apdu2))
        except tt4.Type4TagCommandError as e:
            bad("followup-failed/%s" % ctx, "fault free exchange after a successful one failed: errno %s" % e.errno)
        except SimTagDevice.Bound:
            bad("followup-nontermination/%s" % ctx, "follow-up exchange did not end")
        except BaseException as e:      # noqa
            bad("followup-escape/%s/%s" % (ctx, exc_sig(e)), "follow-up raised %r" % (e,))
        dev.command_bound = None
        if count:
            R.count("followup_checked")
    nontrivial = bool(nfaults or wtx_kinds or dead_from is not None or n_frames > 1)
    return viol, nontrivial, n_frames


# ---------------------------------------------------------------------------------------------------------------
def shapes(cfg, rng, full):
    mc, mr = pcd_chunk(cfg), card_chunk(cfg)
    cl = sorted({1, 4, 5, max(1, mc - 1), mc, mc + 1, 2 * mc - 1, 2 * mc, 2 * mc + 1, 3 * mc})
    rt = sorted({2, 3, max(2, mr - 1), mr, mr + 1, 2 * mr - 1, 2 * mr, 2 * mr + 1, 3 * mr + 1})
    out = []
    for c in cl:
        for t in rt:
            out.append((c, t - 2))
    if not full:
        rng.shuffle(out)
    return out


def make_x(rng, clen, rlen, ident):
    via = rng.choice(["transceive", "transceive", "send_apdu"])
    x = {"via": via, "clen": clen, "rlen": rlen, "id": ident}
    if via == "send_apdu":
        # command data length so that the APDU on the wire has clen bytes where possible (short APDU: <= 255 data bytes)
        mrl = rng.choice([0, 0, 256, 1 + rlen % 255])
        d = max(0, min(255, clen - 5 - (1 if mrl else 0)))
        x.update({"clen": d, "mrl": mrl, "check": rng.random() < 0.7})
        if rng.random() < 0.15:
            x["sw"] = rng.choice([b"\x6A\x82", b"\x67\x00", b"\x62\x82"])
    return x


def plan(tier, seed):
    combos = [(k, f) for f in range(9) for k in "AB"]            # 18
    n = 16
    shards = [{"combos": []} for _ in range(n)]
    for i, c in enumerate(combos):
        shards[i % n]["combos"].append(list(c))
    for i, s in enumerate(shards):
        s["nshards"] = n
        s["pairs_shapes"] = 24 if tier == "quick" else 81
        s["triples_shapes"] = 0 if tier == "quick" else 6
        s["max_frames"] = 10 if tier == "quick" else 16
        s["random"] = 1500 if tier == "quick" else 40000
        s["wtx_shapes"] = 5 if tier == "quick" else 30
        s["timeout"] = 300 if tier == "quick" else 1500
    return shards


FWI_CYCLE = [4, 0, 8, 9, 10, 11, 12, 14, 1, 2, 3, 5, 6, 7, 13]
DEV_CYCLE = [(290, 290), (290, 255), (64, 290), (40, 64), (290, 290), (19, 290)]


def pick_sfgi(fsci, fwi, salt):
    """an SFGI (0..14) that differs from the FSCI and the FWI of the same ATQB"""
    cand = [v for v in range(15) if v != fsci and v != fwi]
    return cand[salt % len(cand)]


def atqb_triples():
    """(FSCI, FWI, SFGI | None): the basic ATQB for every (FSCI, FWI) and the extended ATQB for every combination of
    pairwise different values"""
    out = []
    for fsci in range(9):
        for fwi in range(15):
            out.append((fsci, fwi, None))
            for sfgi in range(15):
                if len({fsci, fwi, sfgi}) == 3:
                    out.append((fsci, fwi, sfgi))
    return out


def run(desc, R, rng):
    if desc["shard"] == 0:
        from vf.sim import t4t
        failures = t4t.selftest()           # card model vs the literal transcripts of tests/test_tag_tt4.py
        R.count("sim_selftest_run")
        if failures:
            R.inconc("card model self-test failed: %s" % failures[:3])
    ident = itertools.count(1)
    thorough = desc.get("tier") == "thorough"
    n_cfg = 0
    for kind, fsci in desc["combos"]:
        variants = []
        for j in range(3 if not thorough else 6):
            fwi = FWI_CYCLE[(desc["shard"] * 3 + fsci + j * 5 + n_cfg) % len(FWI_CYCLE)]
            ms, mr = DEV_CYCLE[(desc["shard"] + j + fsci) % len(DEV_CYCLE)] if j else (290, 290)
            chunk = None if j < 2 else rng.choice([None, 1, 5, FSC_TABLE[fsci] - 4])
            cfg = {"kind": kind, "fsci": fsci, "fwi": fwi, "max_send": ms, "max_recv": mr, "chunk": chunk}
            if kind == "B" and (j + fsci) % 2 == 1:
                # extended ATQB (13 byte SENSB_RES): FSCI, FWI and SFGI pairwise different
                if fwi == fsci:
                    cfg["fwi"] = fwi = FWI_CYCLE[(FWI_CYCLE.index(fwi) + 1) % len(FWI_CYCLE)]
                cfg["sfgi"] = pick_sfgi(fsci, fwi, desc["shard"] + j)
            variants.append(cfg)
        n_cfg += 1
        for vi, cfg in enumerate(variants):
            run_cfg(desc, R, rng, cfg, ident, primary=(vi == 0))
    # every FWI value gets at least the single fault sweep on one shape (retry budget 0..5)
    for fwi in range(15):
        kind, fsci = desc["combos"][0]
        cfg = {"kind": kind, "fsci": fsci, "fwi": fwi, "max_send": 290, "max_recv": 290, "chunk": None}
        if kind == "B" and fwi != fsci and fwi & 1:
            cfg["sfgi"] = pick_sfgi(fsci, fwi, fwi)
        mc, mr = pcd_chunk(cfg), card_chunk(cfg)
        x = {"via": "transceive", "clen": mc + 1, "rlen": mr, "id": next(ident) & 0xFFFF}
        sweep(R, cfg, x, 1, desc["max_frames"], warm=fwi & 1)
    # Type 4B activation variants: basic ATQB for every (FSCI, FWI), extended ATQB for every (FSCI, FWI, SFGI) with pairwise
    # different values; command and response chaining, fault free and with one lost response; the card uses its whole FWT
    triples = atqb_triples()
    for fsci, fwi, sfgi in triples[desc["shard"]::desc.get("nshards", 16)]:
        cfg = {"kind": "B", "fsci": fsci, "fwi": fwi, "max_send": 290, "max_recv": 290, "chunk": None, "timed": True}
        if sfgi is not None:
            cfg["sfgi"] = sfgi
        mc, mr = pcd_chunk(cfg), card_chunk(cfg)
        x = {"via": "transceive", "clen": 2 * mc + 1, "rlen": mr - 1, "id": next(ident) & 0xFFFF}
        emit(R, {"cfg": cfg, "x": x, "warm": 0})
        emit(R, {"cfg": cfg, "x": x, "warm": 1, "script": [[1, "l"]]})
    # Type 4A activation variants: every subset of TA(1)/TB(1)/TC(1) x historical bytes; the card uses its whole FWT
    if desc["shard"] % 4 == 0:
        from vf.sim.t4t import build_ats
        for sub in range(8):
            for nh in (0, 1, 2, 5, 15):
                for fwi in (1, 4, 8, 11):
                    card_fwi = fwi if sub & 2 else 4
                    ats = build_ats(5, fwi, 0, ta=0x80 if sub & 1 else None, tb=bool(sub & 2), tc=0x02 if sub & 4 else None,
                                    hist=stream(b"H", nh))
                    cfg = {"kind": "A", "fsci": 5, "fwi": card_fwi, "max_send": 290, "max_recv": 290, "chunk": None, "ats": ats}
                    x = {"via": "transceive", "clen": 70, "rlen": 70, "id": next(ident) & 0xFFFF}
                    emit(R, {"cfg": cfg, "x": x, "warm": 0})
                    emit(R, {"cfg": cfg, "x": x, "warm": 0, "script": [[0, "l"]]})
    R.exhaustive = False


def emit(R, case):
    res = run_case(case, R)
    if len(res) != 3:
        return
    viol, nontrivial, frames = res
    key = (tuple(sorted((k, str(v)) for k, v in case["cfg"].items())), tuple(sorted((k, str(v)) for k, v in case["x"].items() if k != "id")),
           tuple(map(tuple, case.get("script", []))), tuple(case.get("wtx", [])), case.get("dead_from"), case.get("warm", 0))
    R.case(key, nontrivial=nontrivial)
    return frames


def sweep(R, cfg, x, max_faults, max_frames, warm=0, wtx=(), kinds="LlCc"):
    """exhaustive scripts with up to max_faults faults over the frame positions of this exchange"""
    nb = nblocks(cfg, x) + len(wtx)
    if nb > max_frames:
        return 0
    n = 0
    span = nb + 2          # retransmissions lengthen the exchange; positions past the end are never consumed
    for k in range(1, max_faults + 1):
        span_k = span + 2 * (k - 1)
        for pos in itertools.combinations(range(span_k), k):
            for ks in itertools.product(kinds, repeat=k):
                case = {"cfg": cfg, "x": x, "warm": warm, "script": [[p, c] for p, c in zip(pos, ks)]}
                if wtx:
                    case["wtx"] = list(wtx)
                emit(R, case)
                n += 1
    R.count("enumerated_scripts", n)
    R.count("enumerated_%d_fault_sweeps" % max_faults)
    return n


def run_cfg(desc, R, rng, cfg, ident, primary):
    thorough = desc.get("tier") == "thorough"
    shp = shapes(cfg, rng, full=False)
    # fault free run of every shape (structure: chaining both ways), both block number parities
    for (c, r) in shp:
        x = make_x(rng, c, r, next(ident) & 0xFFFF)
        emit(R, {"cfg": cfg, "x": x, "warm": rng.randrange(2)})
    R.sample({"cfg": cfg, "shapes": len(shp), "pcd_chunk": pcd_chunk(cfg), "card_chunk": card_chunk(cfg)})
    # single faults: every shape; pairs: a subset (all when thorough and primary)
    n_pairs = desc["pairs_shapes"] if primary else max(2, desc["pairs_shapes"] // 4)
    for si, (c, r) in enumerate(shp):
        x = make_x(rng, c, r, next(ident) & 0xFFFF)
        warm = si & 1
        if si < n_pairs:
            sweep(R, cfg, x, 2, desc["max_frames"], warm)
        else:
            sweep(R, cfg, x, 1, desc["max_frames"], warm)
        if primary and si < desc["triples_shapes"]:
            sweep(R, cfg, x, 3, 8, warm, kinds="Llc")
    # card gone from frame j, for every j
    for (c, r) in shp[:6 if not thorough else 30]:
        x = make_x(rng, c, r, next(ident) & 0xFFFF)
        for j in range(nblocks(cfg, x) + 1):
            emit(R, {"cfg": cfg, "x": x, "warm": j & 1, "dead_from": j})
            # the card disappears after a recoverable fault
            if j:
                emit(R, {"cfg": cfg, "x": x, "warm": 0, "dead_from": j + 2, "script": [[j - 1, rng.choice("Llc")]]})
    # WTX at every answer position, alone and with every single fault
    for (c, r) in shp[:desc["wtx_shapes"] if primary else 2]:
        x = make_x(rng, c, r, next(ident) & 0xFFFF)
        nb = nblocks(cfg, x)
        if nb > desc["max_frames"]:
            continue
        for w in range(nb):
            for rounds in (1, 2):
                emit(R, {"cfg": cfg, "x": x, "warm": w & 1, "wtx": [w], "wtxm": rng.choice([1, 2, 59]), "wtx_rounds": rounds})
            sweep(R, cfg, x, 1, desc["max_frames"] + 1, warm=w & 1, wtx=(w,), kinds="Llc")
    # empty APDU (an I-block without INF is a legal block)
    if primary:
        emit(R, {"cfg": cfg, "x": {"via": "transceive", "clen": 0, "rlen": 0, "id": 0}, "warm": 0, "follow": False})
    # random scripts with up to 5 faults on longer exchanges
    mc, mr = pcd_chunk(cfg), card_chunk(cfg)
    for _ in range(desc["random"] // (1 if primary else 3)):
        c = rng.choice([rng.randrange(1, 6 * mc + 2), mc * rng.randrange(1, 7) + rng.choice([-1, 0, 1])])
        r = rng.choice([rng.randrange(0, 6 * mr), mr * rng.randrange(1, 7) + rng.choice([-3, -2, -1])])
        x = make_x(rng, max(1, c), max(0, r), next(ident) & 0xFFFF)
        nb = nblocks(cfg, x)
        nf = rng.choice([1, 2, 3, 3, 4, 5])
        script = sorted({rng.randrange(nb + 2 * nf) for _ in range(nf)})
        case = {"cfg": cfg, "x": x, "warm": rng.randrange(2), "script": [[p, rng.choice("LlCc")] for p in script]}
        if rng.random() < 0.15:
            case["wtx"] = sorted({rng.randrange(nb) for _ in range(rng.choice([1, 2]))})
            case["wtxm"] = rng.choice([1, 3, 59])
        if rng.random() < 0.05:
            case["dead_from"] = rng.randrange(nb + 4)
        emit(R, case)
        R.count("random_scripts")


def replay(case, R):
    res = run_case(case, R, count=True)
    if len(res) == 3:
        R.case("replay", nontrivial=res[1])
