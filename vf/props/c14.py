"""C14 - host-link frames and ISO 14443 CRCs are built and checked correctly.  Aggregates the per-family monitors in vf.drivers/<family>.py (see vf/tags/common.py)."""
from vf.drivers import common

ID = "C14"
LEVEL = "exploration"
PROP = "c14"
RULE = ""          # filled from the family modules below
ASSUMPTIONS = []
REQUIRED = []
for _f in common.available(PROP):
    _m = common.family(_f)
    RULE += " [%s] %s" % (_f, getattr(_m, "RULE_" + PROP.upper(), ""))
    ASSUMPTIONS += list(getattr(_m, "ASSUMPTIONS", []))
    REQUIRED += list(getattr(_m, "REQUIRED_" + PROP.upper(), []))
ASSUMPTIONS = sorted(set(ASSUMPTIONS))


def plan(tier, seed):
    return common.plan(PROP, tier, seed)


def run(desc, R, rng):
    common.run(PROP, desc, R, rng)


def replay(case, R):
    common.replay(PROP, case, R)
