"""C04 - NFC-DEP delivers each payload exactly once, intact, or reports failure.

A real nfc.dep.Initiator and a real nfc.dep.Target talk over the lock-step air (vf/sim/air.py) on a virtual clock.
Activation is the real one: Initiator.activate() (ATR_REQ, PSL_REQ through sense()/exchange()) and Target.activate()
(through listen(), which plays the driver's part: ATR_RES, PSL_RES, first DEP_REQ), so LR, DID, NAD, bit rate, RWT and
the first request come from the code under observation.  A fault script assigns deliver/lose/corrupt to the frames
that follow activation.

Oracles
  delivery   application history: what Target.exchange() returned is a prefix of what was handed to
             Initiator.exchange(), item by item identical (and the reverse direction); a success report implies the
             delivery; failures are nfc.clf.CommunicationError (target: or None)          sig delivery/.. escape/..
  wire       every frame: LEN-1 <= LR of its receiver (LR read from the ATR_REQ/ATR_RES on the wire),
             start byte F0h iff 106 kbps, LEN byte = frame length                          sig wire/..
  recovery   "Recovery clause, made precise" (DESIGN C04): only lost/corrupted frames, each of them the *first*
             transmission of a request or of the response of a protocol step, at most one per step, every recovery
             frame delivered, roomy time-outs  =>  every exchange succeeds                 sig recovery/..
  hang       frame bound of the air exceeded (logical non-progress)                        sig hang/..
  report     None from Target.exchange()/send_timeout_extension() only after a delivered RLS_REQ/DSL_REQ was heard
             (a 0-byte frame of the garbled family is what a driver's "link broke" looks like: counted)   sig report/..
  retry      retry-after-failure class (the initiator application calls exchange(next) again after a
             CommunicationError): delivery only - in order, intact, at most once, a success report implies the
             delivery of *that* payload (a response to an earlier request is "stale-response")   sig retry/..
Input classes beside the fault scripts: termination by RLS_REQ, DSL_REQ (deactivate(release=False)) or by the target
application calling Target.deactivate(data) (delivery verdicts only); target think-time x*RWT (x<1) and y*rtox*RWT
(y<1) after a granted RTOX on an air that honours the receiver's deadline (a frame that starts after it is not heard):
fault-free and single-fault runs must still succeed, so RWT derivation and the RTOX multiplier are observable; tight
time-outs with host latency / long think-time (delivery only); the empty payload (probe).
Outside the statement's quantifier but recorded with their own signature family (asked for by the task):
  garbled/.. a frame truncated to 0..4 bytes that passes the receiver's CRC (belongs to C07)
  stale/..   a response replaced by the previous different response (replay): judged by the delivery oracle only.
"""
import hashlib
import random

import nfc
import nfc.clf
import nfc.dep

from vf.core import vclock
from vf.core.rec import exc_sig
from vf.sim import air as A

ID = "C04"
LEVEL = "fault_enumeration"
RULE = ("a case = (configuration, payload sizes, fault script actually applied); configurations: start mode "
        "(active / passive 106A / passive 212F / given 424F target) x bit rate after PSL (106A,212F,424F) x LRi,LRt "
        "0-3 x DID none/1-14 x NAD on/off x WT x RTOX requests x payload sizes {1, n*miu-1, n*miu, n*miu+1, max} both "
        "ways x 1-12 exchanges (PNI wrap); scripts: exhaustive over all <=k faults {lose, corrupt} on the first L "
        "frames after activation (quick k=2 L=12, thorough k=3 L=24; enumerated depth-first over the frames that "
        "really occur, so each script is distinct), then random scripts with 5-40 % faults (one in five of them also "
        "with replayed responses or frames cut to 0-4 bytes: signature families stale/ and garbled/, no recovery "
        "verdict), a fifth of the random ones with tight time-outs, host latency and think-time beyond RWT (delivery "
        "verdict only); every conversation ends by RLS_REQ, DSL_REQ or Target.deactivate(data) (families + random), "
        "target think-time 0-0.97 RWT and 0-0.97 rtox*RWT in the recovery domain; quick tier also: wrap9/long-chain "
        "exhaustive with k=1 over 40 frames, a tdeact family (k=2), outages of 3-6 consecutive frames at every start "
        "position followed by further exchange() calls (retry class), one empty-payload probe per shard; non-trivial "
        "= the conversation got through activation and at least one DEP frame was exchanged")
ASSUMPTIONS = [
    "vf.sim.air models the driver level: half-duplex, a lost frame is silence until the receiver's deadline, a "
    "corrupted frame is nfc.clf.TransmissionError at the receiver, the listening driver drops corrupted frames",
    "the target application answers every delivered payload with its next payload; both applications stop at the "
    "first failure; Initiator.deactivate() (RLS_REQ) ends every conversation",
    "None from Target.exchange()/send_timeout_extension() is accepted only after a RLS_REQ/DSL_REQ was delivered to "
    "the target (statement: 'after release'); nfc.dep/nfc.clf document no None-on-time-out, so None at an expired "
    "deadline is reported (report/tgt/none-without-release/..); in the recovery domain the target must end with None "
    "or TimeoutError",
    "Target.deactivate(data) answers every further request with data for up to 1 s (what LLCP relies on): requests the "
    "initiator application sends after the target application called deactivate() are answered, not delivered; they "
    "are counted (ini_success_answered_by_deactivating_target), not judged, and must return exactly that data; the "
    "data fits one frame; no recovery verdict in this class",
    "the air honours the receiver's deadline: a frame whose transmission starts after it is unheard; think-time is "
    "spent by the target application between two exchange() calls and is below RWT (below rtox x RWT after "
    "send_timeout_extension(rtox)) whenever the recovery clause is judged",
    "an empty payload may be delivered, fail with a CommunicationError or be refused with ValueError before anything is "
    "sent (Target.exchange documents that refusal); any other exception is reported",
    "roomy time-outs: initiator 8 x RWT (x RTOX factor) + 0.2 s per frame, target far beyond; RTOX is only used with "
    "rtox x RWT <= 0.2 s because Target.send_timeout_extension() has a fixed 1 s deadline",
    "DID 0 is outside the domain; faults are not injected into ATR/PSL frames (activation is C19)",
]
REQUIRED = ["scripts_run", "exhaustive_scripts", "exhaustive_configs_completed", "frames_INF", "frames_ACK",
            "frames_NAK", "frames_ATN", "frames_RTOX", "recovery_clause_checked", "recoveries_retransmission",
            "pni_wraps", "payloads_delivered", "wire_frames_checked", "chained_exchanges",
            # strengthened monitors / input classes (a dead one makes the run INCONCLUSIVE)
            "wire_lr_checked", "wire_lr_checked_dep_toT", "wire_lr_checked_dep_toI", "recovery_clause_checked_with_faults",
            "scripts_random", "frames_INF_chained", "end_tgt_none_after_release", "end_op_dsl", "end_op_tdeact",
            "frames_DSL", "recovery_clause_checked_end_dsl", "tdeact_farewell_delivered", "retry_runs",
            "retry_calls_after_failure", "recovery_clause_checked_with_think_time",
            "recovery_clause_checked_with_rtox_think_time", "frames_late_unheard", "empty_payload_probes",
            "exhaustive_fam_wrap9", "exhaustive_fam_long-chain", "exhaustive_fam_tdeact", "burst_configs_completed",
            "size_I_1", "size_I_miu-1", "size_I_miu", "size_I_miu+1", "size_I_n*miu+0", "size_I_multi",
            "size_T_1", "size_T_miu-1", "size_T_miu", "size_T_miu+1", "size_T_n*miu+0", "size_T_multi"]

BRTY = ("106A", "212F", "424F")
COMM = nfc.clf.CommunicationError


# ------------------------------------------------------------------------------------------------
# workload
# ------------------------------------------------------------------------------------------------
def payload(pseed, direction, seq, n):
    """(direction, sequence number, length, PRNG body) cut to n bytes; the first byte identifies the send"""
    # bit 7/6 = direction (never equal to an RTOX value 1..59), low bits = sequence number
    head = bytes([(0x80 if direction == "T" else 0x40) | (seq & 0x3F), (n >> 8) & 255, n & 255])
    body = random.Random("%s/%s/%d" % (pseed, direction, seq)).randbytes(max(0, n - 3))
    return (head + body)[:n]


def spec_miu(cfg, direction):
    """largest INF payload the *specification* allows the sender: LR(receiver) - CMD0 CMD1 PFB [DID] [NAD]"""
    if direction == "I":
        return A.LR_TABLE[cfg["lrt"]] - 3 - (cfg["did"] is not None) - (cfg["nad"] is not None)
    return A.LR_TABLE[cfg["lri"]] - 3 - (cfg["did"] is not None)


def final_brty(cfg):
    start = {"active": 0, "passive-A": 0, "passive-F": 1, "given-106A": 0, "given-212F": 1, "given-424F": 2}[cfg["start"]]
    return BRTY[max(start, cfg["brs"])]


class Outcome(object):
    def __init__(self):
        self.sent_i, self.sent_t = [], []
        self.got_i, self.got_t = [], []
        self.i_end = self.t_end = None          # "ok" | "none" | exception class name | "noact"
        self.i_exc = self.t_exc = None
        self.i_fail_at = self.t_fail_at = None  # frames on the air when the side failed
        self.i_escape = self.t_escape = None    # non-CommunicationError exception
        self.base = 0
        self.log = []
        self.abort = None
        self.i_calls = 0
        self.t_calls = 0
        self.i_ok_idx = []            # index k of every Initiator.exchange(sent_i[k]) that returned
        self.i_ok_at = []             # frames on the air when that call returned
        self.i_fails = []             # (k, exception name, frames on the air) of every failed Initiator.exchange
        self.retried = False          # the initiator application called exchange() again after a failure
        self.t_none = None            # how Target.exchange()/send_timeout_extension() came to return None
        self.t_deact_at = None        # frames on the air when the target application called Target.deactivate(data)
        self.farewell = None          # the data handed to Target.deactivate()
        self.i_refused_empty = 0
        self.i_refused_idx = []       # payloads refused with ValueError before anything was sent: never on their way
        self.i_escape_empty = False   # the escaping exception was raised for an empty payload


def converse(cfg, script):
    """one conversation; script: {frame index after activation: fault} or callable(rel, Frame)"""
    n = cfg["n"]
    out = Outcome()
    out.sent_i = [payload(cfg["pseed"], "I", k, cfg["sizes_i"][k]) for k in range(n)]
    out.sent_t = [payload(cfg["pseed"], "T", k, cfg["sizes_t"][k % len(cfg["sizes_t"])]) for k in range(n + 4)]
    rwt = 4096 / 13.56E6 * 2 ** cfg["wt"]
    rtox = {int(k): v for k, v in (cfg.get("rtox") or {}).items()}
    factor = max([1] + list(rtox.values()))
    if cfg["tmo"] == "roomy":
        tmo_i = 8 * rwt * factor + 0.2
        tmo_t = 400 * tmo_i
    else:
        tmo_i = float(cfg["tmo"]) * rwt
        tmo_t = float(cfg.get("tmo_t", 40)) * rwt
    start = cfg["start"]
    mode = {"active": "active", "passive-A": "passive-A", "passive-F": "passive-F", "given-106A": "passive-A",
            "given-212F": "passive-F", "given-424F": "passive-F"}[start]
    fault_free_frames = 2 * n + 8 + sum((s // 40) * 2 for s in cfg["sizes_i"]) + \
        sum((cfg["sizes_t"][k % len(cfg["sizes_t"])] // 40) * 2 for k in range(n))
    rxlat = float(cfg.get("rxlat") or 0) * rwt
    air = A.Air(mode=mode, max_frames=300 + 30 * fault_free_frames, stall_s=float(cfg.get("stall_s", 30)),
                honour_deadline=bool(cfg.get("honour")))
    vclock.patch([nfc.dep, nfc.clf], air.clock)
    think = [float(x) for x in (cfg.get("think") or [])]        # target application think-time, fractions of RWT
    think_rtox = float(cfg.get("think_rtox") or 0)             # ... of rtox x RWT after a granted extension
    end = cfg.get("end", "rls")
    tdeact = cfg.get("tdeact") if end == "tdeact" else None
    if tdeact is not None:
        # the farewell handed to Target.deactivate() travels in one frame (LLCP hands over 2 bytes)
        j = int(tdeact) - 1
        out.sent_t[j] = payload(cfg["pseed"], "T", j, max(1, min(len(out.sent_t[j]), spec_miu(cfg, "T"))))
    retries = [int(cfg.get("retry") or 0)]
    if cfg.get("frontend"):
        iclf, tclf = A.frontend(air.initiator_device()), A.frontend(air.target_device())
    else:
        iclf, tclf = air.initiator, air.target
    ini, tgt = nfc.dep.Initiator(iclf), nfc.dep.Target(tclf)

    def tmain():
        try:
            gb = tgt.activate(timeout=100.0, lrt=cfg["lrt"], rwt=cfg["wt"], gbt=bytes(cfg["gbt"]))
        except A.AirAbort:
            raise
        except Exception as e:
            out.t_end, out.t_escape = "act-escape", e
            return
        if gb is None:
            out.t_end = "noact"
            return
        def none(call, t0, deadline):
            out.t_end = "none"
            out.t_none = {"call": call, "expired": air.clock.now >= deadline, "last": air.T.last,
                          "frames": len(air.log)}

        try:
            out.t_calls += 1
            t0 = air.clock.now
            d = tgt.exchange(None, tmo_t)
            k = 0
            while True:
                if d is None:
                    none("exchange", t0, t0 + tmo_t)
                    break
                out.got_t.append(bytes(d))
                if think:
                    air.think(air.T, think[k % len(think)] * rwt)
                if tdeact is not None and len(out.got_t) == tdeact:
                    out.t_deact_at = len(air.log)
                    out.farewell = out.sent_t[k]
                    tgt.deactivate(bytearray(out.sent_t[k]))
                    out.t_end = "deactivated"
                    break
                if k in rtox:
                    t0 = air.clock.now
                    if tgt.send_timeout_extension(rtox[k]) is None:
                        none("rtox", t0, t0 + 1.0)
                        break
                    if think_rtox:
                        air.think(air.T, think_rtox * rtox[k] * rwt)
                out.t_calls += 1
                t0 = air.clock.now
                d = tgt.exchange(out.sent_t[k] if k < len(out.sent_t) else b"\xEE", tmo_t)
                k += 1
        except COMM as e:
            out.t_end, out.t_exc = type(e).__name__, e
        except A.AirAbort:
            raise
        except Exception as e:
            out.t_end, out.t_escape = "escape", e
        out.t_fail_at = len(air.log)

    def imain():
        opts = dict(brs=cfg["brs"], lri=cfg["lri"], gbi=bytes(cfg["gbi"]), acm=(start == "active"))
        if cfg["did"] is not None:
            opts["did"] = cfg["did"]
        if cfg["nad"] is not None:
            opts["nad"] = cfg["nad"]
        target = None
        if start.startswith("given"):
            brty = start[6:]
            air.brty = brty
            if brty == "106A":
                target = nfc.clf.RemoteTarget(brty, sens_res=bytearray(b"\x01\x01"), sel_res=bytearray(b"\x40"),
                                              sdd_res=bytearray(b"\x08\x01\x02\x03"))
            else:
                target = nfc.clf.RemoteTarget(brty, sensf_res=bytearray.fromhex("0101FE0102030405060000000000000000FFFF"))
            if cfg.get("frontend"):
                iclf.target = target
        try:
            gb = ini.activate(target, **opts)
        except A.AirAbort:
            raise
        except Exception as e:
            out.i_end, out.i_escape = "act-escape", e
            return
        if gb is None:
            out.i_end = "noact"
            return
        air.arm(script)
        out.base = air.script_base
        air.rx_latency = rxlat or None          # host latency only after activation (activation is C19)
        k = 0
        while k < n:
            out.i_calls += 1
            frames0 = len(air.log)
            try:
                r = ini.exchange(out.sent_i[k], tmo_i)
            except COMM as e:
                out.i_fails.append((k, type(e).__name__, len(air.log)))
                if out.i_exc is None:
                    out.i_end, out.i_exc, out.i_fail_at = type(e).__name__, e, len(air.log)
                if retries[0] <= 0 or k + 1 >= n:
                    break
                # retry-after-failure class: the application goes on with its next payload
                retries[0] -= 1
                out.retried = True
                k += 1
                continue
            except A.AirAbort:
                raise
            except ValueError as e:
                if len(out.sent_i[k]) == 0 and len(air.log) == frames0:
                    # argument refused before anything was sent (what Target.exchange does with an empty payload)
                    out.i_refused_empty += 1
                    out.i_refused_idx.append(k)
                    k += 1
                    continue
                out.i_end, out.i_escape, out.i_fail_at = "escape", e, len(air.log)
                break
            except Exception as e:
                out.i_end, out.i_escape, out.i_fail_at = "escape", e, len(air.log)
                out.i_escape_empty = len(out.sent_i[k]) == 0
                break
            out.got_i.append(bytes(r))
            out.i_ok_idx.append(k)
            out.i_ok_at.append(len(air.log))
            k += 1
        if out.i_end is None:
            out.i_end = "ok"
        if out.i_fail_at is None:
            out.i_fail_at = len(air.log)
        try:
            if end == "leave":
                pass
            else:
                ini.deactivate(release=(end != "dsl"))
        except A.AirAbort:
            raise
        except Exception as e:
            if out.i_escape is None:
                out.i_end, out.i_escape = "escape-deactivate", e

    try:
        ie, te = air.run(tmain, imain)
    finally:
        vclock.unpatch([nfc.dep, nfc.clf])
    out.log = air.log
    out.air = air
    out.ini, out.tgt = ini, tgt
    for e in (ie, te):
        if isinstance(e, A.AirAbort):
            out.abort = e
        elif e is not None:
            raise e                      # harness bug
    return out


# ------------------------------------------------------------------------------------------------
# oracles
# ------------------------------------------------------------------------------------------------
def label_frames(out):
    """role of every frame after activation, from the wire alone:
    orig-req / orig-res (first transmission of a step's request / response), rec (ATN, NAK, retransmission), other"""
    roles = {}
    steps = []
    last_orig = None
    prev_req_sub = None
    cur = None
    for fr in out.log[out.base:]:
        p = fr.p
        if fr.dir == "I>T":
            if p.kind != "DEP_REQ" or not p.ok:
                role = "other"
            elif p.sub in ("ATN", "NAK"):
                role = "rec"
            elif prev_req_sub == "ATN" and last_orig is not None and fr.data == last_orig:
                role = "rec"
            else:
                role = "orig-req"
                cur = {"req": fr, "res": None, "faults": 0}
                steps.append(cur)
                last_orig = fr.data
            prev_req_sub = p.sub if p.kind == "DEP_REQ" else None
        else:
            if p.kind != "DEP_RES" or not p.ok:
                role = "other"
            elif p.sub == "ATN":
                role = "rec"
            elif cur is not None and cur["res"] is None:
                role = "orig-res"
                cur["res"] = fr
            else:
                role = "rec"
        roles[fr.n] = (role, cur)
    return roles, steps


def diagnose(out, after, before):
    """what the wire shows between the faulted frame and the failure: which recovery request was not honoured"""
    log = out.log
    hi = len(log) if before is None else min(before, len(log))
    for n in range(after + 1, hi):
        q = log[n]
        if q.dir != "I>T" or q.fault != "d" or not q.heard or q.p.kind != "DEP_REQ":
            continue
        ans = log[n + 1] if n + 1 < len(log) and log[n + 1].dir == "T>I" else None
        if q.p.sub == "ATN" and ans is None:
            return "atn-unanswered"
        if q.p.sub == "ATN" and ans.p.sub != "ATN":
            return "atn-answered-by-" + ans.p.label
        if q.p.sub == "NAK" and ans is None:
            return "nak-unanswered"
        if q.p.sub == "NAK" and not (ans.p.kind == "DEP_RES" and ans.p.sub == "INF"):
            return "nak-answered-by-" + ans.p.label
    return "unrecovered"


def classify(got, idx, sent, direction):
    exp = sent[idx] if idx < len(sent) else None
    if got in sent[:idx]:
        return "duplicate"
    if got in sent[idx + 1:]:
        return "reordered"
    if exp is not None and len(got) < len(exp) and exp.startswith(got):
        return "truncated"
    if exp is not None and 0 < len(got) < len(exp) and exp.endswith(got):
        return "head-missing"
    if exp is not None and got.startswith(exp):
        return "extended"
    if exp is not None and len(got) > 0 and any(got.startswith(s) or s.startswith(got) for s in sent):
        return "mixed"
    if len(got) > 0 and (got[0] & 0xC0) == (0x40 if direction == "T" else 0x80):
        return "foreign"          # starts like a payload of the opposite direction
    return "altered"


def judge(cfg, out, R, case, evidence=True):
    """all oracles on one finished conversation; returns the list of signatures raised"""
    sigs = []

    def viol(sig, what):
        # runs with faults outside the statement's quantifier get their own signature family
        if sig.split("/")[0] in ("delivery", "escape", "hang", "retry", "report"):
            if out.garbled:
                sig = "garbled/" + sig
            elif stale:
                sig = "stale/" + sig
        sigs.append(sig)
        R.violation(sig, what, case)

    faults = [fr for fr in out.log[out.base:] if fr.fault != "d"]
    out.garbled = any(isinstance(fr.fault, tuple) for fr in faults)
    stale = any(fr.fault == "s" for fr in faults)
    brty = final_brty(cfg)
    ctx = "%s did=%s nad=%s lri=%d lrt=%d" % (brty, cfg["did"], cfg["nad"], cfg["lri"], cfg["lrt"])

    if out.abort is not None:
        if isinstance(out.abort, A.AirOverrun):
            viol("hang/frame-bound", "conversation exceeded %d frames without ending (%s)" % (out.air.max_frames, ctx))
        return sigs
    if out.i_end in ("noact", "act-escape") or out.t_end == "act-escape":
        # activation is not judged here, but it must work in this fault-free phase: otherwise nothing was checked
        R.count("activation_failed")
        if out.i_escape is not None or out.t_escape is not None:
            e = out.i_escape or out.t_escape
            viol("activation/escape/%s" % exc_sig(e), "fault-free activation raised %r (%s)" % (e, ctx))
        else:
            viol("activation/failed/%s" % cfg["start"], "fault-free activation failed: initiator %s, target %s (%s)"
                 % (out.i_end, out.t_end, ctx))
        return sigs

    # ---- delivery (application history) -------------------------------------------------------
    # strict form (prefix, item by item) whenever no exchange() was called after a failure; in the retry-after-failure
    # class the payloads of failed calls may be missing: in order, intact, at most once (subsequence)
    fam = "retry/" if out.retried else ""
    farewell_from = None
    got_i = out.got_i
    if out.farewell is not None and cfg["n"] > int(cfg["tdeact"]):
        # the initiator application went on after the target application had called Target.deactivate(data): the first
        # exchange completed after that call is answered with the data (judged like every response), further requests
        # are answered with the same data again (see ASSUMPTIONS); judged: nothing but that data comes back
        after = [j for j, at in enumerate(out.i_ok_at) if at > out.t_deact_at]
        farewell_from = after[1] if len(after) > 1 else None
        if farewell_from is not None:
            extra = got_i[farewell_from:]
            got_i = got_i[:farewell_from]
            if evidence:
                R.count("ini_success_answered_by_deactivating_target", len(extra))
            if any(g != out.farewell for g in extra):
                viol("delivery/ini/foreign-after-target-deactivate",
                     "after Target.deactivate(data) the initiator application received something else than that data (%s)" % ctx)
    mismatch = False
    sent_i = [p_ for k, p_ in enumerate(out.sent_i) if k not in out.i_refused_idx]
    for side, got, sent, d in (("tgt", out.got_t, sent_i, "I"), ("ini", got_i, out.sent_t, "T")):
        ptr = 0
        for idx, g in enumerate(got):
            if not out.retried:
                hit = idx if idx < len(sent) and g == sent[idx] else None
            else:
                hit = next((j for j in range(ptr, len(sent)) if sent[j] == g), None)
            if hit is None:
                c = classify(g, ptr if out.retried else idx, sent, d)
                if any(fr.p.sub == "RTOX" and fr.p.ok and bytes(fr.p.data) == g for fr in out.log[out.base:]):
                    c = "rtox-pdu-data"
                viol("%sdelivery/%s/%s" % (fam, side, c),
                     "%s application received a %s payload at position %d (%d bytes, expected %s) (%s)"
                     % (side, c, idx, len(g), len(sent[idx]) if idx < len(sent) else None, ctx))
                mismatch = True
                break
            ptr = hit + 1
    if mismatch:
        pass            # the counts below would only repeat the finding
    elif out.retried:
        # success report implies delivery, call by call
        for pos, k in enumerate(out.i_ok_idx):
            if out.t_deact_at is not None and out.i_ok_at[pos] > out.t_deact_at:
                break           # answered by the deactivating target (its application no longer calls exchange())
            if out.sent_i[k] not in out.got_t:
                j = out.sent_t.index(out.got_i[pos]) if out.got_i[pos] in out.sent_t else None
                mech = "stale-response" if j is not None and j < len(out.got_t) and out.got_t[j] != out.sent_i[k] else "other"
                viol("retry/ini/success-without-delivery/" + mech,
                     "after a failed exchange the next Initiator.exchange() reported success (it returned the response "
                     "to an earlier request) but its payload never reached the target application (%s)" % ctx)
                break
    elif len(out.got_t) < len(got_i):
        viol("delivery/ini/success-without-delivery",
             "Initiator.exchange() reported success %d times but the target application received only %d payloads (%s)"
             % (len(got_i), len(out.got_t), ctx))
    elif len(out.got_i) < len(out.got_t) - 1:
        viol("delivery/tgt/success-without-delivery",
             "Target.exchange() returned the next request %d times but the initiator application received only %d responses (%s)"
             % (len(out.got_t) - 1, len(out.got_i), ctx))
    for side, e in (("ini", out.i_escape), ("tgt", out.t_escape)):
        if e is not None:
            sfx = "/empty-payload" if side == "ini" and out.i_escape_empty else ""
            viol("%sescape/%s/%s%s" % (fam, side, exc_sig(e), sfx),
                 "%s side raised %r instead of a CommunicationError (%s)" % (side, e, ctx))

    # ---- the target side may return None only after release -----------------------------------------
    released = any(fr.dir == "I>T" and fr.heard and fr.rx is not None and
                   A.Parsed(fr.rx, fr.brty).kind in ("RLS_REQ", "DSL_REQ") and A.Parsed(fr.rx, fr.brty).ok
                   for fr in out.log[out.base:out.t_fail_at])
    if out.t_end == "none":
        tn = out.t_none or {}
        heard = [fr for fr in out.log[out.base:tn.get("frames")] if fr.dir == "I>T" and fr.heard and fr.fault != "l"]
        if released:
            if evidence:
                R.count("end_tgt_none_after_release")
        elif out.garbled and tn.get("last") == "frame" and heard and heard[-1].rx is not None and len(heard[-1].rx) == 0:
            # a frame cut to 0 bytes (garbled family, C07) is what a driver's "link broke" (None) looks like to nfc.dep
            if evidence:
                R.count("end_tgt_none_after_empty_frame")
        else:
            if tn.get("expired"):
                mech = "timeout-while-processing" if tn.get("last") == "send-only" else "timeout-while-waiting"
            else:
                mech = "other"
            if tn.get("call") == "rtox":
                mech += "@rtox"
            if evidence:
                R.count("end_tgt_none_without_release")
                R.count("end_tgt_none_without_release_" + mech)
            # in a run of the retry class the initiator may answer an RTOX with its next INF request: same root cause
            viol("%sreport/tgt/none-without-release/%s" % (fam, mech),
                 "Target.%s() returned None although no RLS_REQ/DSL_REQ had been received (%s) (%s)"
                 % ("send_timeout_extension" if tn.get("call") == "rtox" else "exchange",
                    "its deadline had expired: TimeoutError expected" if tn.get("expired") else "deadline not reached", ctx))
    if evidence:
        R.count("payloads_delivered", len(out.got_t) + len(out.got_i))
        R.count("end_ini_" + str(out.i_end))
        R.count("end_tgt_" + str(out.t_end))
        R.count("end_op_" + str(cfg.get("end", "rls")))
        if out.retried:
            R.count("retry_runs")
            R.count("retry_calls_after_failure", sum(1 for k in range(cfg["n"]) if out.i_fails and k > out.i_fails[0][0]
                                                     and (k in out.i_ok_idx or any(f[0] == k for f in out.i_fails))))
            R.count("retry_success_after_failure", sum(1 for k in out.i_ok_idx if k > out.i_fails[0][0]))
        if out.i_refused_empty:
            R.count("empty_payload_refused_by_ValueError", out.i_refused_empty)
        if out.farewell is not None:
            R.count("tdeact_runs")
            if out.farewell in out.got_i:
                R.count("tdeact_farewell_delivered")
        for side, got, d in (("I", out.got_t, "I"), ("T", out.got_i, "T")):
            m = spec_miu(cfg, d)
            for g in got:
                n_ = len(g)
                if n_ <= 1:
                    c = "1"
                elif n_ in (m - 1, m, m + 1):
                    c = {m - 1: "miu-1", m: "miu", m + 1: "miu+1"}[n_]
                elif n_ < m:
                    c = "small"
                elif n_ % m in (0, 1, m - 1) :
                    c = "n*miu%+d" % ((n_ + 1) % m - 1) if n_ < 2000 else "big"
                else:
                    c = "multi" if n_ < 2000 else "big"
                R.count("size_%s_%s" % (side, c))

    # ---- wire monitor --------------------------------------------------------------------------
    lr = {"I": None, "T": None}          # LR announced by the initiator / by the target, as seen on the wire
    seen_wire = set()
    for fr in out.log:
        p = fr.p
        if p.kind == "ATR_REQ" and p.ok:
            lr["I"] = p.lr
        elif p.kind == "ATR_RES" and p.ok:
            lr["T"] = p.lr
        want = "sb" if fr.brty == "106A" else "len"
        if evidence:
            R.count("wire_frames_checked")
        if p.framing != want:
            s = "wire/framing/%s/%s-at-%s" % (fr.dir, p.framing, fr.brty)
            if s not in seen_wire:
                seen_wire.add(s)
                viol(s, "frame %s at %s: %s" % (fr.data[:6].hex(), fr.brty,
                                                 "LEN byte does not match the frame length" if p.framing == "bad" else
                                                 "start byte F0h must be present exactly at 106 kbps"))
            continue
        rcv_lr = lr["T"] if fr.dir == "I>T" else lr["I"]
        if p.kind in ("ATR_REQ", "ATR_RES"):
            rcv_lr = 64
        if rcv_lr is None or p.tdlen is None:
            continue
        if evidence:
            R.count("wire_lr_checked")
            if fr.n >= out.base and p.kind in ("DEP_REQ", "DEP_RES"):
                R.count("wire_lr_checked_dep_to%s" % ("T" if fr.dir == "I>T" else "I"))
            R.max("max_tdlen_%s_LR%d" % ("toT" if fr.dir == "I>T" else "toI", rcv_lr), p.tdlen)
        if p.tdlen > rcv_lr:
            s = "wire/len>LR/%s/%s" % (p.label, "did" if p.did is not None else "nodid")
            if s not in seen_wire:
                seen_wire.add(s)
                viol(s, "%s frame %s carries %d bytes of transport data, the receiver announced LR=%d (%s)"
                     % (fr.dir, p.label, p.tdlen, rcv_lr, ctx))

    # ---- evidence from the wire ---------------------------------------------------------------
    roles, steps = label_frames(out)
    if evidence:
        last_pni = None
        for fr in out.log[out.base:]:
            p = fr.p
            role = roles[fr.n][0]
            if p.kind in ("DEP_REQ", "DEP_RES") and p.ok:
                R.count("frames_" + p.sub)
                if p.sub == "INF" and p.mi:
                    R.count("frames_INF_chained")
                if role == "rec" and p.sub not in ("ATN", "NAK"):
                    R.count("recoveries_retransmission")
                if role == "orig-req" and p.sub in ("INF", "ACK"):
                    if last_pni == 3 and p.pni == 0:
                        R.count("pni_wraps")
                    last_pni = p.pni
            elif p.kind in ("RLS_REQ", "RLS_RES"):
                R.count("frames_RLS")
            elif p.kind in ("DSL_REQ", "DSL_RES"):
                R.count("frames_DSL")
            if fr.late:
                R.count("frames_late_unheard")
            if fr.fault != "d":
                R.count("fault_%s_on_%s" % (fr.fault if isinstance(fr.fault, str) else fr.fault[0], p.label))
                R.seen("fault_positions", fr.n - out.base)
        if any(s > spec_miu(cfg, "I") for s in cfg["sizes_i"][:len(out.got_t)]) or \
           any(len(g) > spec_miu(cfg, "T") for g in out.got_i):
            R.count("chained_exchanges")
        R.seen("configs", "%s/%s/lri%d/lrt%d/%s/%s" % (cfg["start"], brty, cfg["lri"], cfg["lrt"],
                                                        "did" if cfg["did"] is not None else "-",
                                                        "nad" if cfg["nad"] is not None else "-"))
        R.max("max_exchanges_completed", len(out.got_i))
        R.max("max_frames_in_conversation", len(out.log) - out.base)

    # ---- recovery clause ----------------------------------------------------------------------
    # think-time below RWT (below rtox x RWT after an extension) is inside the domain: a fault-free run must succeed
    in_domain = cfg["tmo"] == "roomy" and not out.garbled and not stale and cfg.get("end", "rls") in ("rls", "dsl") \
        and not cfg.get("rxlat") and all(0 <= float(x) < 1 for x in (cfg.get("think") or [])) \
        and 0 <= float(cfg.get("think_rtox") or 0) < 1 and all(len(p_) > 0 for p_ in out.sent_i[:cfg["n"]])
    for fr in faults:
        role, step = roles[fr.n]
        if fr.fault not in ("l", "c"):
            in_domain = False
        elif role in ("orig-req", "orig-res"):
            step["faults"] += 1
            if step["faults"] > 1:
                in_domain = False
        elif role == "other" and fr.p.kind in ("RLS_REQ", "RLS_RES", "DSL_REQ", "DSL_RES"):
            pass
        else:
            in_domain = False
    if in_domain:
        if evidence:
            R.count("recovery_clause_checked")
            if faults:
                R.count("recovery_clause_checked_with_faults")
            if any(float(x) > 0 for x in (cfg.get("think") or [])):
                R.count("recovery_clause_checked_with_think_time")
                R.seen("think_time_wt", cfg["wt"])
            if cfg.get("think_rtox") and cfg.get("rtox"):
                R.count("recovery_clause_checked_with_rtox_think_time")
            if cfg.get("end") == "dsl":
                R.count("recovery_clause_checked_end_dsl")
        bad = []
        if out.i_end != "ok":
            bad.append(("ini", out.i_end, out.i_fail_at, out.i_exc))
        if out.t_end not in ("none", "TimeoutError") or len(out.got_t) < cfg["n"]:
            bad.append(("tgt", out.t_end, out.t_fail_at, out.t_exc))
        if "escape" in (out.i_end, out.t_end):
            bad = []          # a side crashed: reported by the escape clause, the peer's failure is its consequence
        if bad:
            bad.sort(key=lambda b: b[2] if b[2] is not None else 1 << 30)
            side, end, at, exc = bad[0]
            cul = [fr for fr in faults if at is None or fr.n < at]
            if cul:
                fr = cul[-1]
                step = roles[fr.n][1]
                lab = fr.p.label
                if step is not None and step["req"].p.sub == "RTOX":
                    lab += "@rtox"
                culprit = "%s/%s" % (lab, {"l": "lost", "c": "corrupt"}[fr.fault])
                culprit += "/" + diagnose(out, fr.n, at)
            else:
                culprit = "no-fault"
                if cfg.get("think_rtox") and cfg.get("rtox"):
                    culprit += "@rtox-think-time"
                elif any(float(x) > 0 for x in (cfg.get("think") or [])):
                    culprit += "@think-time"
            viol("recovery/%s/%s-%s/%s" % (culprit, side, end, "did" if cfg["did"] is not None else "nodid"),
                 "single fault per step (%d faults, all on first transmissions, all recovery frames delivered) but the %s "
                 "side ended with %s%s after %d of %d exchanges (%s)"
                 % (len(faults), side, end, (": %s" % exc) if exc is not None else "", len(out.got_i), cfg["n"], ctx))
    return sigs


# ------------------------------------------------------------------------------------------------
# configurations
# ------------------------------------------------------------------------------------------------
STARTS = ["active", "passive-A", "passive-F", "given-424F", "given-212F", "given-106A"]


def base_cfg(rng, i):
    """framing configuration number i of the grid start x bit rate x DID x NAD x LRi x LRt x WT x general bytes;
    the index is hashed and read as mixed radix digits, so that any arithmetic progression of indices (one per
    shard) walks through all coordinates independently"""
    g = [int.from_bytes(hashlib.blake2b(b"c04-%d" % i, digest_size=8).digest(), "big")]

    def digit(n):
        d = g[0] % n
        g[0] //= n
        return d
    start = STARTS[digit(4)]
    brs = digit(3)
    didc, nadc = digit(4), digit(4)
    lri, lrt = digit(4), digit(4)
    wt = [8, 0, 4, 10, 14, 2][digit(6)]
    gb = digit(4)
    if i % 11 == 0:
        start = STARTS[4 + (i // 11) % 2]
    if start == "passive-F" and brs == 0:
        brs = 1
    did = [None, 1 + i % 14, None, 14 - i % 14][didc]
    nad = [None, None, 1 + (i * 7) % 255, 0][nadc]
    cfg = {"start": start, "brs": brs, "did": did, "nad": nad, "lri": lri, "lrt": lrt,
           "wt": wt, "gbi": b"" if gb & 1 else b"Ffm\x01\x01\x11",
           "gbt": b"" if gb & 2 else b"Ffm\x01\x01\x11\x03\x02\x00\x13", "tmo": "roomy",
           "pseed": rng.randrange(1 << 30), "frontend": i % 8 == 5 and not start.startswith("given"),
           "honour": True, "end": "rls"}
    return cfg


def sizes_around(rng, miu, count):
    return [rng.choice([1, 2, miu - 1, miu, miu + 1, miu + 2]) for _ in range(count)]


def family_cfg(rng, i, fam):
    """short conversations for the exhaustive enumeration"""
    cfg = base_cfg(rng, i)
    mi, mt = spec_miu(cfg, "I"), spec_miu(cfg, "T")
    d = rng.choice([-1, 0, 1, 2])
    if fam == "small3":
        cfg.update(n=3, sizes_i=[1, rng.randrange(2, 20), rng.choice([mi - 1, mi])], sizes_t=[rng.choice([mt, 1]), 3, 1])
    elif fam == "ichain":
        cfg.update(n=2, sizes_i=[2 * mi + d, rng.choice([1, mi + 1])], sizes_t=[rng.randrange(1, 30), 1])
    elif fam == "tchain":
        cfg.update(n=2, sizes_i=[rng.randrange(1, 30), 2], sizes_t=[2 * mt + d, rng.choice([1, mt + 1, mt + 2])])
    elif fam == "both":
        cfg.update(n=1, sizes_i=[mi + rng.choice([1, 2, mi])], sizes_t=[mt + rng.choice([1, 2, mt])])
    elif fam == "wrap5":
        cfg.update(n=5, sizes_i=sizes_around(rng, mi, 5)[:4] + [1], sizes_t=[rng.choice([1, 7, mt])] * 5)
        cfg["sizes_i"] = [min(s, mi) for s in cfg["sizes_i"]]
    elif fam == "rtox":
        cfg.update(n=2, sizes_i=[rng.choice([5, mi]), 1], sizes_t=[rng.choice([4, mt, mt + 1]), 2],
                   rtox={"0": rng.choice([1, 2, 7])})
        cfg["wt"] = [0, 2, 4, 5][i % 4]
    elif fam == "wrap9":
        cfg.update(n=9, sizes_i=[min(s, mi) for s in sizes_around(rng, mi, 9)], sizes_t=[rng.choice([1, 9])] * 9)
    elif fam == "long-chain":
        cfg.update(n=2, sizes_i=[4 * mi + d, 1], sizes_t=[3 * mt + d, 1])
    elif fam == "tdeact":
        # the target application ends the conversation with Target.deactivate(data) (what LLCP does); delivery only
        cfg.update(n=2, sizes_i=[rng.choice([1, mi, mi + 1]), rng.choice([2, mi + 2])], sizes_t=[rng.choice([1, mt + 1]), rng.choice([2, mt])],
                   end="tdeact", tdeact=2)
        cfg["wt"] = [0, 2, 4, 8][i % 4]
    elif fam == "burst":
        # retry-after-failure: outages of 3-6 consecutive frames make an exchange fail, the application goes on
        cfg.update(n=4, sizes_i=[rng.choice([1, mi]), rng.choice([2, mi + 1]), 3, rng.choice([1, 2 * mi])],
                   sizes_t=[rng.choice([1, mt]), rng.choice([2, mt + 1]), 3, 1], retry=2)
    else:
        raise ValueError(fam)
    if fam not in ("tdeact",):
        # termination by RLS_REQ or DSL_REQ; target think-time below RWT (below rtox x RWT after an extension)
        cfg["end"] = ("rls", "dsl", "rls")[(i // 2) % 3]
        cfg["think"] = ([0], [0.9], [0.5, 0.97], [0], [0.97])[(i // 3) % 5]
        if fam == "rtox":
            cfg["think_rtox"] = (0.9, 0, 0.97, 0.5)[(i // 5) % 4]
    cfg["fam"] = fam
    return cfg


def random_cfg(rng, i):
    cfg = base_cfg(rng, rng.randrange(10000))
    cfg["lri"], cfg["lrt"] = rng.randrange(4), rng.randrange(4)
    cfg["did"] = rng.choice([None, None, rng.randrange(1, 15)])
    cfg["nad"] = rng.choice([None, None, rng.randrange(256)])
    cfg["wt"] = rng.choice([0, 1, 4, 8, 8, 9, 12, 14])
    mi, mt = spec_miu(cfg, "I"), spec_miu(cfg, "T")
    n = rng.choice([1, 2, 3, 5, 9, 9, 10, 12])
    big = rng.random() < 0.04

    def size(m):
        r = rng.random()
        if big and r < 0.3:
            return 2200
        if r < 0.45:
            return rng.choice([1, 2, 3, rng.randrange(1, m)])
        k = rng.choice([1, 1, 2, 2, 3, 4])
        return max(1, k * m + rng.choice([-1, 0, 1, 2]))
    cfg.update(n=n, sizes_i=[size(mi) for _ in range(n)], sizes_t=[size(mt) for _ in range(n)], fam="random")
    if rng.random() < 0.15:
        cfg["wt"] = rng.choice([0, 2, 4, 5])
        cfg["rtox"] = {str(rng.randrange(n)): rng.choice([1, 3, 10])}
        if rng.random() < 0.3:
            cfg["rtox"][str(rng.randrange(n))] = 2
    if rng.random() < 0.2:
        cfg["tmo"] = rng.choice([0.5, 1.5, 2.5, 3.5])
        cfg["tmo_t"] = rng.choice([1.02, 1.5, 2.1, 5, 40])
        # delivery verdicts only: host latency, think-time of any length
        cfg["rxlat"] = rng.choice([0, 0, 0.02, 0.1, 0.3])
        cfg["think"] = [rng.choice([0, 0, 0.5, 0.98, 1.3, 2.5]) for _ in range(2)]
    elif rng.random() < 0.5:
        cfg["think"] = [rng.choice([0, 0.3, 0.6, 0.9, 0.97]) for _ in range(3)]
        if cfg.get("rtox"):
            cfg["think_rtox"] = rng.choice([0, 0.5, 0.9, 0.97])
    r = rng.random()
    if r < 0.25:
        cfg["end"] = "dsl"
    elif r < 0.37:
        # Target.deactivate(data) after m payloads; a third of these initiators go on talking to the deactivating target
        m = rng.randrange(1, n + 1)
        cfg.update(end="tdeact", tdeact=m)
        if rng.random() < 0.67:
            cfg.update(n=m, sizes_i=cfg["sizes_i"][:m])
    if rng.random() < 0.3:
        cfg["retry"] = rng.choice([1, 2, 3])
    return cfg


# ------------------------------------------------------------------------------------------------
# drivers
# ------------------------------------------------------------------------------------------------
def applied_script(out):
    return [[fr.n - out.base, fr.fault if isinstance(fr.fault, str) else list(fr.fault)]
            for fr in out.log[out.base:] if fr.fault != "d"]


def script_dict(pairs):
    return {int(p): (f if isinstance(f, str) else tuple(f)) for p, f in pairs}


class Stalled(Exception):
    pass


def run_case(cfg, script, R, kind):
    """script: dict or callable; returns Outcome (after judging)"""
    try:
        out = converse(cfg, script)
    except A.AirStall as e:
        R.inconc("real-time watchdog of the air fired (inconclusive, not a verdict): %s" % e)
        raise Stalled()
    applied = applied_script(out)
    case = {"cfg": cfg, "script": applied}
    nontrivial = out.i_end not in ("noact", "act-escape") and len(out.log) > out.base
    R.case(("c04", _cfg_key(cfg), applied), nontrivial=nontrivial)
    R.count("scripts_run")
    R.count("scripts_" + kind)
    if cfg.get("frontend"):
        R.count("scripts_via_real_ContactlessFrontend")
    R.count("scripts_with_%s_faults" % (len(applied) if len(applied) < 4 else "4+"))
    judge(cfg, out, R, case)
    return out


def _cfg_key(cfg):
    return [cfg[k] if not isinstance(cfg[k], (bytes, bytearray)) else bytes(cfg[k]).hex()
            for k in sorted(cfg) if k not in ("fam", "stall_s")]


def exhaustive(cfg, k, lmax, R, cap=None):
    """all scripts with <= k faults {l, c} on frames 0..lmax-1 after activation (depth-first over occurring frames)"""
    stack = [()]
    runs = 0
    while stack:
        s = stack.pop()
        out = run_case(cfg, dict(s), R, "exhaustive")
        runs += 1
        R.count("exhaustive_scripts")
        if cap is not None and runs >= cap:
            R.count("exhaustive_configs_capped")
            return False
        if len(s) < k:
            length = len(out.log) - out.base
            first = s[-1][0] + 1 if s else 0
            for pos in range(first, min(length, lmax)):
                for f in ("l", "c"):
                    stack.append(s + ((pos, f),))
    R.count("exhaustive_configs_completed")
    R.max("max_exhaustive_runs_per_config", runs)
    return True


def bursts(cfg, R, lmax):
    """retry-after-failure, enumerated: every outage of 3..6 consecutive frames (all lost / all corrupted / alternating)
    starting at each of the first lmax frames of the conversation; the initiator application goes on after the failure"""
    out = run_case(cfg, {}, R, "burst")
    length = min(len(out.log) - out.base, lmax)
    for a in range(length):
        for w in (3, 4, 5, 6):
            for kind in ("l", "c", "lc"):
                run_case(cfg, {a + j: kind[j % len(kind)] for j in range(w)}, R, "burst")
    R.count("burst_configs_completed")


def probe_empty(cfg, R, rng):
    """'any payload size': the empty payload at a random position.  Accepted: it is delivered (as b""), a
    CommunicationError, or a clean refusal (ValueError before anything is sent, what Target.exchange() documents)"""
    cfg = dict(cfg)
    n = cfg["n"]
    sizes = list(cfg["sizes_i"])
    sizes[rng.randrange(n)] = 0
    cfg.update(sizes_i=sizes, fam="empty", end="rls", retry=0)
    cfg.pop("tdeact", None)
    R.count("empty_payload_probes")
    return run_case(cfg, {}, R, "empty")


def random_script(rng, cfg):
    rate = rng.choice([0.05, 0.1, 0.2, 0.3, 0.4])
    r = rng.random()
    special = "s" if r < 0.12 else ("t" if r < 0.2 else None)
    srng = random.Random(rng.randrange(1 << 60))

    def script(rel, fr):
        if srng.random() >= rate:
            return "d"
        x = srng.random()
        if special == "s" and x < 0.5 and fr.dir == "T>I":
            return "s"          # replayed response (request-side replays are left to C07)
        if special == "t" and x < 0.4:
            return ("t", srng.randrange(5))
        return "l" if x < 0.7 else "c"
    return script


QUICK_FAMS = ["small3", "ichain", "tchain", "both", "wrap5", "rtox"]
THOROUGH_FAMS = QUICK_FAMS + ["wrap9", "long-chain"]
LONG_FAMS = ["wrap9", "long-chain"]          # quick tier: exhaustive with one fault over the whole conversation


def plan(tier, seed):
    n = 16
    if tier == "quick":
        return [{"k": 2, "lmax": 12, "configs": 8, "fams": QUICK_FAMS, "rand": 1200, "timeout": 600,
                 "long": {"k": 1, "lmax": 40, "configs": 1}, "tdeact": {"k": 2, "lmax": 10, "configs": 1},
                 "burst": {"lmax": 8, "configs": 1}} for _ in range(n)]
    return [{"k": 3, "lmax": 24, "configs": 8, "fams": THOROUGH_FAMS, "rand": 12000, "cap": 20000, "timeout": 3000,
             "long": {"k": 2, "lmax": 40, "configs": 1}, "tdeact": {"k": 3, "lmax": 14, "configs": 2},
             "burst": {"lmax": 24, "configs": 4}} for _ in range(n)]


def run(desc, R, rng):
    shard = desc["shard"]
    fams = desc["fams"]
    all_done = True
    try:
        for j in range(desc["configs"]):
            i = shard + 16 * j + 3 * int(desc.get("seed", 0))
            fam = fams[(shard + j) % len(fams)]
            cfg = family_cfg(rng, i, fam)
            ok = exhaustive(cfg, desc["k"], desc["lmax"], R, desc.get("cap"))
            all_done = all_done and ok
            R.count("exhaustive_fam_" + fam)
            if j < 1:
                R.sample({"exhaustive_config": cfg})
        seedoff = 3 * int(desc.get("seed", 0))
        extra = desc.get("long")
        for j in range(extra["configs"] if extra else 0):
            i = shard + 16 * j + seedoff
            fam = LONG_FAMS[(shard + j) % len(LONG_FAMS)]
            ok = exhaustive(family_cfg(rng, i, fam), extra["k"], extra["lmax"], R, desc.get("cap"))
            all_done = all_done and ok
            R.count("exhaustive_fam_" + fam)
        extra = desc.get("tdeact")
        for j in range(extra["configs"] if extra else 0):
            ok = exhaustive(family_cfg(rng, shard + 16 * j + seedoff, "tdeact"), extra["k"], extra["lmax"], R, desc.get("cap"))
            all_done = all_done and ok
            R.count("exhaustive_fam_tdeact")
        extra = desc.get("burst")
        for j in range(extra["configs"] if extra else 0):
            bursts(family_cfg(rng, shard + 16 * j + seedoff, "burst"), R, extra["lmax"])
        if extra:
            probe_empty(family_cfg(rng, shard + seedoff, "small3"), R, rng)
        for i in range(desc["rand"]):
            cfg = random_cfg(rng, i)
            out = run_case(cfg, random_script(rng, cfg), R, "random")
            if i < 1:
                R.sample({"random_config": cfg, "script": applied_script(out),
                          "frames": [repr(f) for f in out.log[out.base:out.base + 12]]})
    except Stalled:
        all_done = False
    R.exhaustive = all_done


def replay(case, R):
    cfg = dict(case["cfg"])
    for k in ("gbi", "gbt"):
        if isinstance(cfg[k], str):
            cfg[k] = bytes.fromhex(cfg[k])
    try:
        out = converse(cfg, script_dict(case["script"]))
    except A.AirStall as e:
        R.inconc("real-time watchdog of the air fired: %s" % e)
        return
    R.case(("c04", _cfg_key(cfg), applied_script(out)))
    R.count("scripts_run")
    judge(cfg, out, R, {"cfg": cfg, "script": applied_script(out)})


# ------------------------------------------------------------------------------------------------
# witness printer:  PYTHONPATH=/repo/src:/verif /venv/bin/python -m vf.props.c04 did=1 sizes_t=[61] 'script={"1":"c"}'
# ------------------------------------------------------------------------------------------------
BASE_CFG = dict(start="active", brs=0, did=None, nad=None, lri=0, lrt=0, wt=4, gbi=b"", gbt=b"", tmo="roomy", pseed=1,
                n=1, sizes_i=[1], sizes_t=[1], honour=True, end="rls")


def _cli(argv):
    import json
    import logging
    from vf.core.rec import Recorder
    logging.disable(logging.CRITICAL)
    cfg, script = dict(BASE_CFG), {}
    for a in argv:
        k, v = a.split("=", 1)
        if k == "script":
            script = script_dict([(p, f) for p, f in json.loads(v).items()])
        else:
            cfg[k] = json.loads(v)
    if "n" not in [a.split("=", 1)[0] for a in argv]:
        cfg["n"] = len(cfg["sizes_i"])
    out = converse(cfg, script)
    R = Recorder(ID)
    sigs = judge(cfg, out, R, {"cfg": cfg, "script": applied_script(out)})
    for f in out.log:
        rel = f.n - out.base
        print("%4s t=%9.3fms %s %s %-9s LEN-1=%-4s %s %s%s" % (
            rel if rel >= 0 else "act", (f.t - out.log[0].t) * 1e3, f.dir, f.brty, f.p.label, f.p.tdlen, f.data[:10].hex(),
            {"d": "", "l": "<- LOST", "c": "<- CORRUPTED"}.get(f.fault, "<- %r" % (f.fault,)),
            " (late: after the receiver's deadline)" if f.late else ("" if f.heard or f.fault == "l" else " (nobody listening)")))
    print("initiator: %s %s   delivered to it %d/%d" % (out.i_end, out.i_exc or out.i_escape or "", len(out.got_i), cfg["n"]))
    print("target:    %s %s   delivered to it %d/%d   %s" % (out.t_end, repr(out.t_exc or out.t_escape or ""), len(out.got_t), cfg["n"],
                                                           out.t_none or ""))
    if out.i_fails:
        print("initiator calls: ok %s failed %s" % (out.i_ok_idx, [(k, e) for k, e, _ in out.i_fails]))
    print("signatures:", sorted(set(sigs)))


if __name__ == "__main__":
    import sys
    _cli(sys.argv[1:])
