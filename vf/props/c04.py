"""C04 - NFC-DEP delivers each payload exactly once, intact, or reports failure.

A real nfc.dep.Initiator and a real nfc.dep.Target talk over the lock-step air (vf/sim/air.py) on a virtual clock.
Activation is the real one: Initiator.activate() (ATR_REQ, PSL_REQ through sense()/exchange()) and Target.activate()
(through listen(), which plays the driver's part: ATR_RES, PSL_RES, first DEP_REQ), so LR, DID, NAD, bit rate, RWT and
the first request come from the code under observation.  A fault script assigns deliver/lose/corrupt to the frames
that follow activation.

Oracles
  delivery   application history: what Target.exchange() returned is a prefix of what was handed to
             Initiator.exchange(), item by item identical (and the reverse direction); a success report implies the
             delivery; failures are nfc.clf.CommunicationError (target: or None)          sig delivery/.. escape/..
  wire       every frame: LEN-1 <= LR of its receiver (LR read from the ATR_REQ/ATR_RES on the wire),
             start byte F0h iff 106 kbps, LEN byte = frame length                          sig wire/..
  recovery   "Recovery clause, made precise" (DESIGN C04): only lost/corrupted frames, each of them the *first*
             transmission of a request or of the response of a protocol step, at most one per step, every recovery
             frame delivered, roomy time-outs  =>  every exchange succeeds                 sig recovery/..
  hang       frame bound of the air exceeded (logical non-progress)                        sig hang/..
Outside the statement's quantifier but recorded with their own signature family (asked for by the task):
  garbled/.. a frame truncated to 0..4 bytes that passes the receiver's CRC (belongs to C07)
  stale/..   a response replaced by the previous different response (replay): judged by the delivery oracle only.
"""
import hashlib
import random

import nfc
import nfc.clf
import nfc.dep

from vf.core import vclock
from vf.core.rec import exc_sig
from vf.sim import air as A

ID = "C04"
LEVEL = "fault_enumeration"
RULE = ("a case = (configuration, payload sizes, fault script actually applied); configurations: start mode "
        "(active / passive 106A / passive 212F / given 424F target) x bit rate after PSL (106A,212F,424F) x LRi,LRt "
        "0-3 x DID none/1-14 x NAD on/off x WT x RTOX requests x payload sizes {1, n*miu-1, n*miu, n*miu+1, max} both "
        "ways x 1-12 exchanges (PNI wrap); scripts: exhaustive over all <=k faults {lose, corrupt} on the first L "
        "frames after activation (quick k=2 L=12, thorough k=3 L=24; enumerated depth-first over the frames that "
        "really occur, so each script is distinct), then random scripts with 5-40 % faults (one in five of them also "
        "with replayed responses or frames cut to 0-4 bytes: signature families stale/ and garbled/, no recovery "
        "verdict), a fifth of the random ones with tight time-outs (delivery verdict only); non-trivial = the "
        "conversation got through activation and at least one DEP frame was exchanged")
ASSUMPTIONS = [
    "vf.sim.air models the driver level: half-duplex, a lost frame is silence until the receiver's deadline, a "
    "corrupted frame is nfc.clf.TransmissionError at the receiver, the listening driver drops corrupted frames",
    "the target application answers every delivered payload with its next payload; both applications stop at the "
    "first failure; Initiator.deactivate() (RLS_REQ) ends every conversation",
    "None from Target.exchange()/send_timeout_extension() is accepted as a failure report at any time (the statement "
    "allows it 'after release'); in the recovery domain the target must end with None or TimeoutError",
    "roomy time-outs: initiator 8 x RWT (x RTOX factor) + 0.2 s per frame, target far beyond; RTOX is only used with "
    "rtox x RWT <= 0.2 s because Target.send_timeout_extension() has a fixed 1 s deadline",
    "DID 0 and empty payloads are outside the domain; faults are not injected into ATR/PSL frames (activation is C19)",
]
REQUIRED = ["scripts_run", "exhaustive_scripts", "exhaustive_configs_completed", "frames_INF", "frames_ACK",
            "frames_NAK", "frames_ATN", "frames_RTOX", "recovery_clause_checked", "recoveries_retransmission",
            "pni_wraps", "payloads_delivered", "wire_frames_checked", "chained_exchanges"]

BRTY = ("106A", "212F", "424F")
COMM = nfc.clf.CommunicationError


# ------------------------------------------------------------------------------------------------
# workload
# ------------------------------------------------------------------------------------------------
def payload(pseed, direction, seq, n):
    """(direction, sequence number, length, PRNG body) cut to n bytes; the first byte identifies the send"""
    # bit 7/6 = direction (never equal to an RTOX value 1..59), low bits = sequence number
    head = bytes([(0x80 if direction == "T" else 0x40) | (seq & 0x3F), (n >> 8) & 255, n & 255])
    body = random.Random("%s/%s/%d" % (pseed, direction, seq)).randbytes(max(0, n - 3))
    return (head + body)[:n]


def spec_miu(cfg, direction):
    """largest INF payload the *specification* allows the sender: LR(receiver) - CMD0 CMD1 PFB [DID] [NAD]"""
    if direction == "I":
        return A.LR_TABLE[cfg["lrt"]] - 3 - (cfg["did"] is not None) - (cfg["nad"] is not None)
    return A.LR_TABLE[cfg["lri"]] - 3 - (cfg["did"] is not None)


def final_brty(cfg):
    start = {"active": 0, "passive-A": 0, "passive-F": 1, "given-106A": 0, "given-212F": 1, "given-424F": 2}[cfg["start"]]
    return BRTY[max(start, cfg["brs"])]


class Outcome(object):
    def __init__(self):
        self.sent_i, self.sent_t = [], []
        self.got_i, self.got_t = [], []
        self.i_end = self.t_end = None          # "ok" | "none" | exception class name | "noact"
        self.i_exc = self.t_exc = None
        self.i_fail_at = self.t_fail_at = None  # frames on the air when the side failed
        self.i_escape = self.t_escape = None    # non-CommunicationError exception
        self.base = 0
        self.log = []
        self.abort = None
        self.i_calls = 0
        self.t_calls = 0


def converse(cfg, script):
    """one conversation; script: {frame index after activation: fault} or callable(rel, Frame)"""
    n = cfg["n"]
    out = Outcome()
    out.sent_i = [payload(cfg["pseed"], "I", k, cfg["sizes_i"][k]) for k in range(n)]
    out.sent_t = [payload(cfg["pseed"], "T", k, cfg["sizes_t"][k % len(cfg["sizes_t"])]) for k in range(n + 4)]
    rwt = 4096 / 13.56E6 * 2 ** cfg["wt"]
    rtox = {int(k): v for k, v in (cfg.get("rtox") or {}).items()}
    factor = max([1] + list(rtox.values()))
    if cfg["tmo"] == "roomy":
        tmo_i = 8 * rwt * factor + 0.2
        tmo_t = 400 * tmo_i
    else:
        tmo_i = float(cfg["tmo"]) * rwt
        tmo_t = float(cfg.get("tmo_t", 40)) * rwt
    start = cfg["start"]
    mode = {"active": "active", "passive-A": "passive-A", "passive-F": "passive-F", "given-106A": "passive-A",
            "given-212F": "passive-F", "given-424F": "passive-F"}[start]
    fault_free_frames = 2 * n + 8 + sum((s // 40) * 2 for s in cfg["sizes_i"]) + \
        sum((cfg["sizes_t"][k % len(cfg["sizes_t"])] // 40) * 2 for k in range(n))
    air = A.Air(mode=mode, max_frames=300 + 30 * fault_free_frames, stall_s=float(cfg.get("stall_s", 30)))
    vclock.patch([nfc.dep, nfc.clf], air.clock)
    if cfg.get("frontend"):
        iclf, tclf = A.frontend(air.initiator_device()), A.frontend(air.target_device())
    else:
        iclf, tclf = air.initiator, air.target
    ini, tgt = nfc.dep.Initiator(iclf), nfc.dep.Target(tclf)

    def tmain():
        try:
            gb = tgt.activate(timeout=100.0, lrt=cfg["lrt"], rwt=cfg["wt"], gbt=bytes(cfg["gbt"]))
        except A.AirAbort:
            raise
        except Exception as e:
            out.t_end, out.t_escape = "act-escape", e
            return
        if gb is None:
            out.t_end = "noact"
            return
        try:
            out.t_calls += 1
            d = tgt.exchange(None, tmo_t)
            k = 0
            while True:
                if d is None:
                    out.t_end = "none"
                    break
                out.got_t.append(bytes(d))
                if k in rtox:
                    if tgt.send_timeout_extension(rtox[k]) is None:
                        out.t_end = "none"
                        break
                out.t_calls += 1
                d = tgt.exchange(out.sent_t[k] if k < len(out.sent_t) else b"\xEE", tmo_t)
                k += 1
        except COMM as e:
            out.t_end, out.t_exc = type(e).__name__, e
        except A.AirAbort:
            raise
        except Exception as e:
            out.t_end, out.t_escape = "escape", e
        out.t_fail_at = len(air.log)

    def imain():
        opts = dict(brs=cfg["brs"], lri=cfg["lri"], gbi=bytes(cfg["gbi"]), acm=(start == "active"))
        if cfg["did"] is not None:
            opts["did"] = cfg["did"]
        if cfg["nad"] is not None:
            opts["nad"] = cfg["nad"]
        target = None
        if start.startswith("given"):
            brty = start[6:]
            air.brty = brty
            if brty == "106A":
                target = nfc.clf.RemoteTarget(brty, sens_res=bytearray(b"\x01\x01"), sel_res=bytearray(b"\x40"),
                                              sdd_res=bytearray(b"\x08\x01\x02\x03"))
            else:
                target = nfc.clf.RemoteTarget(brty, sensf_res=bytearray.fromhex("0101FE0102030405060000000000000000FFFF"))
            if cfg.get("frontend"):
                iclf.target = target
        try:
            gb = ini.activate(target, **opts)
        except A.AirAbort:
            raise
        except Exception as e:
            out.i_end, out.i_escape = "act-escape", e
            return
        if gb is None:
            out.i_end = "noact"
            return
        air.arm(script)
        out.base = air.script_base
        try:
            for k in range(n):
                out.i_calls += 1
                out.got_i.append(bytes(ini.exchange(out.sent_i[k], tmo_i)))
            out.i_end = "ok"
        except COMM as e:
            out.i_end, out.i_exc = type(e).__name__, e
        except A.AirAbort:
            raise
        except Exception as e:
            out.i_end, out.i_escape = "escape", e
        out.i_fail_at = len(air.log)
        try:
            ini.deactivate()
        except A.AirAbort:
            raise
        except Exception as e:
            if out.i_escape is None:
                out.i_end, out.i_escape = "escape-deactivate", e

    try:
        ie, te = air.run(tmain, imain)
    finally:
        vclock.unpatch([nfc.dep, nfc.clf])
    out.log = air.log
    out.air = air
    out.ini, out.tgt = ini, tgt
    for e in (ie, te):
        if isinstance(e, A.AirAbort):
            out.abort = e
        elif e is not None:
            raise e                      # harness bug
    return out


# ------------------------------------------------------------------------------------------------
# oracles
# ------------------------------------------------------------------------------------------------
def label_frames(out):
    """role of every frame after activation, from the wire alone:
    orig-req / orig-res (first transmission of a step's request / response), rec (ATN, NAK, retransmission), other"""
    roles = {}
    steps = []
    last_orig = None
    prev_req_sub = None
    cur = None
    for fr in out.log[out.base:]:
        p = fr.p
        if fr.dir == "I>T":
            if p.kind != "DEP_REQ" or not p.ok:
                role = "other"
            elif p.sub in ("ATN", "NAK"):
                role = "rec"
            elif prev_req_sub == "ATN" and last_orig is not None and fr.data == last_orig:
                role = "rec"
            else:
                role = "orig-req"
                cur = {"req": fr, "res": None, "faults": 0}
                steps.append(cur)
                last_orig = fr.data
            prev_req_sub = p.sub if p.kind == "DEP_REQ" else None
        else:
            if p.kind != "DEP_RES" or not p.ok:
                role = "other"
            elif p.sub == "ATN":
                role = "rec"
            elif cur is not None and cur["res"] is None:
                role = "orig-res"
                cur["res"] = fr
            else:
                role = "rec"
        roles[fr.n] = (role, cur)
    return roles, steps


def diagnose(out, after, before):
    """what the wire shows between the faulted frame and the failure: which recovery request was not honoured"""
    log = out.log
    hi = len(log) if before is None else min(before, len(log))
    for n in range(after + 1, hi):
        q = log[n]
        if q.dir != "I>T" or q.fault != "d" or not q.heard or q.p.kind != "DEP_REQ":
            continue
        ans = log[n + 1] if n + 1 < len(log) and log[n + 1].dir == "T>I" else None
        if q.p.sub == "ATN" and ans is None:
            return "atn-unanswered"
        if q.p.sub == "ATN" and ans.p.sub != "ATN":
            return "atn-answered-by-" + ans.p.label
        if q.p.sub == "NAK" and ans is None:
            return "nak-unanswered"
        if q.p.sub == "NAK" and not (ans.p.kind == "DEP_RES" and ans.p.sub == "INF"):
            return "nak-answered-by-" + ans.p.label
    return "unrecovered"


def classify(got, idx, sent, direction):
    exp = sent[idx] if idx < len(sent) else None
    if got in sent[:idx]:
        return "duplicate"
    if got in sent[idx + 1:]:
        return "reordered"
    if exp is not None and len(got) < len(exp) and exp.startswith(got):
        return "truncated"
    if exp is not None and 0 < len(got) < len(exp) and exp.endswith(got):
        return "head-missing"
    if exp is not None and got.startswith(exp):
        return "extended"
    if exp is not None and len(got) > 0 and any(got.startswith(s) or s.startswith(got) for s in sent):
        return "mixed"
    if len(got) > 0 and (got[0] & 0xC0) == (0x40 if direction == "T" else 0x80):
        return "foreign"          # starts like a payload of the opposite direction
    return "altered"


def judge(cfg, out, R, case, evidence=True):
    """all oracles on one finished conversation; returns the list of signatures raised"""
    sigs = []

    def viol(sig, what):
        # runs with faults outside the statement's quantifier get their own signature family
        if sig.split("/")[0] in ("delivery", "escape", "hang"):
            if out.garbled:
                sig = "garbled/" + sig
            elif stale:
                sig = "stale/" + sig
        sigs.append(sig)
        R.violation(sig, what, case)

    faults = [fr for fr in out.log[out.base:] if fr.fault != "d"]
    out.garbled = any(isinstance(fr.fault, tuple) for fr in faults)
    stale = any(fr.fault == "s" for fr in faults)
    brty = final_brty(cfg)
    ctx = "%s did=%s nad=%s lri=%d lrt=%d" % (brty, cfg["did"], cfg["nad"], cfg["lri"], cfg["lrt"])

    if out.abort is not None:
        if isinstance(out.abort, A.AirOverrun):
            viol("hang/frame-bound", "conversation exceeded %d frames without ending (%s)" % (out.air.max_frames, ctx))
        return sigs
    if out.i_end in ("noact", "act-escape") or out.t_end == "act-escape":
        # activation is not judged here, but it must work in this fault-free phase: otherwise nothing was checked
        R.count("activation_failed")
        if out.i_escape is not None or out.t_escape is not None:
            e = out.i_escape or out.t_escape
            viol("activation/escape/%s" % exc_sig(e), "fault-free activation raised %r (%s)" % (e, ctx))
        else:
            viol("activation/failed/%s" % cfg["start"], "fault-free activation failed: initiator %s, target %s (%s)"
                 % (out.i_end, out.t_end, ctx))
        return sigs

    # ---- delivery (application history) -------------------------------------------------------
    mismatch = False
    for side, got, sent, d in (("tgt", out.got_t, out.sent_i, "I"), ("ini", out.got_i, out.sent_t, "T")):
        for idx, g in enumerate(got):
            if idx >= len(sent) or g != sent[idx]:
                c = classify(g, idx, sent, d)
                if any(fr.p.sub == "RTOX" and fr.p.ok and bytes(fr.p.data) == g for fr in out.log[out.base:]):
                    c = "rtox-pdu-data"
                viol("delivery/%s/%s" % (side, c),
                     "%s application received a %s payload at position %d (%d bytes, expected %s) (%s)"
                     % (side, c, idx, len(g), len(sent[idx]) if idx < len(sent) else None, ctx))
                mismatch = True
                break
    if mismatch:
        pass            # the counts below would only repeat the finding
    elif len(out.got_t) < len(out.got_i):
        viol("delivery/ini/success-without-delivery",
             "Initiator.exchange() reported success %d times but the target application received only %d payloads (%s)"
             % (len(out.got_i), len(out.got_t), ctx))
    elif len(out.got_i) < len(out.got_t) - 1:
        viol("delivery/tgt/success-without-delivery",
             "Target.exchange() returned the next request %d times but the initiator application received only %d responses (%s)"
             % (len(out.got_t) - 1, len(out.got_i), ctx))
    for side, e in (("ini", out.i_escape), ("tgt", out.t_escape)):
        if e is not None:
            viol("escape/%s/%s" % (side, exc_sig(e)), "%s side raised %r instead of a CommunicationError (%s)" % (side, e, ctx))
    if evidence:
        R.count("payloads_delivered", len(out.got_t) + len(out.got_i))
        R.count("end_ini_" + str(out.i_end))
        R.count("end_tgt_" + str(out.t_end))

    # ---- wire monitor --------------------------------------------------------------------------
    lr = {"I": None, "T": None}          # LR announced by the initiator / by the target, as seen on the wire
    seen_wire = set()
    for fr in out.log:
        p = fr.p
        if p.kind == "ATR_REQ" and p.ok:
            lr["I"] = p.lr
        elif p.kind == "ATR_RES" and p.ok:
            lr["T"] = p.lr
        want = "sb" if fr.brty == "106A" else "len"
        if evidence:
            R.count("wire_frames_checked")
        if p.framing != want:
            s = "wire/framing/%s/%s-at-%s" % (fr.dir, p.framing, fr.brty)
            if s not in seen_wire:
                seen_wire.add(s)
                viol(s, "frame %s at %s: %s" % (fr.data[:6].hex(), fr.brty,
                                                 "LEN byte does not match the frame length" if p.framing == "bad" else
                                                 "start byte F0h must be present exactly at 106 kbps"))
            continue
        rcv_lr = lr["T"] if fr.dir == "I>T" else lr["I"]
        if p.kind in ("ATR_REQ", "ATR_RES"):
            rcv_lr = 64
        if rcv_lr is None or p.tdlen is None:
            continue
        if evidence:
            R.max("max_tdlen_%s_LR%d" % ("toT" if fr.dir == "I>T" else "toI", rcv_lr), p.tdlen)
        if p.tdlen > rcv_lr:
            s = "wire/len>LR/%s/%s" % (p.label, "did" if p.did is not None else "nodid")
            if s not in seen_wire:
                seen_wire.add(s)
                viol(s, "%s frame %s carries %d bytes of transport data, the receiver announced LR=%d (%s)"
                     % (fr.dir, p.label, p.tdlen, rcv_lr, ctx))

    # ---- evidence from the wire ---------------------------------------------------------------
    roles, steps = label_frames(out)
    if evidence:
        last_pni = None
        for fr in out.log[out.base:]:
            p = fr.p
            role = roles[fr.n][0]
            if p.kind in ("DEP_REQ", "DEP_RES") and p.ok:
                R.count("frames_" + p.sub)
                if p.sub == "INF" and p.mi:
                    R.count("frames_INF_chained")
                if role == "rec" and p.sub not in ("ATN", "NAK"):
                    R.count("recoveries_retransmission")
                if role == "orig-req" and p.sub in ("INF", "ACK"):
                    if last_pni == 3 and p.pni == 0:
                        R.count("pni_wraps")
                    last_pni = p.pni
            elif p.kind in ("RLS_REQ", "RLS_RES"):
                R.count("frames_RLS")
            if fr.fault != "d":
                R.count("fault_%s_on_%s" % (fr.fault if isinstance(fr.fault, str) else fr.fault[0], p.label))
                R.seen("fault_positions", fr.n - out.base)
        if any(s > spec_miu(cfg, "I") for s in cfg["sizes_i"][:len(out.got_t)]) or \
           any(len(g) > spec_miu(cfg, "T") for g in out.got_i):
            R.count("chained_exchanges")
        R.seen("configs", "%s/%s/lri%d/lrt%d/%s/%s" % (cfg["start"], brty, cfg["lri"], cfg["lrt"],
                                                        "did" if cfg["did"] is not None else "-",
                                                        "nad" if cfg["nad"] is not None else "-"))
        R.max("max_exchanges_completed", len(out.got_i))
        R.max("max_frames_in_conversation", len(out.log) - out.base)

    # ---- recovery clause ----------------------------------------------------------------------
    in_domain = cfg["tmo"] == "roomy" and not out.garbled and not stale
    for fr in faults:
        role, step = roles[fr.n]
        if fr.fault not in ("l", "c"):
            in_domain = False
        elif role in ("orig-req", "orig-res"):
            step["faults"] += 1
            if step["faults"] > 1:
                in_domain = False
        elif role == "other" and fr.p.kind in ("RLS_REQ", "RLS_RES"):
            pass
        else:
            in_domain = False
    if in_domain:
        if evidence:
            R.count("recovery_clause_checked")
            if faults:
                R.count("recovery_clause_checked_with_faults")
        bad = []
        if out.i_end != "ok":
            bad.append(("ini", out.i_end, out.i_fail_at, out.i_exc))
        if out.t_end not in ("none", "TimeoutError") or len(out.got_t) < cfg["n"]:
            bad.append(("tgt", out.t_end, out.t_fail_at, out.t_exc))
        if "escape" in (out.i_end, out.t_end):
            bad = []          # a side crashed: reported by the escape clause, the peer's failure is its consequence
        if bad:
            bad.sort(key=lambda b: b[2] if b[2] is not None else 1 << 30)
            side, end, at, exc = bad[0]
            cul = [fr for fr in faults if at is None or fr.n < at]
            if cul:
                fr = cul[-1]
                step = roles[fr.n][1]
                lab = fr.p.label
                if step is not None and step["req"].p.sub == "RTOX":
                    lab += "@rtox"
                culprit = "%s/%s" % (lab, {"l": "lost", "c": "corrupt"}[fr.fault])
                culprit += "/" + diagnose(out, fr.n, at)
            else:
                culprit = "no-fault"
            viol("recovery/%s/%s-%s/%s" % (culprit, side, end, "did" if cfg["did"] is not None else "nodid"),
                 "single fault per step (%d faults, all on first transmissions, all recovery frames delivered) but the %s "
                 "side ended with %s%s after %d of %d exchanges (%s)"
                 % (len(faults), side, end, (": %s" % exc) if exc is not None else "", len(out.got_i), cfg["n"], ctx))
    return sigs


# ------------------------------------------------------------------------------------------------
# configurations
# ------------------------------------------------------------------------------------------------
STARTS = ["active", "passive-A", "passive-F", "given-424F", "given-212F", "given-106A"]


def base_cfg(rng, i):
    """framing configuration number i of the grid start x bit rate x DID x NAD x LRi x LRt x WT x general bytes;
    the index is hashed and read as mixed radix digits, so that any arithmetic progression of indices (one per
    shard) walks through all coordinates independently"""
    g = [int.from_bytes(hashlib.blake2b(b"c04-%d" % i, digest_size=8).digest(), "big")]

    def digit(n):
        d = g[0] % n
        g[0] //= n
        return d
    start = STARTS[digit(4)]
    brs = digit(3)
    didc, nadc = digit(4), digit(4)
    lri, lrt = digit(4), digit(4)
    wt = [8, 0, 4, 10, 14, 2][digit(6)]
    gb = digit(4)
    if i % 11 == 0:
        start = STARTS[4 + (i // 11) % 2]
    if start == "passive-F" and brs == 0:
        brs = 1
    did = [None, 1 + i % 14, None, 14 - i % 14][didc]
    nad = [None, None, 1 + (i * 7) % 255, 0][nadc]
    cfg = {"start": start, "brs": brs, "did": did, "nad": nad, "lri": lri, "lrt": lrt,
           "wt": wt, "gbi": b"" if gb & 1 else b"Ffm\x01\x01\x11",
           "gbt": b"" if gb & 2 else b"Ffm\x01\x01\x11\x03\x02\x00\x13", "tmo": "roomy",
           "pseed": rng.randrange(1 << 30), "frontend": i % 8 == 5 and not start.startswith("given")}
    return cfg


def sizes_around(rng, miu, count):
    return [rng.choice([1, 2, miu - 1, miu, miu + 1, miu + 2]) for _ in range(count)]


def family_cfg(rng, i, fam):
    """short conversations for the exhaustive enumeration"""
    cfg = base_cfg(rng, i)
    mi, mt = spec_miu(cfg, "I"), spec_miu(cfg, "T")
    d = rng.choice([-1, 0, 1, 2])
    if fam == "small3":
        cfg.update(n=3, sizes_i=[1, rng.randrange(2, 20), rng.choice([mi - 1, mi])], sizes_t=[rng.choice([mt, 1]), 3, 1])
    elif fam == "ichain":
        cfg.update(n=2, sizes_i=[2 * mi + d, rng.choice([1, mi + 1])], sizes_t=[rng.randrange(1, 30), 1])
    elif fam == "tchain":
        cfg.update(n=2, sizes_i=[rng.randrange(1, 30), 2], sizes_t=[2 * mt + d, rng.choice([1, mt + 1, mt + 2])])
    elif fam == "both":
        cfg.update(n=1, sizes_i=[mi + rng.choice([1, 2, mi])], sizes_t=[mt + rng.choice([1, 2, mt])])
    elif fam == "wrap5":
        cfg.update(n=5, sizes_i=sizes_around(rng, mi, 5)[:4] + [1], sizes_t=[rng.choice([1, 7, mt])] * 5)
        cfg["sizes_i"] = [min(s, mi) for s in cfg["sizes_i"]]
    elif fam == "rtox":
        cfg.update(n=2, sizes_i=[rng.choice([5, mi]), 1], sizes_t=[rng.choice([4, mt, mt + 1]), 2],
                   rtox={"0": rng.choice([1, 2, 7])})
        cfg["wt"] = [0, 2, 4, 5][i % 4]
    elif fam == "wrap9":
        cfg.update(n=9, sizes_i=[min(s, mi) for s in sizes_around(rng, mi, 9)], sizes_t=[rng.choice([1, 9])] * 9)
    elif fam == "long-chain":
        cfg.update(n=2, sizes_i=[4 * mi + d, 1], sizes_t=[3 * mt + d, 1])
    else:
        raise ValueError(fam)
    cfg["fam"] = fam
    return cfg


def random_cfg(rng, i):
    cfg = base_cfg(rng, rng.randrange(10000))
    cfg["lri"], cfg["lrt"] = rng.randrange(4), rng.randrange(4)
    cfg["did"] = rng.choice([None, None, rng.randrange(1, 15)])
    cfg["nad"] = rng.choice([None, None, rng.randrange(256)])
    cfg["wt"] = rng.choice([0, 1, 4, 8, 8, 9, 12, 14])
    mi, mt = spec_miu(cfg, "I"), spec_miu(cfg, "T")
    n = rng.choice([1, 2, 3, 5, 9, 9, 10, 12])
    big = rng.random() < 0.04

    def size(m):
        r = rng.random()
        if big and r < 0.3:
            return 2200
        if r < 0.45:
            return rng.choice([1, 2, 3, rng.randrange(1, m)])
        k = rng.choice([1, 1, 2, 2, 3, 4])
        return max(1, k * m + rng.choice([-1, 0, 1, 2]))
    cfg.update(n=n, sizes_i=[size(mi) for _ in range(n)], sizes_t=[size(mt) for _ in range(n)], fam="random")
    if rng.random() < 0.15:
        cfg["wt"] = rng.choice([0, 2, 4, 5])
        cfg["rtox"] = {str(rng.randrange(n)): rng.choice([1, 3, 10])}
        if rng.random() < 0.3:
            cfg["rtox"][str(rng.randrange(n))] = 2
    if rng.random() < 0.2:
        cfg["tmo"] = rng.choice([0.5, 1.5, 2.5, 3.5])
        cfg["tmo_t"] = rng.choice([1.5, 5, 40])
    return cfg


# ------------------------------------------------------------------------------------------------
# drivers
# ------------------------------------------------------------------------------------------------
def applied_script(out):
    return [[fr.n - out.base, fr.fault if isinstance(fr.fault, str) else list(fr.fault)]
            for fr in out.log[out.base:] if fr.fault != "d"]


def script_dict(pairs):
    return {int(p): (f if isinstance(f, str) else tuple(f)) for p, f in pairs}


class Stalled(Exception):
    pass


def run_case(cfg, script, R, kind):
    """script: dict or callable; returns Outcome (after judging)"""
    try:
        out = converse(cfg, script)
    except A.AirStall as e:
        R.inconc("real-time watchdog of the air fired (inconclusive, not a verdict): %s" % e)
        raise Stalled()
    applied = applied_script(out)
    case = {"cfg": cfg, "script": applied}
    nontrivial = out.i_end not in ("noact", "act-escape") and len(out.log) > out.base
    R.case(("c04", _cfg_key(cfg), applied), nontrivial=nontrivial)
    R.count("scripts_run")
    R.count("scripts_" + kind)
    if cfg.get("frontend"):
        R.count("scripts_via_real_ContactlessFrontend")
    R.count("scripts_with_%s_faults" % (len(applied) if len(applied) < 4 else "4+"))
    judge(cfg, out, R, case)
    return out


def _cfg_key(cfg):
    return [cfg[k] if not isinstance(cfg[k], (bytes, bytearray)) else bytes(cfg[k]).hex()
            for k in sorted(cfg) if k not in ("fam", "stall_s")]


def exhaustive(cfg, k, lmax, R, cap=None):
    """all scripts with <= k faults {l, c} on frames 0..lmax-1 after activation (depth-first over occurring frames)"""
    stack = [()]
    runs = 0
    while stack:
        s = stack.pop()
        out = run_case(cfg, dict(s), R, "exhaustive")
        runs += 1
        R.count("exhaustive_scripts")
        if cap is not None and runs >= cap:
            R.count("exhaustive_configs_capped")
            return False
        if len(s) < k:
            length = len(out.log) - out.base
            first = s[-1][0] + 1 if s else 0
            for pos in range(first, min(length, lmax)):
                for f in ("l", "c"):
                    stack.append(s + ((pos, f),))
    R.count("exhaustive_configs_completed")
    R.max("max_exhaustive_runs_per_config", runs)
    return True


def random_script(rng, cfg):
    rate = rng.choice([0.05, 0.1, 0.2, 0.3, 0.4])
    r = rng.random()
    special = "s" if r < 0.12 else ("t" if r < 0.2 else None)
    srng = random.Random(rng.randrange(1 << 60))

    def script(rel, fr):
        if srng.random() >= rate:
            return "d"
        x = srng.random()
        if special == "s" and x < 0.5 and fr.dir == "T>I":
            return "s"          # replayed response (request-side replays are left to C07)
        if special == "t" and x < 0.4:
            return ("t", srng.randrange(5))
        return "l" if x < 0.7 else "c"
    return script


QUICK_FAMS = ["small3", "ichain", "tchain", "both", "wrap5", "rtox"]
THOROUGH_FAMS = QUICK_FAMS + ["wrap9", "long-chain"]


def plan(tier, seed):
    n = 16
    if tier == "quick":
        return [{"k": 2, "lmax": 12, "configs": 8, "fams": QUICK_FAMS, "rand": 1200, "timeout": 600} for _ in range(n)]
    return [{"k": 3, "lmax": 24, "configs": 8, "fams": THOROUGH_FAMS, "rand": 12000, "cap": 20000, "timeout": 3000}
            for _ in range(n)]


def run(desc, R, rng):
    shard = desc["shard"]
    fams = desc["fams"]
    all_done = True
    try:
        for j in range(desc["configs"]):
            i = shard + 16 * j + 3 * int(desc.get("seed", 0))
            fam = fams[(shard + j) % len(fams)]
            cfg = family_cfg(rng, i, fam)
            ok = exhaustive(cfg, desc["k"], desc["lmax"], R, desc.get("cap"))
            all_done = all_done and ok
            R.count("exhaustive_fam_" + fam)
            if j < 1:
                R.sample({"exhaustive_config": cfg})
        for i in range(desc["rand"]):
            cfg = random_cfg(rng, i)
            out = run_case(cfg, random_script(rng, cfg), R, "random")
            if i < 1:
                R.sample({"random_config": cfg, "script": applied_script(out),
                          "frames": [repr(f) for f in out.log[out.base:out.base + 12]]})
    except Stalled:
        all_done = False
    R.exhaustive = all_done


def replay(case, R):
    cfg = dict(case["cfg"])
    for k in ("gbi", "gbt"):
        if isinstance(cfg[k], str):
            cfg[k] = bytes.fromhex(cfg[k])
    try:
        out = converse(cfg, script_dict(case["script"]))
    except A.AirStall as e:
        R.inconc("real-time watchdog of the air fired: %s" % e)
        return
    R.case(("c04", _cfg_key(cfg), applied_script(out)))
    R.count("scripts_run")
    judge(cfg, out, R, {"cfg": cfg, "script": applied_script(out)})


# ------------------------------------------------------------------------------------------------
# witness printer:  PYTHONPATH=/repo/src:/verif /venv/bin/python -m vf.props.c04 did=1 sizes_t=[61] 'script={"1":"c"}'
# ------------------------------------------------------------------------------------------------
BASE_CFG = dict(start="active", brs=0, did=None, nad=None, lri=0, lrt=0, wt=4, gbi=b"", gbt=b"", tmo="roomy", pseed=1,
                n=1, sizes_i=[1], sizes_t=[1])


def _cli(argv):
    import json
    import logging
    from vf.core.rec import Recorder
    logging.disable(logging.CRITICAL)
    cfg, script = dict(BASE_CFG), {}
    for a in argv:
        k, v = a.split("=", 1)
        if k == "script":
            script = script_dict([(p, f) for p, f in json.loads(v).items()])
        else:
            cfg[k] = json.loads(v)
    cfg["n"] = len(cfg["sizes_i"])
    out = converse(cfg, script)
    R = Recorder(ID)
    sigs = judge(cfg, out, R, {"cfg": cfg, "script": applied_script(out)})
    for f in out.log:
        rel = f.n - out.base
        print("%4s %s %s %-9s LEN-1=%-4s %s %s" % (rel if rel >= 0 else "act", f.dir, f.brty, f.p.label, f.p.tdlen, f.data[:10].hex(),
                                                  {"d": "", "l": "<- LOST", "c": "<- CORRUPTED"}.get(f.fault, "<- %r" % (f.fault,))))
    print("initiator: %s %s   delivered to it %d/%d" % (out.i_end, out.i_exc or out.i_escape or "", len(out.got_i), cfg["n"]))
    print("target:    %s %s   delivered to it %d/%d" % (out.t_end, repr(out.t_exc or out.t_escape or ""), len(out.got_t), cfg["n"]))
    print("signatures:", sorted(set(sigs)))


if __name__ == "__main__":
    import sys
    _cli(sys.argv[1:])
