"""C19 - peer-to-peer activation negotiates limits both sides then obey.

Two complete, real nfcpy stacks (ContactlessFrontend.connect(llcp=...) -> LogicalLinkController.activate ->
nfc.dep.Initiator/Target -> nfc.clf.udp driver) run against each other over vf.sim.fakenet (in-memory datagrams,
logical clock).  Everything the oracle knows about the negotiation is read off the air by an independent decoder
(ISO/IEC 18092 NFC-DEP frame formats, LLCP parameter TLVs through vf.ref.llcp_ref):

    ATR_REQ  D4 00 nfcid3[10] DID BSi BRi PPi [Gi]      PPi/PPt: bits 5..4 LR (0..3 -> 64/128/192/254 bytes of
    ATR_RES  D5 01 nfcid3[10] DID BSt BRt TO PPt [Gt]            transport data CMD0 CMD1 PFB [DID] [NAD] payload),
    PSL_REQ  D4 04 DID BRS FSL                                   bit 1 general bytes present, bit 0 NAD used
    DEP      D4 06 / D5 07 PFB [DID] [NAD] payload      TO bits 3..0 WT; BRS bits 5..3 DSI (I->T), 2..0 DRI (T->I),
                                                        0/1/2 = 106/212/424 kbps; general bytes 46 66 6D + PAX TLVs

Clauses (signature prefix):
  llc/...       the LLC parameters a side uses after activation (send MIU, receive LTO, WKS, LSC) equal what the
                *peer* put on the air
  dep/...       Initiator.miu / Target.miu == LR announced by the peer - (CMD0 CMD1 PFB [DID] [NAD]); the bit rate both
                sides work with == the one selected with `brs`
  announce/...  what a side puts on the air is what its options say (receive MIU, LTO, LSC, WKS, LRi/LRt, WT, BRS)
  air/...       every NFC-DEP frame after the ATR: transport data <= LR of its receiver, bit rate == the one selected
                by PSL_REQ; every LLC PDU (reassembled from the DEP chain): information field <= MIU announced by its
                receiver (aggregates as a whole and each member); every I PDU: service data <= the MIU its receiving
                endpoint announced in the CONNECT / CC that set the connection up (read off the air)
  dlc/...       send() on a data link connection refuses a message that is within the MIU the peer endpoint announced
  lto/...       a side's own silence between receiving a PDU and sending the next one, measured on the logical clock
                (only nfcpy's own sleeps and time-outs advance it), stays within the link time-out it announced
  traffic/...   an exception escapes connect() while the link is used within the announced limits
Traffic after activation (all PDU kinds whose size nfcpy budgets itself), every cell:
  UI    each side sends UI PDUs of exactly the MIU the peer announced, one byte more (must be refused locally), one to
        seven bytes less, bursts of small ones (aggregation) and one group of small ones queued at once whose
        aggregate would be MIU-2 .. MIU+2 octets, from its on-connect callback
  SNL   each side has 2..4 (more when the peer MIU needs it: a name is at most 254 octets) resolve() calls for unbound
        names pending before its link loop collects for the first time (helper threads, started one by one until the
        request is queued); the SDREQ TLV sizes (3 + len(name)) sum to room-3 .. room+6 where room is the peer's MIU
        (initiator) or the peer's MIU minus the 4-octet SDRES the same PDU answers with (target)
  I     one data link connection per cell (the connecting device alternates): connect by address to a socket the peer
        listens on, receive MIU / RW set on both ends (below, equal to and above the link MIU; the CONNECT / CC
        parameters are read off the air), then in both directions I PDUs of exactly the connection MIU, one octet
        more (must be refused locally with EMSGSIZE), small ones queued together (aggregation near the link MIU), DISC
the link then idles for a dozen SYMM turns (at least four after the last planned PDU).  No sampling: every cell of
both tiers carries all of it; the plan is a function of the option tuple (extras_for), stored in the witness.
The helper threads (resolve, connect/accept + send/recv) are not participants of the net clock: they only block on
nfcpy's own condition variables, the logical clock still advances on nfcpy's own sleeps / time-outs only.  Before a
stack's sleep is handed to the net the stack thread waits in *real* time until every helper is parked again, so a
helper reacts "at once" in logical time and the traffic needs the same link turns on a loaded machine.  The harness
keeps the acceptor's accept() and the first I PDU apart (out-of-band event) and lets the connecting side send first,
so the known accept() / I-after-CC races (C05/C06 findings) are not in the way.  Cells whose target announces an RWT
shorter than nfcpy's own pacing lose the link early (counted, as before); their extra traffic is cut short too.
Side observation (not a clause): while a request that does not fit waits, nfcpy pads an aggregate with empty SNL PDUs
(counter snl_empty_inside_agf); they are within every limit.
"""
import math
import random
import sys
import threading
import time as _time

from vf.core.rec import exc_sig, exc_text
from vf.ref import llcp_ref as ref

ID = "C19"
LEVEL = "exploration"
RULE = ("a case is one link activation between two real stacks with one option tuple (thread order, target role "
        "'target'/alternating, brs, lri, lrt, rwt, acm, and per device miu, lto, agf, lsc, SNEP service bound or not; "
        "the options a role ignores are set too); quick: a pairwise-covering array over all 18 parameters + the "
        "brs x lri x lrt x order factorial + random tuples + DID/NAD cells through llc.activate(); thorough: the "
        "complete grid order x brs x lri x lrt x rwt x miu_i x miu_t (51840 cells) with the other parameters "
        "rotated; distinct by option tuple, non-trivial if both sides reached on-connect and the air monitor "
        "compared frames against the announced limits; every cell also carries the extra traffic derived "
        "deterministically from its option tuple: a near-MIU batch of concurrent resolve() calls per side, one data "
        "link connection with I PDUs at the connection MIU in both directions, a near-MIU aggregation group")
ASSUMPTIONS = ["vf.sim.fakenet delivers datagrams unchanged and in order; its logical clock only advances when every "
               "stack thread is blocked, so no protocol time-out fires because of scheduling",
               "the air decoder (ISO/IEC 18092 NFC-DEP frame formats, LR table 64/128/192/254 counting CMD0..payload) "
               "and vf.ref.llcp_ref (LLCP 1.3 TLVs) are faithful readings of the specifications",
               "nfcpy attribute names llc.cfg['send-miu','recv-lto','send-wks','send-lsc'], mac.miu, mac.target.brty "
               "are read through one adapter; a missing name makes the cell inconclusive",
               "both devices are nfcpy; 'role' varies which device/thread initiates and whether the target alternates"]
REQUIRED = ["cells_both_connected", "takeover_checks", "dep_frames_checked", "llc_pdus_checked",
            "oversize_sendto_refused", "psl_exchanges_seen", "frames_of_exactly_lr", "ui_of_exactly_miu",
            "snl_frames_checked", "sdreq_batches_near_miu", "sdreq_batches_just_above_room", "snl_of_exactly_miu",
            "i_pdus_checked", "i_of_exactly_conn_miu", "oversize_send_refused", "connect_cc_pairs_seen",
            "agf_frames_checked", "agf_within_4_of_miu"]

CHECK_LTO_GUARANTEE = True      # clause lto/...

LR = (64, 128, 192, 254)
BRTY = ("106A", "212F", "424F")
MIUS = [128, 129, 247, 248, 1000, 2175]
LTOS = [10, 100, 500, 2550]
PARAMS = [("swap", [0, 1]), ("alt", [False, True]), ("brs", [0, 1, 2]), ("lri", [0, 1, 2, 3]), ("lrt", [0, 1, 2, 3]),
          ("rwt", list(range(15))), ("acm", [None, False, True]),
          ("miu_i", MIUS), ("miu_t", MIUS), ("lto_i", LTOS), ("lto_t", LTOS), ("agf_i", [True, False]),
          ("agf_t", [True, False]), ("lsc_i", [0, 1, 2, 3]), ("lsc_t", [0, 1, 2, 3]), ("snep_i", [False, True]),
          ("snep_t", [False, True]), ("tseed", [0, 1, 2])]
PNAMES = [p for p, _ in PARAMS]
TX_SAP, RX_SAP = 48, 49
DLC_SAP, DLC_CONNECTOR_SAP = 32, 33     # below the UI socket: nfcpy serves the lower address first, I and UI interleave
LINGER_SYMM = 12
LINGER_AFTER = 4                # idle turns after the last planned PDU
EXTRA_TRAFFIC = True            # SNL batches, data link connection, near-MIU aggregation group
RESIDUES = [-3, -2, -1, 0, 0, 1, 1, 1, 2, 2, 3, 4, 5, 6]     # sum of SDREQ TLV sizes - room in the SNL PDU
NAME_PREFIX = b"urn:nfc:sn:c19"
MIN_TLV, MAX_TLV = 3 + len(NAME_PREFIX) + 2, 3 + 254          # SDREQ TLV: T L TID name
END = b"\xffEND"


# ------------------------------------------------------------------------------------------ cells
def pairwise(rng, params, tries=25):
    """greedy covering array: every value pair of every two parameters occurs in some row"""
    doms = [list(d) for _, d in params]
    n = len(doms)
    uncovered = set()
    for a in range(n):
        for b in range(a + 1, n):
            for x in range(len(doms[a])):
                for y in range(len(doms[b])):
                    uncovered.add((a, x, b, y))
    rows = []
    while uncovered:
        a, x, b, y = min(uncovered)
        best, best_gain = None, -1
        for _ in range(tries):
            row = [rng.randrange(len(d)) for d in doms]
            row[a], row[b] = x, y
            gain = 0
            for i in range(n):
                for j in range(i + 1, n):
                    if (i, row[i], j, row[j]) in uncovered:
                        gain += 1
            if gain > best_gain:
                best, best_gain = row, gain
        for i in range(n):
            for j in range(i + 1, n):
                uncovered.discard((i, best[i], j, best[j]))
        rows.append(best)
    return [{params[i][0]: doms[i][v] for i, v in enumerate(r)} for r in rows]


def random_flat(rng):
    return {p: rng.choice(list(d)) for p, d in PARAMS}


def to_cell(flat, rng):
    """flat parameter dict -> cell {"i": device options of the initiating device, "t": ... of the target device}"""
    i = {"brs": flat["brs"], "lri": flat["lri"], "miu": flat["miu_i"], "lto": flat["lto_i"], "agf": flat["agf_i"],
         "lsc": flat["lsc_i"], "snep": flat["snep_i"], "acm": flat["acm"],
         "lrt": rng.randrange(4), "rwt": rng.randrange(15)}                     # ignored by an initiator
    t = {"lrt": flat["lrt"], "rwt": flat["rwt"], "miu": flat["miu_t"], "lto": flat["lto_t"], "agf": flat["agf_t"],
         "lsc": flat["lsc_t"], "snep": flat["snep_t"], "acm": None,
         "brs": rng.randrange(3), "lri": rng.randrange(4)}                      # ignored by a target
    return {"i": i, "t": t, "swap": flat["swap"], "alt": flat["alt"], "did": flat.get("did"), "nad": flat.get("nad"),
            "tseed": flat["tseed"]}


def split_sizes(total, k, xr):
    """k SDREQ TLV sizes (each MIN_TLV..MAX_TLV) that sum to total; k is raised / lowered when total needs it"""
    k = max(k, int(math.ceil(total / float(MAX_TLV))))
    while k > 1 and total < k * MIN_TLV:
        k -= 1
    if total < MIN_TLV:
        return [MIN_TLV]
    parts = [total // k + (1 if j < total % k else 0) for j in range(k)]
    for _ in range(2 * k):                                # move some octets around, the sum stays
        a, b = xr.randrange(k), xr.randrange(k)
        room = min(parts[a] - MIN_TLV, MAX_TLV - parts[b])
        if a != b and room > 0:
            n = xr.randint(0, min(room, 40))
            parts[a] -= n
            parts[b] += n
    return parts


def extras_for(cell):
    """the extra post-activation traffic of a cell, a deterministic function of its option tuple (kept in cell["x"] so
    that a witness replays exactly)"""
    xr = random.Random("C19x|" + repr(cell_key(cell)))
    mi, mt = cell["i"]["miu"], cell["t"]["miu"]
    x = {}
    # SNL: the initiator's batch fills the target's MIU; the target answers with one SDRES (4 octets) per SDREQ that
    # fitted the initiator's first SNL PDU and fills the rest of the initiator's MIU with its own batch
    r_i, r_t = xr.choice(RESIDUES), xr.choice(RESIDUES)
    sz_i = split_sizes(mt + r_i, xr.choice([2, 3, 4]), xr)
    n_res = len(sz_i) if r_i <= 0 else len(sz_i) - 1
    sz_t = split_sizes(mi - 4 * n_res + r_t, xr.choice([2, 3, 4]), xr)
    x["snl"] = {"i": {"room": mt, "resid": r_i, "tlv": sz_i}, "t": {"room": mi - 4 * n_res, "resid": r_t, "tlv": sz_t}}
    # data link connection: who connects, receive MIU and RW of the two endpoints (nfcpy bounds the MIU by the link MIU)

    def want_miu(link):
        return xr.choice([128, max(128, link - 1), link, link, link + 37, 2175, xr.randint(128, link)])
    conn = xr.choice(["i", "t"])
    own = {"i": mi, "t": mt}
    x["dlc"] = {"conn": conn, "miu_c": want_miu(own[conn]), "miu_a": want_miu(own["t" if conn == "i" else "i"]),
                "rw_c": xr.choice([1, 1, 2, 3, 7, 15]), "rw_a": xr.choice([1, 1, 2, 3, 7, 15]),
                "seed": xr.randrange(1 << 16)}
    x["agf"] = {"i": {"n": xr.choice([2, 3, 4, 6]), "delta": xr.choice([-2, -1, 0, 0, 1, 2])},
                "t": {"n": xr.choice([2, 3, 4, 6]), "delta": xr.choice([-2, -1, 0, 0, 1, 2])}}
    return x


def sdreq_names(side, tlv_sizes):
    out = []
    for j, n in enumerate(tlv_sizes):
        head = NAME_PREFIX + side.encode() + bytes([ord("a") + j % 26])
        out.append(head + b"x" * (n - 3 - len(head)))
    return out


def group_sizes(total, n, overhead, cap):
    """n data sizes (each 1..cap) with sum(overhead + size) == total, or [] if that is impossible"""
    while n > 1 and total < n * (overhead + 1):
        n -= 1
    n = max(n, int(math.ceil(total / float(overhead + cap))))
    if n < 2 or total < n * (overhead + 1) or n > 12:
        return []
    data = total - n * overhead
    return [data // n + (1 if j < data % n else 0) for j in range(n)]


def quick_cells(seed):
    rng = random.Random(seed * 7919 + 19)
    flats = pairwise(rng, PARAMS)
    for swap in (0, 1):                                   # the 96-cell factorial of the NFC-DEP negotiation
        for brs in range(3):
            for lri in range(4):
                for lrt in range(4):
                    f = random_flat(rng)
                    f.update(swap=swap, brs=brs, lri=lri, lrt=lrt)
                    flats.append(f)
    for rwt in range(15):                                 # every WT with small and large LTO on the target
        for lto_t in (10, 2550):
            f = random_flat(rng)
            f.update(rwt=rwt, lto_t=lto_t)
            flats.append(f)
    for mi in MIUS:                                       # every MIU pair
        for mt in MIUS:
            f = random_flat(rng)
            f.update(miu_i=mi, miu_t=mt)
            flats.append(f)
    for lri in range(4):                                  # lower level: DID / NAD through llc.activate()
        for did, nad in ((1, None), (14, None), (None, 7), (3, 9)):
            f = random_flat(rng)
            f.update(lri=lri, did=did, nad=nad, lrt=rng.randrange(4), brs=rng.randrange(3),
                     miu_i=rng.choice([248, 1000, 2175]), lto_i=500, lto_t=500)
            flats.append(f)
    return flats, rng


def full_grid_cell(index, rng):
    """index in range(51840): swap x brs x lri x lrt x rwt x miu_i x miu_t, everything else rotated/random"""
    n = index
    flat = {}
    for name, dom in (("miu_t", MIUS), ("miu_i", MIUS), ("rwt", list(range(15))), ("lrt", [0, 1, 2, 3]),
                      ("lri", [0, 1, 2, 3]), ("brs", [0, 1, 2]), ("swap", [0, 1])):
        flat[name] = dom[n % len(dom)]
        n //= len(dom)
    assert n == 0
    for name, dom in PARAMS:
        if name not in flat:
            flat[name] = rng.choice(list(dom))
    return flat


GRID = 2 * 3 * 4 * 4 * 15 * 6 * 6


def plan(tier, seed):
    n = 16
    if tier == "quick":
        return [{"mode": "quick", "part": i, "parts": n, "extra": 70, "timeout": 300} for i in range(n)]
    return [{"mode": "grid", "part": i, "parts": n, "timeout": 3000} for i in range(n)]


# ------------------------------------------------------------------------------------------ air monitor
def dep_unwrap(brty, payload):
    """transport data (CMD0 CMD1 ...) of an NFC-DEP frame or None; 106 kbps frames start with SB = F0"""
    p = bytes(payload)
    if brty == "106A":
        if len(p) < 2 or p[0] != 0xF0:
            return None
        p = p[1:]
    if len(p) < 3 or p[0] != len(p):
        return None
    td = p[1:]
    if td[0] not in (0xD4, 0xD5):
        return None
    return td


def pax_of(gb):
    gb = bytes(gb)
    if not gb.startswith(b"Ffm"):
        return None
    try:
        return ref.decode(b"\x00\x40" + gb[3:])
    except ref.Reject:
        return None


def info_len(d, raw_len):
    if d["t"] in ("UI", "I"):
        return len(d["data"])
    return raw_len - 2


class AirMonitor(object):
    """incremental, independent reading of everything the two udp drivers put on the air"""

    def __init__(self):
        self.sessions = []
        self.cur = None
        self.problems = []          # (signature, text)
        self.error = None
        self.n_dep = 0
        self.n_chained = 0
        self.n_llc = 0
        self.n_exact_lr = 0
        self.n_retx = 0
        self.irregular = 0
        self.max_td = {}            # (dir, lr) -> max transport data length
        self.brtys = set()
        self.undecodable = 0
        self.malformed = 0
        self.direction_mismatch = 0
        self.stop_gap = False       # set when the harness asks the stacks to terminate
        self.n_snl = 0              # SNL PDUs compared with the receiver's MIU (top level or inside an AGF)
        self.n_snl_exact = 0        # ... whose information field is exactly the receiver's MIU
        self.n_snl_near = 0         # ... within 3 octets of it
        self.n_snl_empty = 0
        self.n_snl_multi = 0        # ... with two or more SDREQ
        self.n_snl_res_req = 0      # ... with SDRES and SDREQ
        self.max_sdreq = 0
        self.n_i = 0                # I PDUs compared with the MIU of the receiving connection endpoint
        self.n_i_exact = 0
        self.n_i_noconn = 0         # I PDUs for which no CONNECT/CC pair was seen (not compared)
        self.n_i_in_agf = 0
        self.n_connect = 0
        self.n_cc_pairs = 0
        self.n_agf = 0
        self.n_agf_near = 0         # aggregates within 4 octets of the receiver's MIU
        self.kinds = set()
        self.conn_params = set()    # (miu, rw) seen in CONNECT / CC

    def on_frame(self, f):
        try:
            self._frame(f)
        except Exception as e:          # a monitor bug must not kill a stack thread
            self.error = self.error or exc_text(e)

    def _problem(self, sig, text):
        if len(self.problems) < 40:
            self.problems.append((sig, text))

    def _frame(self, f):
        if f.rfoff:
            return
        if f.payload is None:
            self.malformed += 1
            return
        if f.fate != "delivered":
            return
        td = dep_unwrap(f.brty, f.payload)
        if td is None:
            return
        d = ">" if td[0] == 0xD4 else "<"
        if (d == ">") != bool(f.to_listener):
            self.direction_mismatch += 1
        code = td[1]
        if d == ">" and code == 0x00:
            if len(td) < 16:
                return
            s = {"atr_req": {"did": td[12], "bs": td[13], "br": td[14], "pp": td[15], "lr": (td[15] >> 4) & 3,
                             "nad": td[15] & 1, "gb": td[16:] if td[15] & 2 else b"", "brty": f.brty, "len": len(td)},
                 "atr_res": None, "psl": None, "psl_done": False, "t0": f.t,
                 "buf": {">": b"", "<": b""}, "last_td": {">": None, "<": None}, "pdus": [], "frames": 0,
                 "owes": {"i": None, "t": None}, "max_gap": {"i": 0.0, "t": 0.0}, "closing": False,
                 "ui": {">": [], "<": []}, "symm": {">": 0, "<": 0}, "agf": 0, "final_brty": {},
                 "dep_seen": {">": 0, "<": 0}, "conn_req": {}, "conn": {}, "snl": {">": [], "<": []}}
            self.cur = s
            self.sessions.append(s)
            return
        s = self.cur
        if s is None:
            return
        if d == "<" and code == 0x01:
            if len(td) < 17:
                return
            s["atr_res"] = {"did": td[12], "to": td[15], "wt": td[15] & 15, "pp": td[16], "lr": (td[16] >> 4) & 3,
                            "nad": td[16] & 1, "gb": td[17:] if td[16] & 2 else b"", "brty": f.brty, "len": len(td)}
            s["pax_i"] = pax_of(s["atr_req"]["gb"])
            s["pax_t"] = pax_of(s["atr_res"]["gb"])
            s["owes"]["i"] = f.t
            return
        if s["atr_res"] is None:
            return
        # ---- every frame after the ATR exchange: length and bit rate
        lr_rx = LR[s["atr_res"]["lr"]] if d == ">" else LR[s["atr_req"]["lr"]]
        kind = {0x04: "PSL", 0x05: "PSL", 0x06: "DEP", 0x07: "DEP", 0x08: "DSL", 0x09: "DSL", 0x0A: "RLS",
                0x0B: "RLS"}.get(code, "%02X" % code)
        key = (d, lr_rx)
        if len(td) > self.max_td.get(key, 0):
            self.max_td[key] = len(td)
        if len(td) > lr_rx:
            self._problem("air/frame>lr/%s/%s" % ("to-target" if d == ">" else "to-initiator", kind),
                          "%s frame %s with %d bytes of transport data, receiver announced LR=%d (frame %d)"
                          % (kind, d, len(td), lr_rx, f.n))
        if len(td) == lr_rx:
            self.n_exact_lr += 1
        if s["psl_done"]:
            exp = BRTY[s["psl"]["dsi"]] if d == ">" else BRTY[s["psl"]["dri"]]
        else:
            exp = s["atr_req"]["brty"]
        if exp is not None and f.brty != exp:
            self._problem("air/brty!=selected/%s" % ("to-target" if d == ">" else "to-initiator"),
                          "%s frame %s sent at %s, selected was %s (PSL %s, frame %d)"
                          % (kind, d, f.brty, exp, s["psl"], f.n))
        self.brtys.add(f.brty)
        s["frames"] += 1
        # silence of the sender since the first frame it has not yet answered (logical clock)
        side, other = ("i", "t") if d == ">" else ("t", "i")
        rx = s["owes"][side]
        if rx is not None and not self.stop_gap:
            gap = f.t - rx
            if gap > s["max_gap"][side]:
                s["max_gap"][side] = gap
        s["owes"][side] = None
        if s["owes"][other] is None:
            s["owes"][other] = f.t
        if code == 0x04 and d == ">":
            if len(td) >= 5:
                dsi, dri = (td[3] >> 3) & 7, td[3] & 7
                s["psl"] = {"did": td[2], "brs": td[3], "dsi": dsi if dsi < 3 else None,
                            "dri": dri if dri < 3 else None, "fsl": td[4], "lr": td[4] & 3}
            return
        if code == 0x05 and d == "<":
            if s["psl"] is not None and s["psl"]["dsi"] is not None and s["psl"]["dri"] is not None:
                s["psl_done"] = True
            return
        if code in (0x08, 0x09, 0x0A, 0x0B):
            s["closing"] = True
            return
        if code not in (0x06, 0x07) or len(td) < 3:
            return
        # ---- DEP_REQ / DEP_RES
        self.n_dep += 1
        s["final_brty"][d] = f.brty
        s["dep_seen"][d] += 1
        pfb = td[2]
        i = 3 + bool(pfb & 0x04) + bool(pfb & 0x08)      # PFB [DID] [NAD]
        data = td[i:]
        typ = pfb >> 5
        if typ == 4:
            return                  # supervisory (ATN, RTOX): no packet number, no LLC data
        if s["last_td"][d] == td:
            self.n_retx += 1        # identical to the previous numbered frame in this direction: retransmission
            return                  # (two different consecutive frames always differ in their packet number)
        s["last_td"][d] = td
        if typ != 0:
            return                  # ACK/NACK carry no LLC data
        mi = bool(pfb & 0x10)
        if mi:
            self.n_chained += 1
        s["buf"][d] += data
        if mi:
            return
        pdu, s["buf"][d] = s["buf"][d], b""
        self._llc(s, d, pdu, f)

    def _llc(self, s, d, pdu, f):
        self.n_llc += 1
        pax_rx = s["pax_t"] if d == ">" else s["pax_i"]
        try:
            dec = ref.decode(pdu)
        except ref.Reject:
            self.undecodable += 1
            return
        s["pdus"].append((d, dec["t"], len(pdu)))
        if dec["t"] == "SYMM":
            s["symm"][d] += 1
        if pax_rx is None:
            return
        miu = pax_rx["miu"]
        where = "to-target" if d == ">" else "to-initiator"
        n = info_len(dec, len(pdu))
        if n > miu:
            self._problem("air/llc-pdu>miu/%s/%s" % (dec["t"], where),
                          "%s PDU with %d bytes of information, receiver announced MIU=%d (frame %d)"
                          % (dec["t"], n, miu, f.n))
        if dec["t"] == "AGF":
            s["agf"] += 1
            self.n_agf += 1
            if miu - n <= 4:
                self.n_agf_near += 1
            for sub in ref.flatten(dec):
                m = len(sub["data"]) if sub["t"] in ("UI", "I") else 0
                if m > miu:
                    self._problem("air/llc-pdu>miu/AGF-member-%s/%s" % (sub["t"], where),
                                  "%s inside an AGF with %d bytes, receiver MIU=%d" % (sub["t"], m, miu))
        if dec["t"] == "SNL":
            if n == miu:
                self.n_snl_exact += 1
            if abs(miu - n) <= 3:
                self.n_snl_near += 1
        opp = "<" if d == ">" else ">"
        for sub in ref.flatten(dec):
            t = sub["t"]
            self.kinds.add(t)
            if t == "UI" and sub["dsap"] == RX_SAP and sub["ssap"] == TX_SAP:
                s["ui"][d].append(bytes(sub["data"]))
            elif t == "SNL":
                if not sub["sdreq"] and not sub["sdres"]:
                    self.n_snl_empty += 1       # nfcpy fills an aggregate with empty SNL PDUs while a request waits
                    continue
                self.n_snl += 1
                s["snl"][d].append((len(sub["sdreq"]), len(sub["sdres"]),
                                    sum(3 + len(name) for _, name in sub["sdreq"]) + 4 * len(sub["sdres"])))
                self.n_snl_multi += len(sub["sdreq"]) >= 2
                self.n_snl_res_req += bool(sub["sdreq"] and sub["sdres"])
                self.max_sdreq = max(self.max_sdreq, len(sub["sdreq"]))
            elif t == "CONNECT":
                # the sender's endpoint `ssap` announces the MIU / RW it receives with on this connection
                self.n_connect += 1
                self.conn_params.add((sub["miu"], sub["rw"]))
                s["conn_req"][(d, sub["ssap"])] = {"miu": sub["miu"], "rw": sub["rw"], "by": "CONNECT"}
            elif t == "CC":
                req = s["conn_req"].pop((opp, sub["dsap"]), None)
                if req is not None:
                    self.n_cc_pairs += 1
                    self.conn_params.add((sub["miu"], sub["rw"]))
                    # I PDUs connector -> acceptor are bounded by the CC, acceptor -> connector by the CONNECT
                    s["conn"][(opp, sub["ssap"], sub["dsap"])] = {"miu": sub["miu"], "rw": sub["rw"], "by": "CC"}
                    s["conn"][(d, sub["dsap"], sub["ssap"])] = req
            elif t == "I":
                lim = s["conn"].get((d, sub["dsap"], sub["ssap"]))
                if lim is None:
                    self.n_i_noconn += 1
                    continue
                self.n_i += 1
                self.n_i_in_agf += dec["t"] == "AGF"
                m = len(sub["data"])
                if m == min(lim["miu"], miu):
                    self.n_i_exact += 1
                if m > lim["miu"]:
                    self._problem("air/i-pdu>conn-miu/%s" % where,
                                  "I PDU %d->%d with %d bytes of service data, the receiving endpoint announced MIU=%d "
                                  "in its %s (frame %d)" % (sub["ssap"], sub["dsap"], m, lim["miu"], lim["by"], f.n))

    def conn_limit(self, d, dsap, ssap):
        """{"miu", "rw"} announced on the air by the endpoint that receives I PDUs sent in direction d to dsap from ssap"""
        s = self.final()
        return None if s is None else s["conn"].get((d, dsap, ssap))

    def final(self):
        for s in reversed(self.sessions):
            if s["atr_res"] is not None:
                return s
        return None


# ------------------------------------------------------------------------------------------ one cell
def ui_data(idx, n):
    return bytes([(idx * 37 + j * (idx + 1)) & 0xFF if j else idx for j in range(n)])


def traffic_sizes(miu, seed):
    rs = random.Random(seed)
    small = lambda k: [rs.choice([1, 2, 3, 5, 17, 30, 61, 100]) for _ in range(k)]
    return ([miu, miu + 1] + small(rs.choice([3, 5])) + [max(1, miu - rs.choice([1, 2, 3, 4, 5, 6, 7]))]
            + small(rs.choice([2, 6])) + [miu])


def llcp_options(dev, role):
    o = {"role": role, "brs": dev["brs"], "lri": dev["lri"], "lrt": dev["lrt"], "rwt": dev["rwt"],
         "miu": dev["miu"], "lto": dev["lto"], "agf": dev["agf"], "lsc": dev["lsc"]}
    if dev.get("acm") is not None:
        o["acm"] = dev["acm"]
    return o


def snapshot(llc):
    """adapter: the parameters a stack works with after activation"""
    mac = llc.mac
    return {"send_miu": llc.cfg["send-miu"], "recv_lto": llc.cfg["recv-lto"], "send_wks": llc.cfg["send-wks"],
            "send_lsc": llc.cfg["send-lsc"], "recv_miu": llc.cfg["recv-miu"], "send_lto": llc.cfg["send-lto"],
            "mac_miu": mac.miu, "mac_rwt": mac.rwt, "brty": mac.target.brty, "mac_role": mac.role}


class CellRun(object):
    def __init__(self, cell):
        self.cell = cell
        self.snap = {}
        self.adapter_error = None
        self.sent = {"i": [], "t": []}          # UI payloads accepted by sendto, in order
        self.refused = {"i": [], "t": []}       # sizes refused with EMSGSIZE
        self.sendto_error = {}
        self.mon = AirMonitor()
        self.res = None
        self.net = None
        self.done_polls = 0
        # extra traffic
        self.x = cell.get("x")
        self.helpers = []                       # helper threads (not participants of the net clock)
        self.extra_started = set()
        self.batch = {}                         # side -> {"names", "pending", "room", "sum"}
        self.resolved = {"i": {}, "t": {}}      # name -> value returned by resolve() (or repr of an exception)
        self.dlc = {}                           # side -> state of its data link connection endpoint
        self.srv = {}
        self.accepted = threading.Event()
        self.helper_error = None
        self.agf_group = {"i": [], "t": []}
        self.linger_from = None
        self.helper_waits_expired = 0
        self.helpers_stuck = 0

    def helpers_alive(self):
        return any(th.is_alive() for th in self.helpers)


def sd_pending(llc):
    """adapter: number of service name requests that wait for the next SNL PDU"""
    return len(llc.sap[1].sdreq)


def run_cell(cell):
    import errno
    import nfc
    import nfc.dep
    import nfc.llcp
    import nfc.llcp.llc
    from vf.sim import fakenet

    if EXTRA_TRAFFIC and "x" not in cell:
        cell = dict(cell, x=extras_for(cell))
    cr = CellRun(cell)
    x = cr.x if EXTRA_TRAFFIC else None
    net = cr.net = fakenet.FakeNet(clock="virtual", stall_limit=15.0)
    mon = cr.mon
    net.observers.append(mon.on_frame)
    DLC = nfc.llcp.DATA_LINK_CONNECTION

    def startup(side):
        dev = cell[side]

        def on_startup(llc):
            rx = nfc.llcp.Socket(llc, nfc.llcp.LOGICAL_DATA_LINK)
            rx.setsockopt(nfc.llcp.SO_RCVBUF, 64)
            rx.bind(RX_SAP)
            if dev.get("snep"):
                nfc.llcp.Socket(llc, DLC).bind("urn:nfc:sn:snep")
            if x is not None and x["dlc"]["conn"] != side:
                srv = nfc.llcp.Socket(llc, DLC)
                srv.setsockopt(nfc.llcp.SO_RCVMIU, x["dlc"]["miu_a"])
                srv.setsockopt(nfc.llcp.SO_RCVBUF, x["dlc"]["rw_a"])
                srv.bind(DLC_SAP)
                srv.listen(1)
                cr.srv[side] = srv
            return llc
        return on_startup

    # A helper thread reacts to what the link loop hands it (CC, I PDU, SDRES) in real time while the link loop only
    # sleeps on the logical clock.  Before a stack's sleep is passed to the net, wait (real time, bounded) until every
    # helper thread is parked in a condition variable again, i.e. has done everything it can do with what it got: the
    # traffic then needs the same few link turns on a loaded machine as on an idle one.
    net_sleep = net._sleep

    def blocked(th, frames):
        f = frames.get(th.ident)
        return f is None or (f.f_code.co_name == "wait" and f.f_code.co_filename.endswith("threading.py"))

    def patient_sleep(seconds):
        if cr.helpers and threading.current_thread() not in cr.helpers and cr.helpers_alive():
            t0 = None
            _time.sleep(0.00005)        # a thread that has just been notified still looks parked: let it run first
            while True:
                frames = sys._current_frames()
                if all(blocked(th, frames) for th in cr.helpers if th.is_alive()):
                    break
                if t0 is None:
                    t0 = _time.time()
                elif _time.time() - t0 > 0.05:
                    cr.helper_waits_expired += 1
                    break
                _time.sleep(0.00005)
        return net_sleep(seconds)
    if x is not None:
        net._sleep = patient_sleep

    def helper(fn, name):
        def body():
            try:
                fn()
            except Exception as e:                  # a harness bug: reported as inconclusive
                cr.helper_error = cr.helper_error or exc_text(e)
        th = threading.Thread(target=body, name=name, daemon=True)
        cr.helpers.append(th)
        th.start()
        return th

    # ---- (1) a batch of concurrent resolve() calls, pending before the link loop collects
    def start_batch(side, llc):
        plan = x["snl"][side]
        names = sdreq_names(side, plan["tlv"])
        b = cr.batch[side] = {"names": names, "pending": 0, "room": plan["room"], "sum": sum(plan["tlv"]),
                              "k": len(names), "confirmed": False}

        def resolver(name):
            def run():
                try:
                    v = nfc.llcp.Socket(llc, None).resolve(name)
                except nfc.llcp.Error as e:
                    v = repr(e)
                cr.resolved[side][name] = v
            return run
        try:
            base = sd_pending(llc)
        except Exception as e:
            cr.adapter_error = cr.adapter_error or exc_text(e)
            return
        for j, name in enumerate(names):            # one by one: the order of the requests is the order of the names
            helper(resolver(name), "resolve-%s%d" % (side, j))
            t0 = _time.time()
            while sd_pending(llc) - base < j + 1 and _time.time() - t0 < 3.0:
                _time.sleep(0.0002)
        b["pending"] = sd_pending(llc) - base
        b["confirmed"] = b["pending"] == len(names)

    # ---- (2) one data link connection, I PDUs at the connection MIU in both directions
    def dlc_send(sock, st, lim, pax_peer, seed):
        """I PDUs to the peer endpoint, which announced lim = {"miu", "rw"} on the air"""
        rs = random.Random(seed)
        top = min(lim["miu"], pax_peer["miu"])
        st["limit"] = top
        group = group_sizes(pax_peer["miu"] + rs.choice([-2, -1, 0, 1, 2]), min(max(lim["rw"], 1), 4), 5, top)
        if not group:
            group = [rs.choice([1, 2, 3, 5, 9]) for _ in range(min(max(lim["rw"], 1), 3))]
        plan = [(top + 1, 0), (top, 0)] + [(n, nfc.llcp.MSG_DONTWAIT) for n in group]
        if top <= 300:
            plan += [(max(1, top - rs.choice([1, 2, 3])), 0), (top, 0)]
        for idx, (n, flags) in enumerate(plan):
            data = ui_data(idx, n)
            try:
                try:
                    ok = sock.send(data, flags)
                except nfc.llcp.Error as e:
                    if e.errno != errno.EWOULDBLOCK:
                        raise
                    ok = sock.send(data, 0)         # send window closed: wait for it
                st["sent"].append(n)
                if not ok:
                    return False
            except nfc.llcp.Error as e:
                if e.errno == errno.EMSGSIZE:
                    st["refused"].append(n)
                else:
                    raise
        sock.send(END, 0)       # its return value says whether the connection is still up *after* the PDU went out:
        return True             # the peer may have answered the END with its DISC already

    def dlc_recv(sock, st):
        for _ in range(64):
            data = sock.recv()
            if data is None:
                return False
            if bytes(data) == END:
                return True
            st["rcvd"].append(len(data))
        return False

    def new_state(side, role):
        st = cr.dlc[side] = {"role": role, "phase": "start", "sent": [], "refused": [], "rcvd": [], "error": None,
                             "limit": None}
        return st

    def connector(side, llc, pax_peer):
        st = new_state(side, "connector")
        d = ">" if side == "i" else "<"

        def run():
            try:
                sock = nfc.llcp.Socket(llc, DLC)
                sock.setsockopt(nfc.llcp.SO_RCVMIU, x["dlc"]["miu_c"])
                sock.setsockopt(nfc.llcp.SO_RCVBUF, x["dlc"]["rw_c"])
                sock.bind(DLC_CONNECTOR_SAP)
                sock.connect(DLC_SAP)
                st["phase"] = "connected"
                cr.accepted.wait(5.0)               # keep clear of the accept()/first-I race (see the module text)
                lim = mon.conn_limit(d, sock.getpeername(), sock.getsockname())
                if lim is None:
                    st["error"] = "no CONNECT/CC pair on the air"
                    return
                if not dlc_send(sock, st, lim, pax_peer, x["dlc"]["seed"]):
                    return
                st["phase"] = "sent"
                if not dlc_recv(sock, st):
                    return
                st["phase"] = "received"
                sock.close()
                st["phase"] = "closed"
            except nfc.llcp.Error as e:
                st["error"] = repr(e)
        return run

    def acceptor(side, llc, pax_peer):
        st = new_state(side, "acceptor")
        d = ">" if side == "i" else "<"

        def run():
            try:
                try:
                    sock = cr.srv[side].accept()
                finally:
                    cr.accepted.set()
                st["phase"] = "connected"
                if not dlc_recv(sock, st):
                    return
                st["phase"] = "received"
                lim = mon.conn_limit(d, sock.getpeername(), sock.getsockname())     # the CC went out after accept()
                if lim is None:
                    st["error"] = "no CONNECT/CC pair on the air"
                    return
                if not dlc_send(sock, st, lim, pax_peer, x["dlc"]["seed"] + 1):
                    return
                st["phase"] = "sent"
                if sock.recv() is None:             # the connector's DISC
                    st["phase"] = "closed"
                sock.close()
            except nfc.llcp.Error as e:
                st["error"] = repr(e)
        return run

    def on_connect(side):
        def cb(llc):
            try:
                cr.snap[side] = snapshot(llc)
            except Exception as e:
                cr.adapter_error = cr.adapter_error or exc_text(e)
                return True
            s = mon.final()
            pax_peer = None if s is None else (s["pax_t"] if side == "i" else s["pax_i"])
            if pax_peer is None:
                return True
            extra = x is not None and side not in cr.extra_started
            if extra:
                cr.extra_started.add(side)
                start_batch(side, llc)
            tx = nfc.llcp.Socket(llc, nfc.llcp.LOGICAL_DATA_LINK)
            tx.bind(TX_SAP)
            sizes = traffic_sizes(pax_peer["miu"], cell["tseed"] * 2 + (side == "t"))
            if extra:
                # (3) small PDUs queued at once whose aggregate would have MIU + delta octets of information
                g = x["agf"][side]
                cr.agf_group[side] = group_sizes(pax_peer["miu"] + g["delta"], g["n"], 4, pax_peer["miu"])
                sizes = sizes + cr.agf_group[side]
            for idx, n in enumerate(sizes):
                data = ui_data(idx, n)
                try:
                    tx.sendto(data, RX_SAP, nfc.llcp.MSG_DONTWAIT)
                    cr.sent[side].append(data)
                except nfc.llcp.Error as e:
                    if e.errno == errno.EMSGSIZE:
                        cr.refused[side].append(n)
                    else:
                        cr.sendto_error[side] = repr(e)
            if extra:
                if x["dlc"]["conn"] == side:
                    helper(connector(side, llc, pax_peer), "dlc-connect-" + side)
                elif side in cr.srv:
                    helper(acceptor(side, llc, pax_peer), "dlc-accept-" + side)
            return True
        return cb

    def terminate(res, side):
        if not res.both_connected:
            return res.polls[side] > 400
        s = mon.final()
        if s is None:
            return True
        done = (len(s["ui"][">"]) >= len(cr.sent["i"]) and len(s["ui"]["<"]) >= len(cr.sent["t"])
                and not cr.helpers_alive())
        if done and cr.linger_from is None:
            cr.linger_from = (s["symm"][">"], s["symm"]["<"])
        if done:        # the planned traffic is through: a few more idle turns
            done = (s["symm"][">"] >= max(LINGER_SYMM, cr.linger_from[0] + LINGER_AFTER)
                    and s["symm"]["<"] >= max(LINGER_SYMM, cr.linger_from[1] + LINGER_AFTER))
        if done or res.polls[side] > 3000:
            mon.stop_gap = True
            return True
        return False

    oi = llcp_options(cell["i"], "initiator")
    ot = llcp_options(cell["t"], None if cell.get("alt") else "target")
    oi["on-startup"] = startup("i")
    ot["on-startup"] = startup("t")

    connect_i = None
    if cell.get("did") is not None or cell.get("nad") is not None:
        def connect_i(clf, o, term):
            """what ContactlessFrontend._llcp_connect does, plus the did/nad options of Initiator.activate"""
            llc = nfc.llcp.llc.LogicalLinkController(**o)
            llc = o["on-startup"](llc)
            dep_cfg = {k: o[k] for k in ("brs", "acm", "rwt", "lrt", "lri") if k in o}
            if cell.get("did") is not None:
                dep_cfg["did"] = cell["did"]
            if cell.get("nad") is not None:
                dep_cfg["nad"] = cell["nad"]
            while not term():
                if llc.activate(mac=nfc.dep.Initiator(clf=clf), **dep_cfg):
                    if o["on-connect"](llc):
                        llc.run(terminate=term)
                        return o["on-release"](llc)
                    return llc
            return None

    with net.installed():
        if cell.get("swap"):
            # thread order: the initiating device is created and started first
            cr.res = _run_pair_swapped(fakenet, net, oi, ot, on_connect("i"), on_connect("t"), terminate, connect_i)
        else:
            cr.res = fakenet.run_llcp_pair(net, oi, ot, on_connect("i"), on_connect("t"), terminate,
                                           watchdog=30.0, max_polls=6000, connect_i=connect_i)
    t0 = _time.time()
    for th in cr.helpers:           # the link is down: every blocked socket call has been released
        th.join(max(0.0, 2.0 - (_time.time() - t0)))
    cr.helpers_stuck = sum(th.is_alive() for th in cr.helpers)
    return cr


def _run_pair_swapped(fakenet, net, oi, ot, cbi, cbt, terminate, connect_i):
    """same pair, but the roles of the two threads/devices are exchanged: run_llcp_pair starts side "t" first, so
    hand it the initiator's options as side "t" and translate the result back"""
    def term(res, side):
        return terminate(_Swapped(res), "i" if side == "t" else "t")
    res = fakenet.run_llcp_pair(net, ot, oi, cbt, cbi, term, watchdog=30.0, max_polls=6000, connect_t=connect_i)
    return _Swapped(res)


class _Swapped(object):
    def __init__(self, res):
        self._r = res

    def __getattr__(self, name):
        v = getattr(self._r, name)
        if isinstance(v, dict) and set(v.keys()) == {"i", "t"}:
            return {"i": v["t"], "t": v["i"]}
        return v


# ------------------------------------------------------------------------------------------ verdicts
def clamp(v, lo, hi):
    return min(max(lo, v), hi)


def evaluate(cr):
    """-> (status, violations [(sig, what)], observations dict); status 'ok' | 'partial' | 'inconclusive:<why>'"""
    cell, res, mon = cr.cell, cr.res, cr.mon
    V = []
    obs = {}
    if mon.error:
        return "inconclusive:monitor error " + mon.error[-300:], V, obs
    if cr.helper_error:
        return "inconclusive:harness helper thread failed " + cr.helper_error[-400:], V, obs
    if res.exc_cb["i"] or res.exc_cb["t"]:
        e = res.exc_cb["i"] or res.exc_cb["t"]
        return "inconclusive:harness callback failed " + exc_text(e)[-400:], V, obs
    if cr.adapter_error:
        return "inconclusive:adapter " + cr.adapter_error[-300:], V, obs
    for side, role in (("i", "initiator"), ("t", "target")):
        e = res.exc[side]
        if e is not None:
            V.append(("traffic/escape/%s/%s" % (exc_sig(e), role),
                      "%s escaped connect() on the %s: %r" % (type(e).__name__, role, e)))
    s = mon.final()
    if s is None:
        if V:
            return "partial", V, obs
        return "inconclusive:no ATR exchange on the air (%s)" % (res.inconclusive,), V, obs
    for side, role in (("i", "Initiator"), ("t", "Target")):
        if side in cr.snap and cr.snap[side]["mac_role"] != role:
            return "inconclusive:roles came out exchanged", V, obs
    di, dt = cell["i"], cell["t"]
    ai, at = s["atr_req"], s["atr_res"]
    pi, pt = s["pax_i"], s["pax_t"]
    obs.update(lri=ai["lr"], lrt=at["lr"], wt=at["wt"], psl=None if s["psl"] is None else s["psl"]["brs"],
               did=ai["did"], pax_i=None if pi is None else (pi["miu"], pi["lto"], pi["wks"], pi["lsc"]),
               pax_t=None if pt is None else (pt["miu"], pt["lto"], pt["wks"], pt["lsc"]))
    if pi is None or pt is None:
        V.append(("announce/general-bytes-unreadable", "general bytes of ATR_REQ/ATR_RES carry no readable LLCP "
                  "parameters: %r %r" % (bytes(ai["gb"]), bytes(at["gb"]))))
        return "partial", V, obs

    # ---- announce: what goes on the air is what the options say
    def ann(name, wire, opt, who):
        if wire != opt:
            V.append(("announce/%s!=option/%s" % (name, who), "%s announced %s=%r on the air, option says %r"
                      % (who, name, wire, opt)))
    ann("lri", ai["lr"], clamp(di["lri"], 0, 3), "initiator")
    ann("lrt", at["lr"], clamp(dt["lrt"], 0, 3), "target")
    ann("wt", at["wt"], clamp(dt["rwt"], 0, 14), "target")
    for who, p, dev in (("initiator", pi, di), ("target", pt, dt)):
        ann("miu", p["miu"], dev["miu"], who)
        ann("lto", p["lto"], dev["lto"], who)
        ann("lsc", p["lsc"], dev["lsc"], who)
        ann("wks", p["wks"], 0x0003 | (0x0010 if dev["snep"] else 0), who)
    ann("did", ai["did"], cell.get("did") or 0, "initiator")
    ann("nad", ai["nad"], int(cell.get("nad") is not None), "initiator")
    want_brs = clamp(di["brs"], 0, 2)
    start_idx = BRTY.index(ai["brty"]) if ai["brty"] in BRTY else 0
    if want_brs > start_idx:
        if s["psl"] is None:
            V.append(("announce/psl-missing", "brs=%d selected but no PSL_REQ on the air (link found at %s)"
                      % (want_brs, ai["brty"])))
        elif (s["psl"]["dsi"], s["psl"]["dri"]) != (want_brs, want_brs):
            V.append(("announce/psl-brs!=option", "PSL_REQ BRS=%02X (DSI=%s DRI=%s) but option brs=%d"
                      % (s["psl"]["brs"], s["psl"]["dsi"], s["psl"]["dri"], want_brs)))
    exp_brty = BRTY[max(want_brs, start_idx)]

    # ---- take-over: each side works with what the peer announced
    n_take = 0
    for side, role, peer in (("i", "initiator", pt), ("t", "target", pi)):
        sn = cr.snap.get(side)
        if sn is None:
            continue
        for name, key, sig in (("send MIU", "send_miu", "llc/send-miu!=peer-announced"),
                               ("receive LTO", "recv_lto", "llc/recv-lto!=peer-announced"),
                               ("WKS", "send_wks", "llc/wks!=peer-announced"),
                               ("LSC", "send_lsc", "llc/lsc!=peer-announced")):
            wire = peer[{"send_miu": "miu", "recv_lto": "lto", "send_wks": "wks", "send_lsc": "lsc"}[key]]
            n_take += 1
            if sn[key] != wire:
                V.append(("%s/%s" % (sig, role), "%s uses %s=%r, the peer announced %r" % (role, name, sn[key], wire)))
        if sn["brty"] != exp_brty:
            V.append(("dep/brty!=selected/%s" % role, "%s works at %s, selected was %s (brs=%d)"
                      % (role, sn["brty"], exp_brty, want_brs)))
    hdr = 3 + int(ai["did"] != 0)
    if "i" in cr.snap:
        n_take += 1
        exp = LR[at["lr"]] - hdr - int(ai["nad"])
        if cr.snap["i"]["mac_miu"] != exp:
            V.append(("dep/miu!=peer-lr/initiator", "Initiator payload limit %r, target announced LR=%d, header "
                      "CMD0 CMD1 PFB%s%s -> %d" % (cr.snap["i"]["mac_miu"], LR[at["lr"]], " DID" * (ai["did"] != 0),
                                                   " NAD" * ai["nad"], exp)))
        wt = at["wt"] if at["wt"] < 15 else 14
        obs["rwt_ok"] = abs(cr.snap["i"]["mac_rwt"] - 4096 / 13.56E6 * 2 ** wt) < 1e-9
    if "t" in cr.snap:
        n_take += 1
        exp = LR[ai["lr"]] - hdr - int(at["nad"])
        if cr.snap["t"]["mac_miu"] != exp:
            V.append(("dep/miu!=peer-lr/target" + ("/did" if ai["did"] else ""),
                      "Target payload limit %r, initiator announced LR=%d, header CMD0 CMD1 PFB%s%s -> %d"
                      % (cr.snap["t"]["mac_miu"], LR[ai["lr"]], " DID" * (ai["did"] != 0), " NAD" * at["nad"], exp)))
    obs["takeover_checks"] = n_take

    # ---- air
    for sig, text in mon.problems:
        V.append((sig, text))
    for d, role in ((">", "initiator"), ("<", "target")):
        b = s["final_brty"].get(d)
        if b is not None and b != exp_brty:
            V.append(("air/brty!=option/%s" % role, "%s sends data frames at %s, brs=%d selects %s"
                      % (role, b, want_brs, exp_brty)))
    if s["psl_done"] and res.connected["i"] and not res.connected["t"] and s["dep_seen"][">"] and not s["dep_seen"]["<"]:
        V.append(("dep/brty!=selected/target-deaf", "after PSL (BRS=%02X) the initiator's DEP_REQ frames at %s were "
                  "delivered but the target never answered nor got activated" % (s["psl"]["brs"], s["final_brty"].get(">"))))
    # ---- local enforcement of the announced MIU
    for side, role, peer in (("i", "initiator", pt), ("t", "target", pi)):
        if side in cr.snap and peer["miu"] + 1 not in cr.refused[side]:
            pass            # accepted: it went on the air and the air monitor judged it
        if side in cr.sendto_error:
            V.append(("llc/sendto-error/%s" % role, "sendto within the announced MIU failed: %s" % cr.sendto_error[side]))
        if side in cr.snap and any(n <= peer["miu"] for n in cr.refused[side]):
            V.append(("llc/sendto-refuses-announced-miu/%s" % role, "UI of %r bytes refused, peer announced MIU=%d"
                      % (cr.refused[side], peer["miu"])))
    # ---- extra traffic: local enforcement on the data link connection, what was planned and what got through
    if cr.x is not None:
        near = above = 0
        for side in ("i", "t"):
            b = cr.batch.get(side)
            if b is not None and b["confirmed"]:
                r = b["sum"] - b["room"]
                near += -3 <= r <= 6
                above += 1 <= r <= b["k"] - 1         # the whole batch is one octet .. k-1 octets too long for the PDU
        obs["batches_near"], obs["batches_above"] = near, above
        obs["resolve_calls"] = sum(len(cr.batch[sd]["names"]) for sd in cr.batch)
        obs["resolve_answers"] = sum(1 for sd in cr.batch for v in cr.resolved[sd].values() if v == 0)
        obs["snl_complete"] = (len(cr.batch) == 2 and obs["resolve_calls"] == obs["resolve_answers"])
        n_ref = 0
        for side, role in (("i", "initiator"), ("t", "target")):
            st = cr.dlc.get(side)
            if st is None or st["limit"] is None:
                continue
            n_ref += sum(1 for n in st["refused"] if n > st["limit"])
            if any(n <= st["limit"] for n in st["refused"]):
                V.append(("dlc/send-refuses-announced-miu/%s" % role, "send() of %r bytes on the data link connection "
                          "refused with EMSGSIZE, the peer endpoint announced MIU=%d (link MIU %d)"
                          % ([n for n in st["refused"] if n <= st["limit"]], st["limit"],
                             (pt if side == "i" else pi)["miu"])))
        obs["dlc_refused"] = n_ref
        obs["dlc_complete"] = (len(cr.dlc) == 2 and all(st["phase"] == "closed" for st in cr.dlc.values()))
        obs["dlc_errors"] = sorted("%s:%s:%s" % (st["role"], st["phase"], st["error"]) for st in cr.dlc.values()
                                   if st["error"])
    # ---- LTO guarantee on the logical clock
    if CHECK_LTO_GUARANTEE:
        for side, role, own in (("i", "initiator", pi), ("t", "target", pt)):
            gap_ms = s["max_gap"][side] * 1000.0
            obs["gap_" + side] = gap_ms
            if gap_ms > own["lto"] + 1e-6:
                V.append(("lto/own-idle-delay>announced-lto/%s" % role,
                          "%s stayed silent %.1f ms (its own sleeps/time-outs only) after receiving a PDU, it announced "
                          "LTO=%d ms" % (role, gap_ms, own["lto"])))
    # ---- side observation (not in the property statement): the target answers later than the RWT it announced
    obs["rwt_exceeded"] = s["max_gap"]["t"] > 4096 / 13.56E6 * 2 ** min(at["wt"], 14) + 1e-9
    # ---- traffic integrity (harness sanity, not a verdict)
    obs["ui_ok"] = (s["ui"][">"][:len(cr.sent["i"])] == cr.sent["i"][:len(s["ui"][">"])]
                    and s["ui"]["<"][:len(cr.sent["t"])] == cr.sent["t"][:len(s["ui"]["<"])])
    obs["ui_complete"] = len(s["ui"][">"]) >= len(cr.sent["i"]) and len(s["ui"]["<"]) >= len(cr.sent["t"])
    obs["max_ui"] = max([len(x) for x in s["ui"][">"] + s["ui"]["<"]] or [0])
    obs["exact_miu"] = sum(1 for x in s["ui"][">"] if len(x) == pt["miu"]) + sum(1 for x in s["ui"]["<"] if len(x) == pi["miu"])
    obs["final_brty"] = exp_brty
    if not res.both_connected:
        return "partial", V, obs
    if res.inconclusive:
        return "inconclusive:" + str(res.inconclusive), V, obs
    return "ok", V, obs


def cell_key(cell):
    return [cell["swap"], cell.get("alt"), cell.get("did"), cell.get("nad"), cell["tseed"],
            sorted(cell["i"].items(), key=str), sorted(cell["t"].items(), key=str)]


def do_cell(cell, R, record=True):
    cr = run_cell(cell)
    cell = cr.cell                  # with the derived extra traffic plan ("x"), so that a witness replays exactly
    status, V, obs = evaluate(cr)
    mon = cr.mon
    nontrivial = status == "ok"
    R.case(cell_key(cell), nontrivial=nontrivial)
    R.count("cells")
    R.count("cells_" + status.split(":")[0])
    if cr.res.both_connected:
        R.count("cells_both_connected")
    if cell.get("did") is not None or cell.get("nad") is not None:
        R.count("cells_did_nad")
    if status.startswith("inconclusive"):
        R.inconc("cell %r: %s" % (cell, status))
    for sig, what in V:
        R.violation(sig, what, {"cell": cell})
    R.count("takeover_checks", obs.get("takeover_checks", 0))
    R.count("dep_frames_checked", mon.n_dep)
    R.count("dep_chained_frames", mon.n_chained)
    R.count("llc_pdus_checked", mon.n_llc)
    R.count("frames_of_exactly_lr", mon.n_exact_lr)
    R.count("dep_retransmissions_seen", mon.n_retx)
    R.count("llc_undecodable", mon.undecodable)
    R.count("direction_label_mismatch", mon.direction_mismatch)
    R.count("clock_jumps", cr.net.jumps)
    R.count("air_frames", cr.net.n_frames)
    R.count("oversize_sendto_refused", len(cr.refused["i"]) + len(cr.refused["t"]))
    R.count("ui_accepted", len(cr.sent["i"]) + len(cr.sent["t"]))
    R.count("snl_frames_checked", mon.n_snl)
    R.count("snl_of_exactly_miu", mon.n_snl_exact)
    R.count("snl_within_3_of_miu", mon.n_snl_near)
    R.count("snl_with_several_sdreq", mon.n_snl_multi)
    R.count("snl_empty_inside_agf", mon.n_snl_empty)
    R.count("snl_with_sdres_and_sdreq", mon.n_snl_res_req)
    R.max("sdreq_in_one_snl", mon.max_sdreq)
    R.count("i_pdus_checked", mon.n_i)
    R.count("i_of_exactly_conn_miu", mon.n_i_exact)
    R.count("i_pdus_in_agf", mon.n_i_in_agf)
    R.count("i_pdus_without_connection_on_air", mon.n_i_noconn)
    R.count("connect_seen", mon.n_connect)
    R.count("connect_cc_pairs_seen", mon.n_cc_pairs)
    R.count("agf_frames_checked", mon.n_agf)
    R.count("agf_within_4_of_miu", mon.n_agf_near)
    for k in mon.kinds:
        R.seen("llc_pdu_kinds_on_air", k)
    for mr in mon.conn_params:
        R.seen("connect_cc_(miu,rw)_on_air", list(mr))
    if cr.x is not None:
        R.count("cells_with_extra_traffic")
        R.count("sdreq_batches_near_miu", obs.get("batches_near", 0))
        R.count("sdreq_batches_just_above_room", obs.get("batches_above", 0))
        R.count("resolve_calls", obs.get("resolve_calls", 0))
        R.count("resolve_answers", obs.get("resolve_answers", 0))
        R.count("oversize_send_refused", obs.get("dlc_refused", 0))
        R.count("helper_threads_left_blocked", cr.helpers_stuck)
        R.count("helper_reaction_waits_expired", cr.helper_waits_expired)
        if obs.get("dlc_complete"):
            R.count("cells_dlc_traffic_complete")
        if obs.get("snl_complete"):
            R.count("cells_all_names_answered")
        for e in obs.get("dlc_errors", []):
            R.seen("dlc_errors", e)
        if "dlc_complete" in obs and not (obs["dlc_complete"] and obs["snl_complete"]):
            R.count("cells_extra_traffic_incomplete")
            if not obs.get("rwt_exceeded") and not V:
                R.count("cells_extra_traffic_incomplete_unexplained")
                R.inconc("the link ended (or the poll bound was reached) before the planned SNL / data link connection "
                         "traffic was through, the target kept its RWT and no clause fired: %r dlc=%r"
                         % (cell, {sd: (st["role"], st["phase"], st["error"]) for sd, st in cr.dlc.items()}))
                R.sample({"incomplete": cell, "dlc": cr.dlc,
                          "batch": {k: {kk: vv for kk, vv in b.items() if kk != "names"} for k, b in cr.batch.items()},
                          "resolved": {sd: sorted(map(repr, cr.resolved[sd].values())) for sd in cr.resolved}})
    s = mon.final()
    if s is not None:
        R.count("ui_on_air", len(s["ui"][">"]) + len(s["ui"]["<"]))
        R.count("agf_on_air", s["agf"])
        R.count("symm_on_air", s["symm"][">"] + s["symm"]["<"])
        R.count("psl_exchanges_seen", int(s["psl_done"]))
        R.count("ui_of_exactly_miu", obs.get("exact_miu", 0))
        if "ui_ok" in obs and not obs["ui_ok"]:
            R.count("ui_sequence_mismatch")
            R.inconc("UI payloads on the air differ from what was handed to sendto: %r" % (cell,))
        if obs.get("ui_complete") is False:
            R.count("cells_traffic_incomplete")
            if obs.get("rwt_exceeded"):
                # nfcpy's LLC sleeps 1 ms (50 ms when idle) before it answers; a target that announced a shorter
                # response waiting time loses the link by itself.  Not a clause of C19: recorded, explained.
                R.count("cells_link_lost_target_slower_than_its_rwt")
            elif not V:
                R.count("cells_traffic_incomplete_unexplained")
                R.inconc("the link ended before the planned traffic was through, and no clause fired: %r" % (cell,))
        if obs.get("rwt_exceeded"):
            R.count("cells_target_slower_than_its_rwt")
        if obs.get("rwt_ok") is False:
            R.count("rwt_differs_from_announced_wt")
        elif obs.get("rwt_ok"):
            R.count("rwt_equals_announced_wt")
        R.max("ui_info_bytes", obs.get("max_ui", 0))
        for k in ("gap_i", "gap_t"):
            if k in obs:
                R.max("silence_ms_" + k[-1], round(obs[k], 3))
        R.seen("dep_tuple(lri,lrt,wt,psl_brs,did)", [obs.get("lri"), obs.get("lrt"), obs.get("wt"), obs.get("psl"),
                                                     obs.get("did")])
        R.seen("pax_on_air(miu,lto,wks,lsc)", obs.get("pax_i"))
        R.seen("pax_on_air(miu,lto,wks,lsc)", obs.get("pax_t"))
        if status == "ok":
            R.seen("data_bit_rates", obs.get("final_brty"))
    for (d, lr), n in mon.max_td.items():
        R.max("transport_data_lr%d" % lr, n)
    for b in mon.brtys:
        R.seen("bit_rates_on_air", b)
    if record:
        R.sample({"cell": cell, "status": status, "wire": {k: obs.get(k) for k in ("lri", "lrt", "wt", "psl", "pax_i",
                                                                                 "pax_t")},
                  "frames": cr.net.n_frames, "violations": [v[0] for v in V]})
    return status, V


# ------------------------------------------------------------------------------------------ run / replay
def run(desc, R, rng):
    import faulthandler
    import sys
    faulthandler.dump_traceback_later(desc.get("timeout", 900) - 5 if desc.get("timeout", 900) > 30 else 25,
                                      exit=True, file=sys.stderr)
    sys.setswitchinterval(0.0005)
    seed = int(desc.get("seed", 0))
    part, parts = desc["part"], desc["parts"]
    if desc["mode"] == "quick":
        flats, grng = quick_cells(seed)
        mine = [f for k, f in enumerate(flats) if k % parts == part]
        crng = random.Random(seed * 104729 + part)
        mine += [random_flat(crng) for _ in range(desc.get("extra", 0))]
        for k, f in enumerate(mine):
            do_cell(to_cell(f, crng), R, record=(k < 2))
        R.exhaustive = False
    else:
        crng = random.Random(seed * 104729 + part)
        n = 0
        clean = True
        for index in range(part, GRID, parts):
            st, V = do_cell(to_cell(full_grid_cell(index, crng), crng), R, record=(n < 2))
            clean = clean and st == "ok"
            n += 1
        for lri in range(4):
            if (lri % parts) == part % 4:
                for did, nad in ((1, None), (14, None), (None, 7), (3, 9)):
                    for miu_i in (248, 2175):
                        f = random_flat(crng)
                        f.update(lri=lri, did=did, nad=nad, miu_i=miu_i, lto_i=500, lto_t=500)
                        do_cell(to_cell(f, crng), R, record=False)
        R.count("grid_cells", n)
        R.exhaustive = clean
    faulthandler.cancel_dump_traceback_later()


def replay(case, R):
    import faulthandler
    import sys
    faulthandler.dump_traceback_later(120, exit=True, file=sys.stderr)
    do_cell(case["cell"], R)
    faulthandler.cancel_dump_traceback_later()
