"""C19 - peer-to-peer activation negotiates limits both sides then obey.

Two complete, real nfcpy stacks (ContactlessFrontend.connect(llcp=...) -> LogicalLinkController.activate ->
nfc.dep.Initiator/Target -> nfc.clf.udp driver) run against each other over vf.sim.fakenet (in-memory datagrams,
logical clock).  Everything the oracle knows about the negotiation is read off the air by an independent decoder
(ISO/IEC 18092 NFC-DEP frame formats, LLCP parameter TLVs through vf.ref.llcp_ref):

    ATR_REQ  D4 00 nfcid3[10] DID BSi BRi PPi [Gi]      PPi/PPt: bits 5..4 LR (0..3 -> 64/128/192/254 bytes of
    ATR_RES  D5 01 nfcid3[10] DID BSt BRt TO PPt [Gt]            transport data CMD0 CMD1 PFB [DID] [NAD] payload),
    PSL_REQ  D4 04 DID BRS FSL                                   bit 1 general bytes present, bit 0 NAD used
    DEP      D4 06 / D5 07 PFB [DID] [NAD] payload      TO bits 3..0 WT; BRS bits 5..3 DSI (I->T), 2..0 DRI (T->I),
                                                        0/1/2 = 106/212/424 kbps; general bytes 46 66 6D + PAX TLVs

Clauses (signature prefix):
  llc/...       the LLC parameters a side uses after activation (send MIU, receive LTO, WKS, LSC) equal what the
                *peer* put on the air
  dep/...       Initiator.miu / Target.miu == LR announced by the peer - (CMD0 CMD1 PFB [DID] [NAD]); the bit rate both
                sides work with == the one selected with `brs`
  announce/...  what a side puts on the air is what its options say (receive MIU, LTO, LSC, WKS, LRi/LRt, WT, BRS)
  air/...       every NFC-DEP frame after the ATR: transport data <= LR of its receiver, bit rate == the one selected
                by PSL_REQ; every LLC PDU (reassembled from the DEP chain): information field <= MIU announced by its
                receiver (aggregates as a whole and each member); every I PDU: service data <= the MIU its receiving
                endpoint announced in the CONNECT / CC that set the connection up (read off the air)
  dlc/...       send() on a data link connection refuses a message that is within the MIU the peer endpoint announced
  lto/...       a side's own silence between receiving a PDU and sending the next one, measured on the logical clock
                (only nfcpy's own sleeps and time-outs advance it), stays within the link time-out it announced;
                behavioural half (cells with "mute"): after some idle turns every frame of one side is dropped; a side
                that hears nothing gives up no earlier than the LTO its peer announced (an initiator: min(LTO, RWT
                announced by the target), the NFC-DEP recovery may end the link) and no later than LTO + 100 ms, all on
                the logical clock, read at the driver boundary (MuteProbe, evaluate_mute)
  dep/rwt...    Initiator.rwt is the waiting time of the WT the target put into ATR_RES (TO byte); air/atn-before-...:
                no attention request leaves the initiator before that time has passed since its previous request
  activate/...  ATR_REQ and ATR_RES were exchanged for a valid option pair and still one side never reached on-connect
                (unless the target was slower than the RWT it announced itself: counted, explained)
  traffic/...   an exception escapes connect() while the link is used within the announced limits
Cell kinds: "pair" two nfcpy stacks with all the traffic below; "mute" two nfcpy stacks, UI traffic, then one side
falls silent; "scripted" one nfcpy stack against ScriptedPeer, a small station that is not nfcpy (scripted ATR / PAX
bytes: TLV order, reserved bits, unknown and missing TLVs, WT up to 15, link found at 106A / 212F / 424F, PSL or not,
DID), UI PDUs of exactly the MIU in both directions.  Roles: given on both devices, on the initiator only, on neither
(the harness lets the device labelled "t" bind first so that it becomes the target).  A device may leave groups of
options to their defaults ("omit"); the announce clause then expects the documented default (not judged for 'miu',
documented as 128 but 248 in LogicalLinkController, and for the undocumented 'lsc').
Traffic after activation (all PDU kinds whose size nfcpy budgets itself), every cell:
  UI    each side sends UI PDUs of exactly the MIU the peer announced, one byte more (must be refused locally), one to
        seven bytes less, bursts of small ones (aggregation) and one group of small ones queued at once whose
        aggregate would be MIU-2 .. MIU+2 octets, from its on-connect callback
  SNL   each side has 2..4 (more when the peer MIU needs it: a name is at most 254 octets) resolve() calls for unbound
        names pending before its link loop collects for the first time (helper threads, started one by one until the
        request is queued); the SDREQ TLV sizes (3 + len(name)) sum to room-3 .. room+6 where room is the peer's MIU
        (initiator) or the peer's MIU minus the 4-octet SDRES the same PDU answers with (target)
  I     one data link connection per cell (the connecting device alternates): connect by address to a socket the peer
        listens on, receive MIU / RW set on both ends (below, equal to and above the link MIU; the CONNECT / CC
        parameters are read off the air), then in both directions I PDUs of exactly the connection MIU, one octet
        more (must be refused locally with EMSGSIZE), small ones queued together (aggregation near the link MIU), DISC
the link then idles for a dozen SYMM turns (at least four after the last planned PDU).  No sampling: every cell of
both tiers carries all of it; the plan is a function of the option tuple (extras_for), stored in the witness.
The helper threads (resolve, connect/accept + send/recv) are not participants of the net clock: they only block on
nfcpy's own condition variables, the logical clock still advances on nfcpy's own sleeps / time-outs only.  Before a
stack's sleep is handed to the net the stack thread waits in *real* time until every helper is parked again, so a
helper reacts "at once" in logical time and the traffic needs the same link turns on a loaded machine.  The harness
keeps the acceptor's accept() and the first I PDU apart (out-of-band event) and lets the connecting side send first,
so the known accept() / I-after-CC races (C05/C06 findings) are not in the way.  Cells whose target announces an RWT
shorter than nfcpy's own pacing lose the link early (counted, as before); their extra traffic is cut short too.
Side observation (not a clause): while a request that does not fit waits, nfcpy pads an aggregate with empty SNL PDUs
(counter snl_empty_inside_agf); they are within every limit.
"""
import math
import random
import sys
import threading
import time as _time

from vf.core.rec import exc_sig, exc_text
from vf.ref import llcp_ref as ref

ID = "C19"
LEVEL = "exploration"
RULE = ("a case is one link activation with one option tuple (thread order, roles given on both / one / neither "
        "device, brs, lri, lrt, rwt, and per device miu, lto, agf, lsc, SNEP service bound or not, groups of options "
        "left to their defaults; the options a role ignores are set too); three kinds: pair (two real stacks), mute "
        "(two real stacks, one side falls silent after idle turns: every lto_i x lto_t pair), scripted (one real "
        "stack against a scripted non-nfcpy peer in either role: ATR / PAX byte variants); quick: a "
        "pairwise-covering array over all 19 parameters + the brs x lri x lrt x order factorial + all rwt, MIU "
        "pairs, LSC pairs + random tuples + DID/NAD cells through llc.activate(); thorough: the complete grid "
        "order x brs x lri x lrt x rwt x miu_i x miu_t (51840 cells, DID/NAD on every 61st) with the other "
        "parameters rotated by a hash of the index (never reported as exhaustive: the full product has ~10^8 "
        "cells) + dense mute and scripted sets; distinct by option tuple; non-trivial only if both sides reached "
        "on-connect, every planned UI PDU got through including one of exactly the peer's MIU, and (pair) the data "
        "link connection delivered what was sent including I PDUs of exactly the connection MIU both ways; every "
        "pair cell also carries the extra traffic derived deterministically from its option tuple: a near-MIU "
        "batch of concurrent resolve() calls per side, one data link connection, a near-MIU aggregation group")
ASSUMPTIONS = ["vf.sim.fakenet delivers datagrams unchanged and in order; its logical clock only advances when every "
               "stack thread is blocked, so no protocol time-out fires because of scheduling",
               "the air decoder (ISO/IEC 18092 NFC-DEP frame formats, LR table 64/128/192/254 counting CMD0..payload) "
               "and vf.ref.llcp_ref (LLCP 1.3 TLVs) are faithful readings of the specifications",
               "nfcpy attribute names llc.cfg['send-miu','recv-lto','send-wks','send-lsc'], mac.miu, mac.target.brty "
               "are read through one adapter; a missing name makes the cell inconclusive",
               "pair / mute cells: both devices are nfcpy; scripted cells: the peer is ScriptedPeer (this module), "
               "whose own frames are judged too - if it broke a limit itself the cell is inconclusive",
               "the moment a side stops waiting for a silent peer is the logical time of its thread's first driver "
               "operation (sendto / select) that starts later than its last DEP frame went out; the margin of 100 ms "
               "above the peer's LTO is the check's choice (nfcpy uses 10 ms), the lower bound has no margin",
               "WT = 15 in ATR_RES is reserved: the RWT nfcpy derives from it is recorded, not judged"]
REQUIRED = ["cells_both_connected", "takeover_checks", "dep_frames_checked", "llc_pdus_checked",
            "oversize_sendto_refused", "psl_exchanges_seen", "frames_of_exactly_lr", "ui_of_exactly_miu",
            "snl_frames_checked", "sdreq_batches_near_miu", "sdreq_batches_just_above_room", "snl_of_exactly_miu",
            "i_pdus_checked", "i_of_exactly_conn_miu", "oversize_send_refused", "connect_cc_pairs_seen",
            "agf_frames_checked", "agf_within_4_of_miu",
            # added with the audit of the check
            "cells_nontrivial_traffic_complete", "cells_dlc_rcvd_equals_sent", "cells_dlc_exact_miu_both_ways",
            "lto_gaps_measured", "psl_fsl_checked", "rwt_equals_announced_wt",
            "takeover_miu_differs_from_own", "takeover_lto_differs_from_own", "takeover_lsc_differs_from_own",
            "takeover_wks_differs_from_own", "devices_with_omitted_options", "cells_role_given_on_neither_device",
            "cells_did_nad", "cells_mute", "lto_release_measured_initiator", "lto_release_measured_target",
            "lto_release_lower_bound_is_the_lto", "lto_release_seen_at_driver",
            "cells_scripted", "scripted_target_cells", "scripted_initiator_cells",
            "scripted_ui_of_exactly_miu_received"]

CHECK_LTO_GUARANTEE = True      # clause lto/...

LR = (64, 128, 192, 254)
BRTY = ("106A", "212F", "424F")
MIUS = [128, 129, 247, 248, 1000, 2175]
LTOS = [10, 20, 100, 500, 1000, 2550]       # the LTO TLV counts units of 10 ms; 100 is the value of an absent TLV
# options a device does not pass at all.  DEFAULTS are only used by the harness to plan traffic; the announce clause
# judges an omitted option against the default the documentation of ContactlessFrontend.connect() states (DOCUMENTED);
# 'miu' (documented 128, LogicalLinkController uses 248) and 'lsc' (not documented) are not judged when omitted
DEFAULTS = {"brs": 2, "lri": 3, "lrt": 3, "rwt": 8, "miu": 248, "lto": 500, "lsc": 3, "agf": True}
DOCUMENTED = ("brs", "lri", "lrt", "rwt", "lto", "agf")
OMIT_SETS = {"": (), "dep": ("brs", "lri", "lrt", "rwt"), "llc": ("miu", "lto", "lsc", "agf"),
             "all": ("brs", "lri", "lrt", "rwt", "miu", "lto", "lsc", "agf")}
# roles: "it" initiator / target, "i-" initiator / role not given (alternates), "--" role given on neither device
PARAMS = [("swap", [0, 1]), ("roles", ["it", "i-", "--"]), ("brs", [0, 1, 2]), ("lri", [0, 1, 2, 3]),
          ("lrt", [0, 1, 2, 3]), ("rwt", list(range(15))),
          ("miu_i", MIUS), ("miu_t", MIUS), ("lto_i", LTOS), ("lto_t", LTOS), ("agf_i", [True, False]),
          ("agf_t", [True, False]), ("lsc_i", [0, 1, 2, 3]), ("lsc_t", [0, 1, 2, 3]), ("snep_i", [False, True]),
          ("snep_t", [False, True]), ("omit_i", ["", "dep", "llc", "all"]),
          ("omit_t", ["", "dep", "llc", "all"]), ("tseed", [0, 1, 2])]
PNAMES = [p for p, _ in PARAMS]
TX_SAP, RX_SAP = 48, 49
DLC_SAP, DLC_CONNECTOR_SAP = 32, 33     # below the UI socket: nfcpy serves the lower address first, I and UI interleave
LINGER_SYMM = 12
LINGER_AFTER = 4                # idle turns after the last planned PDU
EXTRA_TRAFFIC = True            # SNL batches, data link connection, near-MIU aggregation group
RESIDUES = [-3, -2, -1, 0, 0, 1, 1, 1, 2, 2, 3, 4, 5, 6]     # sum of SDREQ TLV sizes - room in the SNL PDU
NAME_PREFIX = b"urn:nfc:sn:c19"
MIN_TLV, MAX_TLV = 3 + len(NAME_PREFIX) + 2, 3 + 254          # SDREQ TLV: T L TID name
END = b"\xffEND"


# ------------------------------------------------------------------------------------------ cells
def pairwise(rng, params, tries=25):
    """greedy covering array: every value pair of every two parameters occurs in some row"""
    doms = [list(d) for _, d in params]
    n = len(doms)
    uncovered = set()
    for a in range(n):
        for b in range(a + 1, n):
            for x in range(len(doms[a])):
                for y in range(len(doms[b])):
                    uncovered.add((a, x, b, y))
    rows = []
    while uncovered:
        a, x, b, y = min(uncovered)
        best, best_gain = None, -1
        for _ in range(tries):
            row = [rng.randrange(len(d)) for d in doms]
            row[a], row[b] = x, y
            gain = 0
            for i in range(n):
                for j in range(i + 1, n):
                    if (i, row[i], j, row[j]) in uncovered:
                        gain += 1
            if gain > best_gain:
                best, best_gain = row, gain
        for i in range(n):
            for j in range(i + 1, n):
                uncovered.discard((i, best[i], j, best[j]))
        rows.append(best)
    return [{params[i][0]: doms[i][v] for i, v in enumerate(r)} for r in rows]


def random_flat(rng):
    f = {p: rng.choice(list(d)) for p, d in PARAMS}
    for k in ("omit_i", "omit_t"):              # two of three devices pass every option explicitly
        if rng.random() < 0.55:
            f[k] = ""
    return f


def eff(dev, name):
    """the value an option has for planning purposes (its default when the device omits it)"""
    return DEFAULTS[name] if name in dev.get("omit", ()) else dev[name]


def to_cell(flat, rng):
    """flat parameter dict -> cell {"i": device options of the initiating device, "t": ... of the target device}"""
    i = {"brs": flat["brs"], "lri": flat["lri"], "miu": flat["miu_i"], "lto": flat["lto_i"], "agf": flat["agf_i"],
         "lsc": flat["lsc_i"], "snep": flat["snep_i"], "omit": list(OMIT_SETS[flat.get("omit_i", "")]),
         "lrt": rng.randrange(4), "rwt": rng.randrange(15)}                     # ignored by an initiator
    t = {"lrt": flat["lrt"], "rwt": flat["rwt"], "miu": flat["miu_t"], "lto": flat["lto_t"], "agf": flat["agf_t"],
         "lsc": flat["lsc_t"], "snep": flat["snep_t"], "omit": list(OMIT_SETS[flat.get("omit_t", "")]),
         "brs": rng.randrange(3), "lri": rng.randrange(4)}                      # ignored by a target
    roles = flat.get("roles", "it")
    cell = {"i": i, "t": t, "swap": flat["swap"], "alt": roles != "it", "none": roles == "--",
            "did": flat.get("did"), "nad": flat.get("nad"), "tseed": flat["tseed"]}
    if cell["did"] is not None or cell["nad"] is not None:
        cell["none"] = False                    # DID / NAD need the initiator role (llc.activate is called directly)
    if flat.get("mute"):
        cell["mute"] = dict(flat["mute"])       # behavioural link time-out variant
    return cell


def split_sizes(total, k, xr):
    """k SDREQ TLV sizes (each MIN_TLV..MAX_TLV) that sum to total; k is raised / lowered when total needs it"""
    k = max(k, int(math.ceil(total / float(MAX_TLV))))
    while k > 1 and total < k * MIN_TLV:
        k -= 1
    if total < MIN_TLV:
        return [MIN_TLV]
    parts = [total // k + (1 if j < total % k else 0) for j in range(k)]
    for _ in range(2 * k):                                # move some octets around, the sum stays
        a, b = xr.randrange(k), xr.randrange(k)
        room = min(parts[a] - MIN_TLV, MAX_TLV - parts[b])
        if a != b and room > 0:
            n = xr.randint(0, min(room, 40))
            parts[a] -= n
            parts[b] += n
    return parts


def extras_for(cell):
    """the extra post-activation traffic of a cell, a deterministic function of its option tuple (kept in cell["x"] so
    that a witness replays exactly)"""
    xr = random.Random("C19x|" + repr(cell_key(cell)))
    mi, mt = eff(cell["i"], "miu"), eff(cell["t"], "miu")
    x = {}
    # SNL: the initiator's batch fills the target's MIU; the target answers with one SDRES (4 octets) per SDREQ that
    # fitted the initiator's first SNL PDU and fills the rest of the initiator's MIU with its own batch
    r_i, r_t = xr.choice(RESIDUES), xr.choice(RESIDUES)
    sz_i = split_sizes(mt + r_i, xr.choice([2, 3, 4]), xr)
    n_res = len(sz_i) if r_i <= 0 else len(sz_i) - 1
    sz_t = split_sizes(mi - 4 * n_res + r_t, xr.choice([2, 3, 4]), xr)
    x["snl"] = {"i": {"room": mt, "resid": r_i, "tlv": sz_i}, "t": {"room": mi - 4 * n_res, "resid": r_t, "tlv": sz_t}}
    # data link connection: who connects, receive MIU and RW of the two endpoints (nfcpy bounds the MIU by the link MIU)

    def want_miu(link):
        return xr.choice([128, max(128, link - 1), link, link, link + 37, 2175, xr.randint(128, link)])
    conn = xr.choice(["i", "t"])
    own = {"i": mi, "t": mt}
    x["dlc"] = {"conn": conn, "miu_c": want_miu(own[conn]), "miu_a": want_miu(own["t" if conn == "i" else "i"]),
                "rw_c": xr.choice([1, 1, 2, 3, 7, 15]), "rw_a": xr.choice([1, 1, 2, 3, 7, 15]),
                "seed": xr.randrange(1 << 16)}
    x["agf"] = {"i": {"n": xr.choice([2, 3, 4, 6]), "delta": xr.choice([-2, -1, 0, 0, 1, 2])},
                "t": {"n": xr.choice([2, 3, 4, 6]), "delta": xr.choice([-2, -1, 0, 0, 1, 2])}}
    return x


def sdreq_names(side, tlv_sizes):
    out = []
    for j, n in enumerate(tlv_sizes):
        head = NAME_PREFIX + side.encode() + bytes([ord("a") + j % 26])
        out.append(head + b"x" * (n - 3 - len(head)))
    return out


def group_sizes(total, n, overhead, cap):
    """n data sizes (each 1..cap) with sum(overhead + size) == total, or [] if that is impossible"""
    while n > 1 and total < n * (overhead + 1):
        n -= 1
    n = max(n, int(math.ceil(total / float(overhead + cap))))
    if n < 2 or total < n * (overhead + 1) or n > 12:
        return []
    data = total - n * overhead
    return [data // n + (1 if j < data % n else 0) for j in range(n)]


EXPLICIT = {"omit_i": "", "omit_t": ""}


def quick_cells(seed):
    rng = random.Random(seed * 7919 + 19)
    flats = pairwise(rng, PARAMS)
    for swap in (0, 1):                                   # the 96-cell factorial of the NFC-DEP negotiation
        for brs in range(3):
            for lri in range(4):
                for lrt in range(4):
                    f = random_flat(rng)
                    f.update(EXPLICIT, swap=swap, brs=brs, lri=lri, lrt=lrt)
                    flats.append(f)
    for rwt in range(15):                                 # every WT with small and large LTO on the target
        for lto_t in (10, 2550):
            f = random_flat(rng)
            f.update(EXPLICIT, rwt=rwt, lto_t=lto_t)
            flats.append(f)
    for mi in MIUS:                                       # every MIU pair
        for mt in MIUS:
            f = random_flat(rng)
            f.update(EXPLICIT, miu_i=mi, miu_t=mt)
            flats.append(f)
    for li in range(4):                                   # every LSC pair, announced explicitly on both devices
        for lt in range(4):
            f = random_flat(rng)
            f.update(EXPLICIT, lsc_i=li, lsc_t=lt)
            flats.append(f)
    for lri in range(4):                                  # lower level: DID / NAD through llc.activate()
        for did, nad in ((1, None), (14, None), (None, 7), (3, 9)):
            f = random_flat(rng)
            f.update(lri=lri, did=did, nad=nad, lrt=rng.randrange(4), brs=rng.randrange(3), omit_i="",
                     miu_i=rng.choice([248, 1000, 2175]), lto_i=500, lto_t=500)
            flats.append(f)
    flats += mute_flats(rng, dense=False)
    return flats, rng


def mute_flats(rng, dense):
    """behavioural link time-out cells: every LTO pair; after `after` idle SYMM turns every frame of one side is
    dropped.  WT 14 / 11 make the response waiting time longer than most LTO values (then the LTO alone decides when
    the initiator may give up), WT 8 is the default"""
    flats = []
    k = 0
    for lto_i in LTOS:
        for lto_t in LTOS:
            k += 1
            for side in ("i", "t"):
                j = k + (side == "t")
                for after in ((2, 12) if dense else ((2, 12)[j % 2],)):
                    for rwt in ((14, 11, 8) if dense else ((14, 8, 14, 11)[(j // 2) % 4],)):
                        f = random_flat(rng)
                        f.update(EXPLICIT, lto_i=lto_i, lto_t=lto_t, rwt=rwt, roles=("it", "i-", "--")[j % 3],
                                 mute={"side": side, "after": after})
                        flats.append(f)
    return flats


def rotation(index):
    """the parameters the complete grid does not enumerate, as the mixed-radix digits of a multiplicative hash of the
    grid index: a deterministic function of the index, every value of every parameter equally often, (practically)
    uncorrelated with the enumerated digits"""
    h = (index * 2654435761 + 0x9E3779B9) % (1 << 32)
    h ^= h >> 15
    out = {}
    for name, dom in PARAMS:
        if name not in GRID_DIMS:
            h, r = divmod(h * 31 + 7, len(dom))
            out[name] = dom[r]
            h = (h * 2654435761 + index) % (1 << 32)
    return out


GRID_DIMS = ("miu_t", "miu_i", "rwt", "lrt", "lri", "brs", "swap")


def full_grid_cell(index):
    """index in range(51840): swap x brs x lri x lrt x rwt x miu_i x miu_t; the other parameters by rotation(index);
    every 61st cell carries a DID and / or NAD (through llc.activate)"""
    n = index
    flat = rotation(index)
    doms = dict(PARAMS)
    for name in GRID_DIMS:
        dom = doms[name]
        flat[name] = dom[n % len(dom)]
        n //= len(dom)
    assert n == 0
    # the enumerated options are passed explicitly: omitting them would silently shrink the grid
    flat["omit_i"] = "llc" if flat["omit_i"] in ("llc", "all") and flat["miu_i"] == 248 else ""
    flat["omit_t"] = "llc" if flat["omit_t"] in ("llc", "all") and flat["miu_t"] == 248 else ""
    if index % 61 == 0:
        k = index // 61
        flat["did"], flat["nad"] = ((1, None), (14, None), (None, 7), (3, 9), (7, None), (None, 255))[k % 6]
        flat["omit_i"] = ""
    return flat


GRID = 2 * 3 * 4 * 4 * 15 * 6 * 6


def plan(tier, seed):
    n = 16
    if tier == "quick":
        return [{"mode": "quick", "part": i, "parts": n, "extra": 80, "timeout": 300} for i in range(n)]
    return [{"mode": "grid", "part": i, "parts": n, "timeout": 3000} for i in range(n)]


# ------------------------------------------------------------------------------------------ air monitor
def dep_unwrap(brty, payload):
    """transport data (CMD0 CMD1 ...) of an NFC-DEP frame or None; 106 kbps frames start with SB = F0"""
    p = bytes(payload)
    if brty == "106A":
        if len(p) < 2 or p[0] != 0xF0:
            return None
        p = p[1:]
    if len(p) < 3 or p[0] != len(p):
        return None
    td = p[1:]
    if td[0] not in (0xD4, 0xD5):
        return None
    return td


def pax_of(gb):
    gb = bytes(gb)
    if not gb.startswith(b"Ffm"):
        return None
    try:
        return ref.decode(b"\x00\x40" + gb[3:])
    except ref.Reject:
        return None


def info_len(d, raw_len):
    if d["t"] in ("UI", "I"):
        return len(d["data"])
    return raw_len - 2


class AirMonitor(object):
    """incremental, independent reading of everything the two udp drivers put on the air"""

    def __init__(self):
        self.sessions = []
        self.cur = None
        self.problems = []          # (signature, text)
        self.error = None
        self.n_dep = 0
        self.n_chained = 0
        self.n_llc = 0
        self.n_exact_lr = 0
        self.n_retx = 0
        self.irregular = 0
        self.max_td = {}            # (dir, lr) -> max transport data length
        self.brtys = set()
        self.undecodable = 0
        self.malformed = 0
        self.direction_mismatch = 0
        self.stop_gap = False       # set when the harness asks the stacks to terminate
        self.n_snl = 0              # SNL PDUs compared with the receiver's MIU (top level or inside an AGF)
        self.n_snl_exact = 0        # ... whose information field is exactly the receiver's MIU
        self.n_snl_near = 0         # ... within 3 octets of it
        self.n_snl_empty = 0
        self.n_snl_multi = 0        # ... with two or more SDREQ
        self.n_snl_res_req = 0      # ... with SDRES and SDREQ
        self.max_sdreq = 0
        self.n_i = 0                # I PDUs compared with the MIU of the receiving connection endpoint
        self.n_i_exact = 0
        self.n_i_noconn = 0         # I PDUs for which no CONNECT/CC pair was seen (not compared)
        self.n_i_in_agf = 0
        self.n_connect = 0
        self.n_cc_pairs = 0
        self.n_agf = 0
        self.n_agf_near = 0         # aggregates within 4 octets of the receiver's MIU
        self.kinds = set()
        self.conn_params = set()    # (miu, rw) seen in CONNECT / CC
        self.n_gaps = 0             # silences measured for the lto/... clause
        self.n_atn = 0              # ATN requests of the initiator whose distance to its previous request was judged
        self.scripted = False       # one station is not nfcpy (no listener/ephemeral port convention)

    def on_frame(self, f):
        try:
            self._frame(f)
        except Exception as e:          # a monitor bug must not kill a stack thread
            self.error = self.error or exc_text(e)

    def _problem(self, sig, text, d=None):
        if len(self.problems) < 40:
            self.problems.append((sig, text, d))

    def _frame(self, f):
        if f.rfoff:
            return
        if f.payload is None:
            self.malformed += 1
            return
        if f.fate != "delivered":
            return
        td = dep_unwrap(f.brty, f.payload)
        if td is None:
            return
        d = ">" if td[0] == 0xD4 else "<"
        if (d == ">") != bool(f.to_listener) and not self.scripted:
            self.direction_mismatch += 1
        code = td[1]
        if d == ">" and code == 0x00:
            if len(td) < 16:
                return
            s = {"atr_req": {"did": td[12], "bs": td[13], "br": td[14], "pp": td[15], "lr": (td[15] >> 4) & 3,
                             "nad": td[15] & 1, "gb": td[16:] if td[15] & 2 else b"", "brty": f.brty, "len": len(td)},
                 "atr_res": None, "psl": None, "psl_done": False, "t0": f.t,
                 "buf": {">": b"", "<": b""}, "last_td": {">": None, "<": None}, "pdus": [], "frames": 0,
                 "owes": {"i": None, "t": None}, "max_gap": {"i": 0.0, "t": 0.0}, "closing": False,
                 "ui": {">": [], "<": []}, "symm": {">": 0, "<": 0}, "agf": 0, "final_brty": {},
                 "dep_seen": {">": 0, "<": 0}, "conn_req": {}, "conn": {}, "snl": {">": [], "<": []},
                 "last_req_t": None, "t_last": {">": None, "<": None}}
            self.cur = s
            self.sessions.append(s)
            return
        s = self.cur
        if s is None:
            return
        if d == "<" and code == 0x01:
            if len(td) < 17:
                return
            s["atr_res"] = {"did": td[12], "to": td[15], "wt": td[15] & 15, "pp": td[16], "lr": (td[16] >> 4) & 3,
                            "nad": td[16] & 1, "gb": td[17:] if td[16] & 2 else b"", "brty": f.brty, "len": len(td)}
            s["pax_i"] = pax_of(s["atr_req"]["gb"])
            s["pax_t"] = pax_of(s["atr_res"]["gb"])
            s["owes"]["i"] = f.t
            return
        if s["atr_res"] is None:
            return
        # ---- every frame after the ATR exchange: length and bit rate
        lr_rx = LR[s["atr_res"]["lr"]] if d == ">" else LR[s["atr_req"]["lr"]]
        kind = {0x04: "PSL", 0x05: "PSL", 0x06: "DEP", 0x07: "DEP", 0x08: "DSL", 0x09: "DSL", 0x0A: "RLS",
                0x0B: "RLS"}.get(code, "%02X" % code)
        key = (d, lr_rx)
        if len(td) > self.max_td.get(key, 0):
            self.max_td[key] = len(td)
        if len(td) > lr_rx:
            self._problem("air/frame>lr/%s/%s" % ("to-target" if d == ">" else "to-initiator", kind),
                          "%s frame %s with %d bytes of transport data, receiver announced LR=%d (frame %d)"
                          % (kind, d, len(td), lr_rx, f.n), d)
        if len(td) == lr_rx:
            self.n_exact_lr += 1
        if s["psl_done"]:
            exp = BRTY[s["psl"]["dsi"]] if d == ">" else BRTY[s["psl"]["dri"]]
        else:
            exp = s["atr_req"]["brty"]
        if exp is not None and f.brty != exp:
            self._problem("air/brty!=selected/%s" % ("to-target" if d == ">" else "to-initiator"),
                          "%s frame %s sent at %s, selected was %s (PSL %s, frame %d)"
                          % (kind, d, f.brty, exp, s["psl"], f.n), d)
        self.brtys.add(f.brty)
        s["frames"] += 1
        # silence of the sender since the first frame it has not yet answered (logical clock)
        side, other = ("i", "t") if d == ">" else ("t", "i")
        rx = s["owes"][side]
        if rx is not None and not self.stop_gap:
            gap = f.t - rx
            self.n_gaps += 1
            if gap > s["max_gap"][side]:
                s["max_gap"][side] = gap
        s["owes"][side] = None
        if s["owes"][other] is None:
            s["owes"][other] = f.t
        # the response waiting time the target announced: the initiator asks for attention (DEP_REQ, PFB 100 0xxxx)
        # only after it has waited that long for the response to its previous request (logical clock)
        if d == "<":
            s["last_req_t"] = None
        else:
            if code == 0x06 and len(td) >= 3 and td[2] & 0xF0 == 0x80 and s["last_req_t"] is not None:
                self.n_atn += 1
                rwt = 4096 / 13.56E6 * 2 ** min(s["atr_res"]["wt"], 14)
                if f.t - s["last_req_t"] < rwt - 1e-9:
                    self._problem("air/atn-before-announced-rwt/initiator",
                                  "the initiator sent an attention request %.3f ms after its previous request, the "
                                  "target announced WT=%d (RWT %.3f ms) (frame %d)"
                                  % ((f.t - s["last_req_t"]) * 1e3, s["atr_res"]["wt"], rwt * 1e3, f.n), d)
            s["last_req_t"] = f.t
        s["t_last"][d] = f.t
        if code == 0x04 and d == ">":
            if len(td) >= 5:
                dsi, dri = (td[3] >> 3) & 7, td[3] & 7
                s["psl"] = {"did": td[2], "brs": td[3], "dsi": dsi if dsi < 3 else None,
                            "dri": dri if dri < 3 else None, "fsl": td[4], "lr": td[4] & 3}
            return
        if code == 0x05 and d == "<":
            if s["psl"] is not None and s["psl"]["dsi"] is not None and s["psl"]["dri"] is not None:
                s["psl_done"] = True
            return
        if code in (0x08, 0x09, 0x0A, 0x0B):
            s["closing"] = True
            return
        if code not in (0x06, 0x07) or len(td) < 3:
            return
        # ---- DEP_REQ / DEP_RES
        self.n_dep += 1
        s["final_brty"][d] = f.brty
        s["dep_seen"][d] += 1
        pfb = td[2]
        i = 3 + bool(pfb & 0x04) + bool(pfb & 0x08)      # PFB [DID] [NAD]
        data = td[i:]
        typ = pfb >> 5
        if typ == 4:
            return                  # supervisory (ATN, RTOX): no packet number, no LLC data
        if s["last_td"][d] == td:
            self.n_retx += 1        # identical to the previous numbered frame in this direction: retransmission
            return                  # (two different consecutive frames always differ in their packet number)
        s["last_td"][d] = td
        if typ != 0:
            return                  # ACK/NACK carry no LLC data
        mi = bool(pfb & 0x10)
        if mi:
            self.n_chained += 1
        s["buf"][d] += data
        if mi:
            return
        pdu, s["buf"][d] = s["buf"][d], b""
        self._llc(s, d, pdu, f)

    def _llc(self, s, d, pdu, f):
        self.n_llc += 1
        pax_rx = s["pax_t"] if d == ">" else s["pax_i"]
        try:
            dec = ref.decode(pdu)
        except ref.Reject:
            self.undecodable += 1
            return
        s["pdus"].append((d, dec["t"], len(pdu)))
        if dec["t"] == "SYMM":
            s["symm"][d] += 1
        if pax_rx is None:
            return
        miu = pax_rx["miu"]
        where = "to-target" if d == ">" else "to-initiator"
        n = info_len(dec, len(pdu))
        if n > miu:
            self._problem("air/llc-pdu>miu/%s/%s" % (dec["t"], where),
                          "%s PDU with %d bytes of information, receiver announced MIU=%d (frame %d)"
                          % (dec["t"], n, miu, f.n), d)
        if dec["t"] == "AGF":
            s["agf"] += 1
            self.n_agf += 1
            if miu - n <= 4:
                self.n_agf_near += 1
            for sub in ref.flatten(dec):
                m = len(sub["data"]) if sub["t"] in ("UI", "I") else 0
                if m > miu:
                    self._problem("air/llc-pdu>miu/AGF-member-%s/%s" % (sub["t"], where),
                                  "%s inside an AGF with %d bytes, receiver MIU=%d" % (sub["t"], m, miu), d)
        if dec["t"] == "SNL":
            if n == miu:
                self.n_snl_exact += 1
            if abs(miu - n) <= 3:
                self.n_snl_near += 1
        opp = "<" if d == ">" else ">"
        for sub in ref.flatten(dec):
            t = sub["t"]
            self.kinds.add(t)
            if t == "UI" and sub["dsap"] == RX_SAP and sub["ssap"] == TX_SAP:
                s["ui"][d].append(bytes(sub["data"]))
            elif t == "SNL":
                if not sub["sdreq"] and not sub["sdres"]:
                    self.n_snl_empty += 1       # nfcpy fills an aggregate with empty SNL PDUs while a request waits
                    continue
                self.n_snl += 1
                s["snl"][d].append((len(sub["sdreq"]), len(sub["sdres"]),
                                    sum(3 + len(name) for _, name in sub["sdreq"]) + 4 * len(sub["sdres"])))
                self.n_snl_multi += len(sub["sdreq"]) >= 2
                self.n_snl_res_req += bool(sub["sdreq"] and sub["sdres"])
                self.max_sdreq = max(self.max_sdreq, len(sub["sdreq"]))
            elif t == "CONNECT":
                # the sender's endpoint `ssap` announces the MIU / RW it receives with on this connection
                self.n_connect += 1
                self.conn_params.add((sub["miu"], sub["rw"]))
                s["conn_req"][(d, sub["ssap"])] = {"miu": sub["miu"], "rw": sub["rw"], "by": "CONNECT"}
            elif t == "CC":
                req = s["conn_req"].pop((opp, sub["dsap"]), None)
                if req is not None:
                    self.n_cc_pairs += 1
                    self.conn_params.add((sub["miu"], sub["rw"]))
                    # I PDUs connector -> acceptor are bounded by the CC, acceptor -> connector by the CONNECT
                    s["conn"][(opp, sub["ssap"], sub["dsap"])] = {"miu": sub["miu"], "rw": sub["rw"], "by": "CC"}
                    s["conn"][(d, sub["dsap"], sub["ssap"])] = req
            elif t == "I":
                lim = s["conn"].get((d, sub["dsap"], sub["ssap"]))
                if lim is None:
                    self.n_i_noconn += 1
                    continue
                self.n_i += 1
                self.n_i_in_agf += dec["t"] == "AGF"
                m = len(sub["data"])
                if m == min(lim["miu"], miu):
                    self.n_i_exact += 1
                if m > lim["miu"]:
                    self._problem("air/i-pdu>conn-miu/%s" % where,
                                  "I PDU %d->%d with %d bytes of service data, the receiving endpoint announced MIU=%d "
                                  "in its %s (frame %d)" % (sub["ssap"], sub["dsap"], m, lim["miu"], lim["by"], f.n),
                                  d)

    def conn_limit(self, d, dsap, ssap):
        """{"miu", "rw"} announced on the air by the endpoint that receives I PDUs sent in direction d to dsap from ssap"""
        s = self.final()
        return None if s is None else s["conn"].get((d, dsap, ssap))

    def final(self):
        for s in reversed(self.sessions):
            if s["atr_res"] is not None:
                return s
        return None


# ------------------------------------------------------------------------------------------ one cell
def ui_data(idx, n):
    return bytes([(idx * 37 + j * (idx + 1)) & 0xFF if j else idx for j in range(n)])


def traffic_sizes(miu, seed):
    rs = random.Random(seed)
    small = lambda k: [rs.choice([1, 2, 3, 5, 17, 30, 61, 100]) for _ in range(k)]
    return ([miu, miu + 1] + small(rs.choice([3, 5])) + [max(1, miu - rs.choice([1, 2, 3, 4, 5, 6, 7]))]
            + small(rs.choice([2, 6])) + [miu])


def llcp_options(dev, role):
    o = {k: dev[k] for k in ("brs", "lri", "lrt", "rwt", "miu", "lto", "agf", "lsc") if k not in dev.get("omit", ())}
    o["role"] = role
    if dev.get("acm") is not None:      # witnesses of earlier versions (the udp driver has no active mode: inert)
        o["acm"] = dev["acm"]
    return o


def snapshot(llc):
    """adapter: the parameters a stack works with after activation"""
    mac = llc.mac
    return {"send_miu": llc.cfg["send-miu"], "recv_lto": llc.cfg["recv-lto"], "send_wks": llc.cfg["send-wks"],
            "send_lsc": llc.cfg["send-lsc"], "recv_miu": llc.cfg["recv-miu"], "send_lto": llc.cfg["send-lto"],
            "mac_miu": mac.miu, "mac_rwt": mac.rwt, "brty": mac.target.brty, "mac_role": mac.role}


class CellRun(object):
    def __init__(self, cell):
        self.cell = cell
        self.snap = {}
        self.adapter_error = None
        self.sent = {"i": [], "t": []}          # UI payloads accepted by sendto, in order
        self.refused = {"i": [], "t": []}       # sizes refused with EMSGSIZE
        self.sendto_error = {}
        self.mon = AirMonitor()
        self.res = None
        self.net = None
        self.done_polls = 0
        # extra traffic
        self.x = cell.get("x")
        self.helpers = []                       # helper threads (not participants of the net clock)
        self.extra_started = set()
        self.batch = {}                         # side -> {"names", "pending", "room", "sum"}
        self.resolved = {"i": {}, "t": {}}      # name -> value returned by resolve() (or repr of an exception)
        self.dlc = {}                           # side -> state of its data link connection endpoint
        self.srv = {}
        self.accepted = threading.Event()
        self.helper_error = None
        self.agf_group = {"i": [], "t": []}
        self.linger_from = None
        self.helper_waits_expired = 0
        self.helpers_stuck = 0
        # behavioural link time-out variant
        self.mute = cell.get("mute")
        self.probe = None
        self.released_at = {}                   # side -> logical time of its on-release callback
        self.thread_side = {}                   # thread -> side (set in on-connect)
        self.gate_expired = False
        self.peer = None                        # ScriptedPeer of a cell whose other station is not nfcpy

    def helpers_alive(self):
        return any(th.is_alive() for th in self.helpers)


class MuteProbe(object):
    """behavioural link time-out variant: once the planned UI traffic is through and `after` more SYMM PDUs went each
    way, every frame of one side is dropped (fakenet hook).  Records, on the logical clock, every frame after that
    and every driver operation (sendto / select) of the two stack threads, so that the moment a side stops waiting
    for the silent peer can be read at the driver boundary."""

    def __init__(self, cr, net):
        self.cr, self.net = cr, net
        self.side = cr.mute["side"]             # whose frames are dropped
        self.after = cr.mute["after"]
        self.ready_symm = None
        self.muted_at = None
        self.frames = []                        # (t, d, dropped, code, pfb) from the moment of muting
        self.ops = {}                           # thread -> [(t, op, is_dep_frame)]
        self.error = None

    def hook(self, f):
        if self.muted_at is None or f.rfoff or f.payload is None:
            return None
        td = dep_unwrap(f.brty, f.payload)
        if td is None:
            return None
        return "drop" if (td[0] == 0xD4) == (self.side == "i") else None

    def on_frame(self, f):
        try:
            self._frame(f)
        except Exception as e:
            self.error = self.error or exc_text(e)

    def _frame(self, f):
        if f.rfoff or f.payload is None:
            return
        td = dep_unwrap(f.brty, f.payload)
        if td is None:
            return
        d = ">" if td[0] == 0xD4 else "<"
        if self.muted_at is not None:
            self.frames.append((f.t, d, f.fate == "dropped", td[1], td[2] if len(td) > 2 else None))
            return
        cr, mon = self.cr, self.cr.mon
        s = mon.final()
        if s is None or d != "<" or len(cr.snap) < 2:
            return
        if len(s["ui"][">"]) < len(cr.sent["i"]) or len(s["ui"]["<"]) < len(cr.sent["t"]):
            return
        n = min(s["symm"][">"], s["symm"]["<"])
        if self.ready_symm is None:
            self.ready_symm = n
        if n >= self.ready_symm + self.after:
            self.muted_at = f.t
            mon.stop_gap = True

    def sock_op(self, op, sock, args):
        if op in ("sendto", "select"):
            dep = False
            if op == "sendto":
                brty, payload, rfoff = _parse(args[0])
                td = None if payload is None else dep_unwrap(brty, payload)
                dep = td is not None and td[1] in (0x06, 0x07)
            ops = self.ops.setdefault(threading.current_thread(), [])
            if self.muted_at is None and len(ops) > 8:
                del ops[:-4]                    # before the muting only the latest operations matter
            ops.append((self.net.now(), op, dep))
        return None

    def gave_up_at(self, thread):
        """logical time of the thread's first driver operation that starts later than its last DEP frame went out:
        its wait for the answer has ended then (None: it never came back to the driver)"""
        ops = self.ops.get(thread, [])
        last = None
        for k, (t, op, dep) in enumerate(ops):
            if dep:
                last = k
        if last is None:
            return None
        for t, op, dep in ops[last + 1:]:
            if t > ops[last][0] + 1e-9:
                return t
        return None


def _parse(raw):
    from vf.sim import fakenet
    return fakenet.parse_datagram(raw)


def sd_pending(llc):
    """adapter: number of service name requests that wait for the next SNL PDU"""
    return len(llc.sap[1].sdreq)


def run_cell(cell):
    import errno
    import nfc
    import nfc.dep
    import nfc.llcp
    import nfc.llcp.llc
    from vf.sim import fakenet

    if EXTRA_TRAFFIC and "x" not in cell and not cell.get("mute"):
        cell = dict(cell, x=extras_for(cell))
    cr = CellRun(cell)
    x = cr.x if EXTRA_TRAFFIC else None
    net = cr.net = fakenet.FakeNet(clock="virtual", stall_limit=15.0)
    mon = cr.mon
    net.observers.append(mon.on_frame)
    DLC = nfc.llcp.DATA_LINK_CONNECTION
    if cr.mute:
        x = cr.x = None             # idle link: only the UI traffic, no helper threads
        cr.probe = MuteProbe(cr, net)
        net.hook = cr.probe.hook
        net.sock_fault = cr.probe.sock_op
        net.observers.append(cr.probe.on_frame)
    # role given on neither device: the device that binds its listen socket first becomes the target.  The other
    # device is held back (real time, bounded; the outcome only decides which role a device gets, never a verdict)
    # in its on-startup callback until that has happened, so that the labels "i" / "t" of the cell come out right
    gate = threading.Event()
    if cell.get("none"):
        net.on_bind = lambda sock, addr: gate.set()

    def startup(side):
        dev = cell[side]

        def on_startup(llc):
            if cell.get("none") and side == "i" and not gate.wait(10.0):
                cr.gate_expired = True
            rx = nfc.llcp.Socket(llc, nfc.llcp.LOGICAL_DATA_LINK)
            rx.setsockopt(nfc.llcp.SO_RCVBUF, 64)
            rx.bind(RX_SAP)
            if dev.get("snep"):
                nfc.llcp.Socket(llc, DLC).bind("urn:nfc:sn:snep")
            if x is not None and x["dlc"]["conn"] != side:
                srv = nfc.llcp.Socket(llc, DLC)
                srv.setsockopt(nfc.llcp.SO_RCVMIU, x["dlc"]["miu_a"])
                srv.setsockopt(nfc.llcp.SO_RCVBUF, x["dlc"]["rw_a"])
                srv.bind(DLC_SAP)
                srv.listen(1)
                cr.srv[side] = srv
            return llc
        return on_startup

    # A helper thread reacts to what the link loop hands it (CC, I PDU, SDRES) in real time while the link loop only
    # sleeps on the logical clock.  Before a stack's sleep is passed to the net, wait (real time, bounded) until every
    # helper thread is parked in a condition variable again, i.e. has done everything it can do with what it got: the
    # traffic then needs the same few link turns on a loaded machine as on an idle one.
    net_sleep = net._sleep

    def blocked(th, frames):
        f = frames.get(th.ident)
        return f is None or (f.f_code.co_name == "wait" and f.f_code.co_filename.endswith("threading.py"))

    def patient_sleep(seconds):
        if cr.helpers and threading.current_thread() not in cr.helpers and cr.helpers_alive():
            t0 = None
            _time.sleep(0.00005)        # a thread that has just been notified still looks parked: let it run first
            while True:
                frames = sys._current_frames()
                if all(blocked(th, frames) for th in cr.helpers if th.is_alive()):
                    break
                if t0 is None:
                    t0 = _time.time()
                elif _time.time() - t0 > 0.05:
                    cr.helper_waits_expired += 1
                    break
                _time.sleep(0.00005)
        return net_sleep(seconds)
    if x is not None:
        net._sleep = patient_sleep

    def helper(fn, name):
        def body():
            try:
                fn()
            except Exception as e:                  # a harness bug: reported as inconclusive
                cr.helper_error = cr.helper_error or exc_text(e)
        th = threading.Thread(target=body, name=name, daemon=True)
        cr.helpers.append(th)
        th.start()
        return th

    # ---- (1) a batch of concurrent resolve() calls, pending before the link loop collects
    def start_batch(side, llc):
        plan = x["snl"][side]
        names = sdreq_names(side, plan["tlv"])
        b = cr.batch[side] = {"names": names, "pending": 0, "room": plan["room"], "sum": sum(plan["tlv"]),
                              "k": len(names), "confirmed": False}

        def resolver(name):
            def run():
                try:
                    v = nfc.llcp.Socket(llc, None).resolve(name)
                except nfc.llcp.Error as e:
                    v = repr(e)
                cr.resolved[side][name] = v
            return run
        try:
            base = sd_pending(llc)
        except Exception as e:
            cr.adapter_error = cr.adapter_error or exc_text(e)
            return
        ths = []
        for j, name in enumerate(names):            # one by one: the order of the requests is the order of the names
            ths.append(helper(resolver(name), "resolve-%s%d" % (side, j)))
            t0 = _time.time()
            # the link loop does not run yet: a resolve() that has returned already was refused locally and will never
            # be queued, every other one blocks once it is queued
            while sd_pending(llc) - base < sum(th.is_alive() for th in ths) and _time.time() - t0 < 3.0:
                _time.sleep(0.0002)
        b["pending"] = sd_pending(llc) - base
        b["confirmed"] = b["pending"] == len(names)

    # ---- (2) one data link connection, I PDUs at the connection MIU in both directions
    def dlc_send(sock, st, lim, pax_peer, seed):
        """I PDUs to the peer endpoint, which announced lim = {"miu", "rw"} on the air"""
        rs = random.Random(seed)
        top = min(lim["miu"], pax_peer["miu"])
        st["limit"] = top
        group = group_sizes(pax_peer["miu"] + rs.choice([-2, -1, 0, 1, 2]), min(max(lim["rw"], 1), 4), 5, top)
        if not group:
            group = [rs.choice([1, 2, 3, 5, 9]) for _ in range(min(max(lim["rw"], 1), 3))]
        plan = [(top + 1, 0), (top, 0)] + [(n, nfc.llcp.MSG_DONTWAIT) for n in group]
        if top <= 300:
            plan += [(max(1, top - rs.choice([1, 2, 3])), 0), (top, 0)]
        for idx, (n, flags) in enumerate(plan):
            data = ui_data(idx, n)
            try:
                try:
                    ok = sock.send(data, flags)
                except nfc.llcp.Error as e:
                    if e.errno != errno.EWOULDBLOCK:
                        raise
                    ok = sock.send(data, 0)         # send window closed: wait for it
                st["sent"].append(n)
                if not ok:
                    return False
            except nfc.llcp.Error as e:
                if e.errno == errno.EMSGSIZE:
                    st["refused"].append(n)
                else:
                    raise
        sock.send(END, 0)       # its return value says whether the connection is still up *after* the PDU went out:
        return True             # the peer may have answered the END with its DISC already

    def dlc_recv(sock, st):
        for _ in range(64):
            data = sock.recv()
            if data is None:
                return False
            if bytes(data) == END:
                return True
            st["rcvd"].append(len(data))
        return False

    def new_state(side, role):
        st = cr.dlc[side] = {"role": role, "phase": "start", "sent": [], "refused": [], "rcvd": [], "error": None,
                             "limit": None}
        return st

    def connector(side, llc, pax_peer):
        st = new_state(side, "connector")
        d = ">" if side == "i" else "<"

        def run():
            try:
                sock = nfc.llcp.Socket(llc, DLC)
                sock.setsockopt(nfc.llcp.SO_RCVMIU, x["dlc"]["miu_c"])
                sock.setsockopt(nfc.llcp.SO_RCVBUF, x["dlc"]["rw_c"])
                sock.bind(DLC_CONNECTOR_SAP)
                sock.connect(DLC_SAP)
                st["phase"] = "connected"
                cr.accepted.wait(5.0)               # keep clear of the accept()/first-I race (see the module text)
                lim = mon.conn_limit(d, sock.getpeername(), sock.getsockname())
                if lim is None:
                    st["error"] = "no CONNECT/CC pair on the air"
                    return
                if not dlc_send(sock, st, lim, pax_peer, x["dlc"]["seed"]):
                    return
                st["phase"] = "sent"
                if not dlc_recv(sock, st):
                    return
                st["phase"] = "received"
                sock.close()
                st["phase"] = "closed"
            except nfc.llcp.Error as e:
                st["error"] = repr(e)
        return run

    def acceptor(side, llc, pax_peer):
        st = new_state(side, "acceptor")
        d = ">" if side == "i" else "<"

        def run():
            try:
                try:
                    sock = cr.srv[side].accept()
                finally:
                    cr.accepted.set()
                st["phase"] = "connected"
                if not dlc_recv(sock, st):
                    return
                st["phase"] = "received"
                lim = mon.conn_limit(d, sock.getpeername(), sock.getsockname())     # the CC went out after accept()
                if lim is None:
                    st["error"] = "no CONNECT/CC pair on the air"
                    return
                if not dlc_send(sock, st, lim, pax_peer, x["dlc"]["seed"] + 1):
                    return
                st["phase"] = "sent"
                if sock.recv() is None:             # the connector's DISC
                    st["phase"] = "closed"
                sock.close()
            except nfc.llcp.Error as e:
                st["error"] = repr(e)
        return run

    def on_connect(side):
        def cb(llc):
            cr.thread_side[threading.current_thread()] = side
            try:
                cr.snap[side] = snapshot(llc)
            except Exception as e:
                cr.adapter_error = cr.adapter_error or exc_text(e)
                return True
            s = mon.final()
            pax_peer = None if s is None else (s["pax_t"] if side == "i" else s["pax_i"])
            if pax_peer is None:
                return True
            extra = x is not None and side not in cr.extra_started
            if extra:
                cr.extra_started.add(side)
                start_batch(side, llc)
            tx = nfc.llcp.Socket(llc, nfc.llcp.LOGICAL_DATA_LINK)
            tx.bind(TX_SAP)
            sizes = traffic_sizes(pax_peer["miu"], cell["tseed"] * 2 + (side == "t"))
            if extra:
                # (3) small PDUs queued at once whose aggregate would have MIU + delta octets of information
                g = x["agf"][side]
                cr.agf_group[side] = group_sizes(pax_peer["miu"] + g["delta"], g["n"], 4, pax_peer["miu"])
                sizes = sizes + cr.agf_group[side]
            for idx, n in enumerate(sizes):
                data = ui_data(idx, n)
                try:
                    tx.sendto(data, RX_SAP, nfc.llcp.MSG_DONTWAIT)
                    cr.sent[side].append(data)
                except nfc.llcp.Error as e:
                    if e.errno == errno.EMSGSIZE:
                        cr.refused[side].append(n)
                    else:
                        cr.sendto_error[side] = repr(e)
            if extra:
                if x["dlc"]["conn"] == side:
                    helper(connector(side, llc, pax_peer), "dlc-connect-" + side)
                elif side in cr.srv:
                    helper(acceptor(side, llc, pax_peer), "dlc-accept-" + side)
            return True
        return cb

    def terminate(res, side):
        if not res.both_connected:
            return res.polls[side] > 400
        s = mon.final()
        if s is None:
            return True
        done = (len(s["ui"][">"]) >= len(cr.sent["i"]) and len(s["ui"]["<"]) >= len(cr.sent["t"])
                and not cr.helpers_alive())
        if done and cr.linger_from is None:
            cr.linger_from = (s["symm"][">"], s["symm"]["<"])
        if done:        # the planned traffic is through: a few more idle turns
            done = (s["symm"][">"] >= max(LINGER_SYMM, cr.linger_from[0] + LINGER_AFTER)
                    and s["symm"]["<"] >= max(LINGER_SYMM, cr.linger_from[1] + LINGER_AFTER))
        if cr.mute:
            done = False            # the link ends by itself: the side that hears nothing gives up
        if done or res.polls[side] > 3000:
            mon.stop_gap = True
            return True
        return False

    def release(side):
        def on_release(llc):
            cr.released_at[side] = net.now()
            return True
        return on_release

    oi = llcp_options(cell["i"], None if cell.get("none") else "initiator")
    ot = llcp_options(cell["t"], None if cell.get("alt") else "target")
    oi["on-startup"] = startup("i")
    ot["on-startup"] = startup("t")
    oi["on-release"] = release("i")
    ot["on-release"] = release("t")

    connect_i = None
    if cell.get("did") is not None or cell.get("nad") is not None:
        def connect_i(clf, o, term):
            """what ContactlessFrontend._llcp_connect does, plus the did/nad options of Initiator.activate"""
            llc = nfc.llcp.llc.LogicalLinkController(**o)
            llc = o["on-startup"](llc)
            dep_cfg = {k: o[k] for k in ("brs", "acm", "rwt", "lrt", "lri") if k in o}
            if cell.get("did") is not None:
                dep_cfg["did"] = cell["did"]
            if cell.get("nad") is not None:
                dep_cfg["nad"] = cell["nad"]
            while not term():
                if llc.activate(mac=nfc.dep.Initiator(clf=clf), **dep_cfg):
                    if o["on-connect"](llc):
                        llc.run(terminate=term)
                        return o["on-release"](llc)
                    return llc
            return None

    with net.installed():
        if cell.get("swap"):
            # thread order: the initiating device is created and started first
            cr.res = _run_pair_swapped(fakenet, net, oi, ot, on_connect("i"), on_connect("t"), terminate, connect_i)
        else:
            cr.res = fakenet.run_llcp_pair(net, oi, ot, on_connect("i"), on_connect("t"), terminate,
                                           watchdog=30.0, max_polls=6000, connect_i=connect_i)
    t0 = _time.time()
    for th in cr.helpers:           # the link is down: every blocked socket call has been released
        th.join(max(0.0, 2.0 - (_time.time() - t0)))
    cr.helpers_stuck = sum(th.is_alive() for th in cr.helpers)
    return cr


def _run_pair_swapped(fakenet, net, oi, ot, cbi, cbt, terminate, connect_i):
    """same pair, but the roles of the two threads/devices are exchanged: run_llcp_pair starts side "t" first, so
    hand it the initiator's options as side "t" and translate the result back"""
    def term(res, side):
        return terminate(_Swapped(res), "i" if side == "t" else "t")
    res = fakenet.run_llcp_pair(net, ot, oi, cbt, cbi, term, watchdog=30.0, max_polls=6000, connect_t=connect_i)
    return _Swapped(res)


class _Swapped(object):
    def __init__(self, res):
        self._r = res

    def __getattr__(self, name):
        v = getattr(self._r, name)
        if isinstance(v, dict) and set(v.keys()) == {"i", "t"}:
            return {"i": v["t"], "t": v["i"]}
        return v


# ------------------------------------------------------------------------------------------ scripted peer
# A station that is not nfcpy: ISO/IEC 18092 passive target or initiator with a minimal LLC (SYMM, UI), written from
# the frame formats at the head of this module and vf.ref.llcp_ref.  It is driven synchronously by the datagrams the
# nfcpy stack sends (fakenet responder), answers in zero logical time and never uses a timer: the run is
# single-threaded and deterministic.  What it announces comes from a script (ATR bytes, PAX TLVs in any order, with
# reserved bits, unknown or missing TLVs); what nfcpy must make of it is read by the independent decoder
# (LLCP 1.3: MIUX is an 11 bit field, the other bits are ignored; absent MIUX = 128, absent LTO = 100 ms, absent OPT =
# link service class 0, absent WKS = no well-known service; unknown TLVs are ignored) and cross-checked with the
# script's own intention.
def tlv(t, v):
    return [t, bytes(v)]


def pax_script(name, miu=None, lto=None, wks=None, lsc=None, version=0x13, order=None, rfu_miux=0, rfu_opt=0, junk=()):
    """-> (TLV list for the general bytes, expected reading)"""
    items = {"ver": tlv(ref.T_VERSION, [version])}
    exp = {"miu": 128, "lto": 100, "wks": 0, "lsc": 0}
    if miu is not None:
        items["miux"] = tlv(ref.T_MIUX, [((miu - 128) >> 8) | rfu_miux, (miu - 128) & 0xFF])
        exp["miu"] = miu
    if wks is not None:
        items["wks"] = tlv(ref.T_WKS, [wks >> 8, wks & 0xFF])
        exp["wks"] = wks
    if lto is not None:
        items["lto"] = tlv(ref.T_LTO, [lto // 10])
        exp["lto"] = lto
    if lsc is not None:
        items["opt"] = tlv(ref.T_OPT, [lsc | rfu_opt])
        exp["lsc"] = lsc
    seq = [items[k] for k in (order or ("ver", "miux", "wks", "lto", "opt")) if k in items]
    for pos, (t, v) in junk:
        seq.insert(min(pos, len(seq)), tlv(t, v))
    return {"name": name, "pax": seq, "expect": exp}


def pax_variants(rot):
    """the PAX scripts; rot rotates the values"""
    mius = [128, 129, 247, 248, 1000, 2175, 300, 2047]
    ltos = [10, 20, 500, 1000, 2550, 100, 50, 990]
    wkss = [0x0001, 0x0003, 0x0013, 0xFFFF, 0x8001, 0x7FFF, 0x0201, 0x0011]
    m, l, w = mius[rot % 8], ltos[(rot // 2) % 8], wkss[(rot // 3) % 8]
    c = rot % 4
    return [
        pax_script("canonical", m, l, w, c),
        pax_script("reversed-order", m, l, w, c, order=("opt", "lto", "wks", "miux", "ver")),
        pax_script("shuffled-order", m, l, w, c, order=("wks", "ver", "opt", "miux", "lto")),
        pax_script("miux-rfu-bits", m, l, w, c, rfu_miux=(0xF8, 0x80, 0x08, 0x50)[rot % 4]),
        pax_script("opt-rfu-and-dpc-bits", m, l, w, c, rfu_opt=(0xF8, 0x04, 0x80, 0x0C)[rot % 4]),
        pax_script("unknown-tlvs", m, l, w, c, junk=((1, (0x20, b"abc")), (3, (0xFF, b"")), (9, (0x0C, b"\x01")))),
        pax_script("no-miux", None, l, w, c),
        pax_script("no-lto", m, None, w, c),
        pax_script("no-opt", m, l, w, None),
        pax_script("no-wks", m, l, None, c),
        pax_script("version-only"),
        pax_script("version-1.1", m, l, w, c, version=0x11),
        pax_script("wks-all-and-lto-max", 2175, 2550, 0xFFFF, 3),
        pax_script("smallest", 128, 10, 0x0001, 0),
    ]


def scripted_cells(seed, dense):
    """cells in which one station is the scripted peer.  nfcpy as initiator finds its target at 106A or (brs > 0) at
    212F; nfcpy as target is found at 106A, 212F or 424F, with or without polling before the ATR_REQ, with or
    without a PSL_REQ, with or without a DID"""
    rng = random.Random(seed * 613 + 7)
    cells = []
    k = 0
    for rep in range(8 if dense else 4):
        for role in ("target", "initiator"):
            for v in pax_variants(seed + k + rep * 5):
                k += 1
                flat = random_flat(rng)
                flat.update(roles=("it", "i-")[k % 2], swap=0)
                cell = to_cell(flat, rng)
                sc = {"scripted": True, "role": role, "name": "%s/%s" % (role, v["name"]), "pax": v["pax"],
                      "expect": v["expect"], "lr": k % 4, "miu": v["expect"]["miu"]}
                if role == "target":
                    sc["wt"] = (8, 14, 10, 15, 9, 12, 11, 13)[k % 8]
                    sc["brty"] = ("106A", "212F")[(k // 2) % 2]
                    if sc["brty"] == "212F":                  # nfcpy polls at 212F only when it may switch up
                        cell["i"]["brs"] = (1, 2)[k % 2]
                        cell["i"]["omit"] = [o for o in cell["i"]["omit"] if o != "brs"]
                    cell["t"] = sc
                    cell["alt"] = False
                    cell["none"] = bool(k % 3 == 0)               # the nfcpy device has no role given
                else:
                    sc["brty"] = ("106A", "212F", "424F")[k % 3]
                    sc["poll"] = bool((k // 3) % 2)
                    sc["did"] = (0, 0, 1, 14)[(k // 2) % 4]
                    up = [b for b in range(3) if b > BRTY.index(sc["brty"])]
                    sc["psl"] = up[k % len(up)] if up and (k // 2) % 2 else None
                    sc["end"] = ("DSL", "RLS")[k % 2]
                    cell["i"] = sc
                    cell["none"] = False
                cell.pop("did", None)
                cell.pop("nad", None)
                cell["did"] = cell["nad"] = None
                cells.append(cell)
    return cells


def dep_wrap(brty, td):
    p = bytes([len(td) + 1]) + bytes(td)
    if brty == "106A":
        p = b"\xF0" + p
    return brty.encode("ascii") + b" " + p.hex().encode("ascii")


def raw_frame(brty, p):
    return brty.encode("ascii") + b" " + bytes(p).hex().encode("ascii")


SDD_RES = bytes([0x08, 0x19, 0xC1, 0x9A])
IDM = bytes([0x01, 0xFE, 0x19, 0xC1, 0x9A, 0x00, 0x5C, 0x21])
NFCID3 = IDM + b"\x00\x00"


class ScriptedPeer(object):
    PORT = 54321                # the port every udp device of the test net talks to
    MAX_TURNS = 900

    def __init__(self, net, sc, side):
        self.net, self.sc, self.side = net, sc, side
        self.role = sc["role"]
        self.expect = sc["expect"]
        self.gb = b"Ffm" + b"".join(bytes([t, len(v)]) + bytes(v) for t, v in sc["pax"])
        self.lr = LR[sc["lr"]]
        self.cur = sc["brty"]           # bit rate in use
        self.did = sc.get("did", 0) if self.role == "initiator" else 0
        self.peer_lr = None
        self.peer_pax = None
        self.phase = "discover"
        self.pni = 0                    # initiator: number of the next information / ack frame
        self.last_pni = None            # target: packet number of the latest request
        self.last = None                # latest numbered frame sent (for retransmission)
        self.rx = b""
        self.tx = []
        self.outq = []
        self.ui_rcvd = []
        self.ui_sent = []
        self.kinds = set()
        self.turns = 0
        self.idle = 0                   # consecutive SYMM PDUs from nfcpy
        self.dep_seen = False
        self.ended = None
        self.restarts = 0
        self.error = None
        self.closing = False
        if self.role == "target":
            self.sock = net.add_responder(("127.0.0.1", self.PORT), self.on_datagram)
        else:
            self.sock = net.add_responder(("127.0.0.1", 40404), self.on_datagram)
            net.on_bind = self.on_bind

    # -- fakenet callbacks (net lock held, must not block)
    def on_bind(self, sock, addr):
        try:
            if addr[1] != self.PORT or sock is self.sock or self.restarts >= 3 or self.dep_seen:
                return
            self.restarts += 1
            self.cur = self.sc["brty"]
            self.phase = "discover"
            self.sock.sendto(self._first(), ("127.0.0.1", self.PORT))
        except Exception as e:
            self.error = self.error or exc_text(e)

    def on_datagram(self, raw, src, sock):
        try:
            brty, p, rfoff = _parse(raw)
            if rfoff or p is None:
                return ()
            out = self._target(brty, p) if self.role == "target" else self._initiator(brty, p)
            return [out] if out else ()
        except Exception as e:
            self.error = self.error or exc_text(e)
            return ()

    # -- NFC-DEP framing
    def _pfb_tail(self):
        return (0x04, bytes([self.did])) if self.did else (0, b"")

    def _room(self):
        return self.peer_lr - 3 - (1 if self.did else 0)

    def _atr_seen(self, gb):
        self.peer_pax = pax_of(gb)
        if self.peer_pax is not None:
            # UI PDUs of exactly the MIU nfcpy announced, one smaller, one tiny
            m = self.peer_pax["miu"]
            for idx, n in enumerate((m, max(1, m - 1), 3)):
                data = ui_data(idx, n)
                self.ui_sent.append(data)
                self.outq.append(ref.encode({"t": "UI", "dsap": RX_SAP, "ssap": TX_SAP, "data": data}))

    # -- LLC
    def _llc_in(self, pdu):
        self.turns += 1
        try:
            dec = ref.decode(pdu)
        except ref.Reject:
            self.kinds.add("undecodable")
            return
        if dec["t"] == "SYMM":
            self.idle += 1
        else:
            self.idle = 0
        for sub in ref.flatten(dec):
            self.kinds.add(sub["t"])
            if sub["t"] == "UI" and sub["dsap"] == RX_SAP:
                self.ui_rcvd.append(len(sub["data"]))
            elif sub["t"] == "DISC" and sub["dsap"] == 0 and sub["ssap"] == 0:
                self.closing = True

    def _llc_out(self):
        return self.outq.pop(0) if self.outq else b"\x00\x00"

    # -- target role
    def _target(self, brty, p):
        if brty != self.cur:
            return None                                     # not my bit rate: silence
        if self.phase == "discover":
            if brty == "106A":
                if p == b"\x26":
                    return raw_frame(brty, b"\x01\x01")
                if p == b"\x93\x20":
                    bcc = SDD_RES[0] ^ SDD_RES[1] ^ SDD_RES[2] ^ SDD_RES[3]
                    return raw_frame(brty, SDD_RES + bytes([bcc]))
                if p[:2] == b"\x93\x70":
                    return raw_frame(brty, b"\x40")
            elif p[:2] == b"\x06\x00" and p[0] == len(p):
                return raw_frame(brty, bytes([18, 1]) + IDM + bytes(8))
        td = dep_unwrap(brty, p)
        if td is None or td[0] != 0xD4:
            return None
        code = td[1]
        if code == 0x00 and len(td) >= 16:
            self.phase = "atr"
            self.did = td[12]
            self.peer_lr = LR[(td[15] >> 4) & 3]
            self._atr_seen(td[16:] if td[15] & 2 else b"")
            res = b"\xD5\x01" + NFCID3 + bytes([self.did, 0, 0, self.sc["wt"], (self.sc["lr"] << 4) | 2]) + self.gb
            return dep_wrap(brty, res)
        if self.phase == "discover":
            return None
        if code == 0x04 and len(td) >= 5:
            out = dep_wrap(brty, b"\xD5\x05" + bytes([td[2]]))
            dsi = (td[3] >> 3) & 7
            if dsi < 3:
                self.cur = BRTY[dsi]
            return out
        if code in (0x08, 0x0A):
            self.ended = "DSL" if code == 0x08 else "RLS"
            return dep_wrap(brty, bytes([0xD5, code + 1]) + td[2:3])
        if code != 0x06 or len(td) < 3:
            return None
        self.dep_seen = True
        self.phase = "dep"
        pfb = td[2]
        i = 3 + bool(pfb & 0x04) + bool(pfb & 0x08)
        data = td[i:]
        flag, tail = self._pfb_tail()

        def res(bits, payload=b""):
            return b"\xD5\x07" + bytes([bits | flag]) + tail + payload
        typ = pfb & 0xE0
        if typ == 0x80:                                     # attention (time-out extension is never requested)
            return dep_wrap(brty, res(0x80))
        pni = pfb & 3
        if typ == 0x40 and pfb & 0x10:                      # NACK: once more
            return dep_wrap(brty, self.last) if self.last else None
        if pni == self.last_pni and self.last is not None:  # the request again: the response again
            return dep_wrap(brty, self.last)
        if typ == 0x40:                                     # ACK: the next part of my chain
            if not self.tx:
                return None
            chunk = self.tx.pop(0)
            out = res((0x10 if self.tx else 0) | pni, chunk)
        elif typ == 0x00:
            self.rx += data
            if pfb & 0x10:
                out = res(0x40 | pni)
            else:
                pdu, self.rx = self.rx, b""
                self._llc_in(pdu)
                send = self._llc_out()
                room = self._room()
                self.tx = [send[k:k + room] for k in range(0, len(send), room)]
                chunk = self.tx.pop(0)
                out = res((0x10 if self.tx else 0) | pni, chunk)
        else:
            return None
        self.last_pni = pni
        self.last = out
        return dep_wrap(brty, out)

    # -- initiator role
    def _first(self):
        if self.sc.get("poll"):
            self.phase = "poll"
            self.poll_step = 0
            if self.cur == "106A":
                return raw_frame(self.cur, b"\x26")
            return raw_frame(self.cur, b"\x06\x00\xFF\xFF\x00\x00")
        return self._atr_req(NFCID3)

    def _atr_req(self, nfcid3):
        self.phase = "atr"
        td = b"\xD4\x00" + nfcid3 + bytes([self.did, 0, 0, (self.sc["lr"] << 4) | 2]) + self.gb
        return dep_wrap(self.cur, td)

    def _dep_start(self):
        self.phase = "dep"
        return self._send_pdu(self._llc_out())

    def _send_pdu(self, pdu):
        room = self._room()
        self.tx = [pdu[k:k + room] for k in range(0, len(pdu), room)]
        return self._next_chunk()

    def _next_chunk(self):
        flag, tail = self._pfb_tail()
        chunk = self.tx.pop(0)
        self.last = b"\xD4\x06" + bytes([(0x10 if self.tx else 0) | flag | self.pni]) + tail + chunk
        return dep_wrap(self.cur, self.last)

    def _end(self):
        self.phase = "end"
        code = 0x08 if self.sc.get("end") == "DSL" else 0x0A
        return dep_wrap(self.cur, bytes([0xD4, code]) + (bytes([self.did]) if self.did else b""))

    def _initiator(self, brty, p):
        if brty != self.cur:
            return None
        if self.phase == "poll":
            if self.cur == "106A":
                self.poll_step += 1
                if self.poll_step == 1:                     # SENS_RES
                    return raw_frame(brty, b"\x93\x20")
                if self.poll_step == 2:                     # SDD_RES: uid + bcc
                    return raw_frame(brty, b"\x93\x70" + bytes(p[:5]))
                if p[0] & 0x40 == 0:                        # SEL_RES without the NFC-DEP bit
                    self.error = "SEL_RES %r without NFC-DEP support" % (bytes(p),)
                    return None
                return self._atr_req(NFCID3)
            if len(p) >= 18 and p[1] == 0x01:               # SENSF_RES: NFCID2 becomes the start of NFCID3
                return self._atr_req(bytes(p[2:10]) + b"\x00\x00")
            return None
        td = dep_unwrap(brty, p)
        if td is None or td[0] != 0xD5:
            return None
        code = td[1]
        if self.phase == "atr" and code == 0x01 and len(td) >= 17:
            self.peer_lr = LR[(td[16] >> 4) & 3]
            self._atr_seen(td[17:] if td[16] & 2 else b"")
            if self.sc.get("psl") is not None:
                self.phase = "psl"
                b = self.sc["psl"]
                return dep_wrap(brty, b"\xD4\x04" + bytes([self.did, (b << 3) | b, self.sc["lr"]]))
            return self._dep_start()
        if self.phase == "psl" and code == 0x05:
            self.cur = BRTY[self.sc["psl"]]
            return self._dep_start()
        if self.phase == "end":
            if code in (0x09, 0x0B):
                self.ended = "DSL" if code == 0x09 else "RLS"
            return None
        if self.phase != "dep" or code != 0x07 or len(td) < 3:
            return None
        self.dep_seen = True
        pfb = td[2]
        i = 3 + bool(pfb & 0x04) + bool(pfb & 0x08)
        data = td[i:]
        typ = pfb & 0xE0
        flag, tail = self._pfb_tail()
        if typ == 0x80:
            return None                                     # never asked for
        if (pfb & 3) != self.pni:
            self.error = "DEP_RES with packet number %d, expected %d" % (pfb & 3, self.pni)
            return None
        self.pni = (self.pni + 1) & 3
        if typ == 0x40:                                     # ACK for a part of my chain
            return self._next_chunk() if self.tx else None
        if typ != 0x00:
            return None
        self.rx += data
        if pfb & 0x10:                                      # more to come: acknowledge
            self.last = b"\xD4\x06" + bytes([0x40 | flag | self.pni]) + tail
            return dep_wrap(self.cur, self.last)
        pdu, self.rx = self.rx, b""
        self._llc_in(pdu)
        if self.closing or self.turns >= self.MAX_TURNS or (not self.outq and self.idle >= 14):
            return self._end()
        return self._send_pdu(self._llc_out())


def run_scripted_cell(cell):
    """one nfcpy stack (its own thread, the only participant of the net clock) against the scripted peer"""
    import errno
    import nfc
    import nfc.llcp
    from vf.sim import fakenet
    sside = "i" if cell["i"].get("scripted") else "t"
    side = "t" if sside == "i" else "i"
    cr = CellRun(cell)
    cr.x = None
    net = cr.net = fakenet.FakeNet(clock="virtual", stall_limit=15.0)
    mon = cr.mon
    mon.scripted = True
    net.observers.append(mon.on_frame)
    res = cr.res = fakenet.PairResult()
    dev = cell[side]
    t0 = _time.time()

    def on_startup(llc):
        rx = nfc.llcp.Socket(llc, nfc.llcp.LOGICAL_DATA_LINK)
        rx.setsockopt(nfc.llcp.SO_RCVBUF, 64)
        rx.bind(RX_SAP)
        if dev.get("snep"):
            nfc.llcp.Socket(llc, nfc.llcp.DATA_LINK_CONNECTION).bind("urn:nfc:sn:snep")
        return llc

    def on_connect(llc):
        res.llc[side] = llc
        res.connected[side] += 1
        try:
            cr.snap[side] = snapshot(llc)
        except Exception as e:
            cr.adapter_error = cr.adapter_error or exc_text(e)
            return True
        try:
            s = mon.final()
            pax_peer = None if s is None else (s["pax_t"] if side == "i" else s["pax_i"])
            if pax_peer is None:
                return True
            tx = nfc.llcp.Socket(llc, nfc.llcp.LOGICAL_DATA_LINK)
            tx.bind(TX_SAP)
            for idx, n in enumerate(traffic_sizes(pax_peer["miu"], cell["tseed"] * 2 + (side == "t"))):
                data = ui_data(idx, n)
                try:
                    tx.sendto(data, RX_SAP, nfc.llcp.MSG_DONTWAIT)
                    cr.sent[side].append(data)
                except nfc.llcp.Error as e:
                    if e.errno == errno.EMSGSIZE:
                        cr.refused[side].append(n)
                    else:
                        cr.sendto_error[side] = repr(e)
        except Exception as e:
            res.exc_cb[side] = e
        return True

    def on_release(llc):
        res.released[side] += 1
        cr.released_at[side] = net.now()
        return True

    def term():
        res.polls[side] += 1
        if net.aborted is not None or res.exc_cb[side] is not None:
            return True
        if _time.time() - t0 > 30.0:
            res.inconclusive = res.inconclusive or "watchdog 30s"
            return True
        if not res.connected[side]:
            return res.polls[side] > 40
        if res.polls[side] > 3000:
            res.inconclusive = res.inconclusive or "terminate polled more than 3000 times"
            return True
        if side == "t":
            return False            # the scripted initiator ends the link (DSL_REQ / RLS_REQ)
        s = mon.final()
        if s is None:
            return True
        done = len(s["ui"][">"]) >= len(cr.sent["i"]) and len(s["ui"]["<"]) >= len(cr.peer.ui_sent)
        if done and cr.linger_from is None:
            cr.linger_from = s["symm"][">"]
        if done and s["symm"][">"] >= max(LINGER_SYMM, cr.linger_from + LINGER_AFTER):
            mon.stop_gap = True
            return True
        return False

    opts = llcp_options(dev, None if (cell.get("none") or (side == "t" and cell.get("alt"))) else
                        ("initiator" if side == "i" else "target"))
    opts.update({"on-startup": on_startup, "on-connect": on_connect, "on-release": on_release})

    def body():
        try:
            clf = fakenet.make_clf(net, "udp:localhost:%d" % ScriptedPeer.PORT)
            res.clf[side] = clf
            res.ret[side] = clf.connect(llcp=opts, terminate=term)
        except BaseException as e:
            res.exc[side] = e

    with net.installed():
        cr.peer = ScriptedPeer(net, cell[sside], sside)
        th = net.spawn(body, "stack-" + side)
        th.join(35.0)
        if th.is_alive():
            net.abort("scripted cell watchdog")
            th.join(3.0)
        if th.is_alive():
            res.stuck.append(side)
            res.inconclusive = res.inconclusive or "thread did not return"
        elif res.clf[side] is not None:
            try:
                res.clf[side].close()
            except Exception as e:
                res.exc[side] = res.exc[side] or e
    if net.aborted is not None:
        res.inconclusive = res.inconclusive or "net aborted: %s" % net.aborted
    res.connected[sside] = int(cr.peer.dep_seen)
    cr.sent[sside] = list(cr.peer.ui_sent)
    return cr


# ------------------------------------------------------------------------------------------ verdicts
def clamp(v, lo, hi):
    return min(max(lo, v), hi)


RWT_UNIT = 4096 / 13.56E6
LTO_MARGIN = 0.100       # s: a side must have stopped waiting for a silent peer that long after the peer's LTO


def rwt_of(wt):
    return RWT_UNIT * 2 ** min(wt, 14)


def evaluate(cr):
    """-> (status, violations [(sig, what)], observations dict); status 'ok' | 'partial' | 'inconclusive:<why>'"""
    cell, res, mon = cr.cell, cr.res, cr.mon
    V = []
    obs = {}
    if mon.error:
        return "inconclusive:monitor error " + mon.error[-300:], V, obs
    if cr.helper_error:
        return "inconclusive:harness helper thread failed " + cr.helper_error[-400:], V, obs
    if res.exc_cb["i"] or res.exc_cb["t"]:
        e = res.exc_cb["i"] or res.exc_cb["t"]
        return "inconclusive:harness callback failed " + exc_text(e)[-400:], V, obs
    if cr.adapter_error:
        return "inconclusive:adapter " + cr.adapter_error[-300:], V, obs
    if cr.probe is not None and cr.probe.error:
        return "inconclusive:mute probe error " + cr.probe.error[-300:], V, obs
    if cr.peer is not None and cr.peer.error:
        return "inconclusive:scripted peer failed " + cr.peer.error[-400:], V, obs
    nf = [sd for sd in ("i", "t") if not cell[sd].get("scripted")]          # the sides that are nfcpy
    for side, role in (("i", "initiator"), ("t", "target")):
        e = res.exc[side]
        if e is not None:
            V.append(("traffic/escape/%s/%s" % (exc_sig(e), role),
                      "%s escaped connect() on the %s: %r" % (type(e).__name__, role, e)))
    s = mon.final()
    if s is None:
        if V:
            return "partial", V, obs
        return "inconclusive:no ATR exchange on the air (%s)" % (res.inconclusive,), V, obs
    for side, role in (("i", "Initiator"), ("t", "Target")):
        if side in cr.snap and cr.snap[side]["mac_role"] != role:
            return "inconclusive:roles came out exchanged", V, obs
    di, dt = cell["i"], cell["t"]
    ai, at = s["atr_req"], s["atr_res"]
    pi, pt = s["pax_i"], s["pax_t"]
    obs.update(lri=ai["lr"], lrt=at["lr"], wt=at["wt"], psl=None if s["psl"] is None else s["psl"]["brs"],
               did=ai["did"], pax_i=None if pi is None else (pi["miu"], pi["lto"], pi["wks"], pi["lsc"]),
               pax_t=None if pt is None else (pt["miu"], pt["lto"], pt["wks"], pt["lsc"]))
    if pi is None or pt is None:
        if len(nf) < 2:
            return "inconclusive:general bytes of the scripted exchange unreadable", V, obs
        V.append(("announce/general-bytes-unreadable", "general bytes of ATR_REQ/ATR_RES carry no readable LLCP "
                  "parameters: %r %r" % (bytes(ai["gb"]), bytes(at["gb"]))))
        return "partial", V, obs
    if cr.peer is not None:
        # the independent decoder and the script generator must agree about what the script announces
        want = cell[cr.peer.side]["expect"]
        got = pt if cr.peer.side == "t" else pi
        if any(got[k] != want[k] for k in ("miu", "lto", "wks", "lsc")):
            return "inconclusive:scripted general bytes read as %r, the script meant %r" % (got, want), V, obs

    # ---- announce: what goes on the air is what the options say
    n_skip = 0

    def ann(name, wire, dev, who, lo=None, hi=None, key=None):
        key = key or name
        if key in dev.get("omit", ()):
            if key not in DOCUMENTED:
                return 1
            opt, kind = DEFAULTS[key], "documented-default"
        else:
            opt, kind = dev[key], "option"
        if lo is not None:
            opt = clamp(opt, lo, hi)
        if wire != opt:
            V.append(("announce/%s!=%s/%s" % (name, kind, who), "%s announced %s=%r on the air, %s says %r"
                      % (who, name, wire, kind.replace("-", " "), opt)))
        return 0
    if "i" in nf:
        ann("lri", ai["lr"], di, "initiator", 0, 3)
        ann("did", ai["did"], {"did": cell.get("did") or 0}, "initiator")
        ann("nad", ai["nad"], {"nad": int(cell.get("nad") is not None)}, "initiator")
    if "t" in nf:
        ann("lrt", at["lr"], dt, "target", 0, 3)
        ann("wt", at["wt"], dt, "target", 0, 14, key="rwt")
    for sd, who, p, dev in (("i", "initiator", pi, di), ("t", "target", pt, dt)):
        if sd in nf:
            n_skip += ann("miu", p["miu"], dev, who)
            ann("lto", p["lto"], dev, who)
            n_skip += ann("lsc", p["lsc"], dev, who)
            ann("wks", p["wks"], {"wks": 0x0003 | (0x0010 if dev["snep"] else 0)}, who)
    obs["announce_not_judged"] = n_skip
    start_idx = BRTY.index(ai["brty"]) if ai["brty"] in BRTY else 0
    if "i" in nf:
        want_brs = clamp(eff(di, "brs"), 0, 2)
        if want_brs > start_idx:
            if s["psl"] is None:
                V.append(("announce/psl-missing", "brs=%d selected but no PSL_REQ on the air (link found at %s)"
                          % (want_brs, ai["brty"])))
            elif (s["psl"]["dsi"], s["psl"]["dri"]) != (want_brs, want_brs):
                V.append(("announce/psl-brs!=option", "PSL_REQ BRS=%02X (DSI=%s DRI=%s) but option brs=%d"
                          % (s["psl"]["brs"], s["psl"]["dsi"], s["psl"]["dri"], want_brs)))
        if s["psl"] is not None:
            obs["psl_fsl_checked"] = 1
            if s["psl"]["fsl"] != ai["lr"]:
                V.append(("announce/psl-fsl!=lri", "PSL_REQ FSL=%02X, ATR_REQ announced LRi=%d (option lri=%r)"
                          % (s["psl"]["fsl"], ai["lr"], None if "lri" in di.get("omit", ()) else di["lri"])))
        exp_brty = BRTY[max(want_brs, start_idx)]
    else:
        # a scripted initiator: the bit rate is the one its PSL_REQ selected (none: the one the link was found at)
        want_brs = s["psl"]["dsi"] if s["psl_done"] else start_idx
        exp_brty = BRTY[want_brs]

    # ---- take-over: each side works with what the peer announced
    n_take = 0
    for side, role, peer, own in (("i", "initiator", pt, pi), ("t", "target", pi, pt)):
        sn = cr.snap.get(side)
        if sn is None:
            continue
        for name, key, sig in (("send MIU", "send_miu", "llc/send-miu!=peer-announced"),
                               ("receive LTO", "recv_lto", "llc/recv-lto!=peer-announced"),
                               ("WKS", "send_wks", "llc/wks!=peer-announced"),
                               ("LSC", "send_lsc", "llc/lsc!=peer-announced")):
            k = {"send_miu": "miu", "recv_lto": "lto", "send_wks": "wks", "send_lsc": "lsc"}[key]
            wire = peer[k]
            n_take += 1
            obs["take_differs_" + k] = obs.get("take_differs_" + k, 0) + (wire != own[k])
            if sn[key] != wire:
                V.append(("%s/%s" % (sig, role), "%s uses %s=%r, the peer announced %r" % (role, name, sn[key], wire)))
        if sn["brty"] != exp_brty:
            V.append(("dep/brty!=selected/%s" % role, "%s works at %s, selected was %s (brs=%d)"
                      % (role, sn["brty"], exp_brty, want_brs)))
    hdr = 3 + int(ai["did"] != 0)
    if "i" in cr.snap:
        n_take += 1
        exp = LR[at["lr"]] - hdr - int(ai["nad"])
        if cr.snap["i"]["mac_miu"] != exp:
            V.append(("dep/miu!=peer-lr/initiator", "Initiator payload limit %r, target announced LR=%d, header "
                      "CMD0 CMD1 PFB%s%s -> %d" % (cr.snap["i"]["mac_miu"], LR[at["lr"]], " DID" * (ai["did"] != 0),
                                                   " NAD" * ai["nad"], exp)))
        if at["wt"] > 14:
            obs["rwt_ok"] = None        # WT 15 is reserved: what the initiator makes of it is recorded, not judged
            obs["wt15_rwt"] = cr.snap["i"]["mac_rwt"]
        else:
            n_take += 1
            obs["rwt_ok"] = abs(cr.snap["i"]["mac_rwt"] - rwt_of(at["wt"])) < 1e-9
            if not obs["rwt_ok"]:
                V.append(("dep/rwt!=peer-wt/initiator", "Initiator waits %.6f s for a response, the target announced "
                          "WT=%d in ATR_RES (TO=%02X): %.6f s" % (cr.snap["i"]["mac_rwt"], at["wt"], at["to"],
                                                                  rwt_of(at["wt"]))))
    if "t" in cr.snap:
        n_take += 1
        exp = LR[ai["lr"]] - hdr - int(at["nad"])
        if cr.snap["t"]["mac_miu"] != exp:
            V.append(("dep/miu!=peer-lr/target" + ("/did" if ai["did"] else ""),
                      "Target payload limit %r, initiator announced LR=%d, header CMD0 CMD1 PFB%s%s -> %d"
                      % (cr.snap["t"]["mac_miu"], LR[ai["lr"]], " DID" * (ai["did"] != 0), " NAD" * at["nad"], exp)))
    obs["takeover_checks"] = n_take

    # ---- air
    sent_by = {">": "i", "<": "t", None: None}
    for sig, text, d in mon.problems:
        if sent_by[d] is not None and sent_by[d] not in nf:
            return "inconclusive:the scripted peer itself broke a limit: %s %s" % (sig, text), V, obs
        V.append((sig, text))
    for d, role in ((">", "initiator"), ("<", "target")):
        b = s["final_brty"].get(d)
        if b is not None and b != exp_brty and sent_by[d] in nf:
            V.append(("air/brty!=option/%s" % role, "%s sends data frames at %s, brs=%d selects %s"
                      % (role, b, want_brs, exp_brty)))
    if s["psl_done"] and res.connected["i"] and not res.connected["t"] and s["dep_seen"][">"] and not s["dep_seen"]["<"]:
        V.append(("dep/brty!=selected/target-deaf", "after PSL (BRS=%02X) the initiator's DEP_REQ frames at %s were "
                  "delivered but the target never answered nor got activated" % (s["psl"]["brs"], s["final_brty"].get(">"))))
    # ---- local enforcement of the announced MIU
    for side, role, peer in (("i", "initiator", pt), ("t", "target", pi)):
        if side in cr.sendto_error:
            V.append(("llc/sendto-error/%s" % role, "sendto within the announced MIU failed: %s" % cr.sendto_error[side]))
        if side in cr.snap and any(n <= peer["miu"] for n in cr.refused[side]):
            V.append(("llc/sendto-refuses-announced-miu/%s" % role, "UI of %r bytes refused, peer announced MIU=%d"
                      % (cr.refused[side], peer["miu"])))
    # ---- extra traffic: local enforcement on the data link connection, what was planned and what got through
    if cr.x is not None:
        near = above = 0
        for side in ("i", "t"):
            b = cr.batch.get(side)
            if b is not None and b["confirmed"]:
                r = b["sum"] - b["room"]
                near += -3 <= r <= 6
                above += 1 <= r <= b["k"] - 1         # the whole batch is one octet .. k-1 octets too long for the PDU
        obs["batches_near"], obs["batches_above"] = near, above
        obs["resolve_calls"] = sum(len(cr.batch[sd]["names"]) for sd in cr.batch)
        obs["resolve_answers"] = sum(1 for sd in cr.batch for v in cr.resolved[sd].values() if v == 0)
        obs["snl_complete"] = (len(cr.batch) == 2 and obs["resolve_calls"] == obs["resolve_answers"])
        n_ref = 0
        for side, role in (("i", "initiator"), ("t", "target")):
            st = cr.dlc.get(side)
            if st is None or st["limit"] is None:
                continue
            n_ref += sum(1 for n in st["refused"] if n > st["limit"])
            if any(n <= st["limit"] for n in st["refused"]):
                V.append(("dlc/send-refuses-announced-miu/%s" % role, "send() of %r bytes on the data link connection "
                          "refused with EMSGSIZE, the peer endpoint announced MIU=%d (link MIU %d)"
                          % ([n for n in st["refused"] if n <= st["limit"]], st["limit"],
                             (pt if side == "i" else pi)["miu"])))
        obs["dlc_refused"] = n_ref
        obs["dlc_complete"] = (len(cr.dlc) == 2 and all(st["phase"] == "closed" for st in cr.dlc.values()))
        obs["dlc_errors"] = sorted("%s:%s:%s" % (st["role"], st["phase"], st["error"]) for st in cr.dlc.values()
                                   if st["error"])
        # what one endpoint handed to send() is what the other endpoint got from recv(), both directions, and an
        # I PDU of exactly the connection MIU was among it: only then the cell counts as non-trivial
        if obs["dlc_complete"]:
            ends = {st["role"]: st for st in cr.dlc.values()}
            c, a = ends.get("connector"), ends.get("acceptor")
            obs["dlc_rcvd_eq_sent"] = (c is not None and a is not None and a["rcvd"] == c["sent"]
                                       and c["rcvd"] == a["sent"])
            obs["dlc_exact"] = (c is not None and a is not None and c["limit"] in a["rcvd"] and a["limit"] in c["rcvd"])
    # ---- LTO guarantee on the logical clock
    if CHECK_LTO_GUARANTEE:
        for side, role, own in (("i", "initiator", pi), ("t", "target", pt)):
            if side not in nf:
                continue
            gap_ms = s["max_gap"][side] * 1000.0
            obs["gap_" + side] = gap_ms
            if gap_ms > own["lto"] + 1e-6:
                V.append(("lto/own-idle-delay>announced-lto/%s" % role,
                          "%s stayed silent %.1f ms (its own sleeps/time-outs only) after receiving a PDU, it announced "
                          "LTO=%d ms" % (role, gap_ms, own["lto"])))
    # ---- behavioural link time-out: when does a side give up on a peer that fell silent
    if cr.probe is not None:
        evaluate_mute(cr, s, pi, pt, V, obs)
    # ---- side observation (not in the property statement): the target answers later than the RWT it announced
    obs["rwt_exceeded"] = s["max_gap"]["t"] > rwt_of(at["wt"]) + 1e-9
    # ---- traffic integrity (harness sanity, not a verdict)
    obs["ui_ok"] = (s["ui"][">"][:len(cr.sent["i"])] == cr.sent["i"][:len(s["ui"][">"])]
                    and s["ui"]["<"][:len(cr.sent["t"])] == cr.sent["t"][:len(s["ui"]["<"])])
    obs["ui_complete"] = len(s["ui"][">"]) >= len(cr.sent["i"]) and len(s["ui"]["<"]) >= len(cr.sent["t"])
    obs["max_ui"] = max([len(x) for x in s["ui"][">"] + s["ui"]["<"]] or [0])
    obs["exact_i"] = sum(1 for x in s["ui"][">"] if len(x) == pt["miu"])
    obs["exact_t"] = sum(1 for x in s["ui"]["<"] if len(x) == pi["miu"])
    obs["exact_miu"] = obs["exact_i"] + obs["exact_t"]
    obs["final_brty"] = exp_brty
    if not res.both_connected:
        # ATR_REQ and ATR_RES went over the air (both readable), the options are valid, and still one side never got
        # to its on-connect callback
        if V:
            return "partial", V, obs
        if res.inconclusive:
            return "inconclusive:" + str(res.inconclusive), V, obs
        if obs["rwt_exceeded"]:
            obs["partial_explained"] = "target slower than the RWT it announced"
            return "partial", V, obs
        for side, role in (("i", "initiator"), ("t", "target")):
            if not res.connected[side] and side in nf:
                V.append(("activate/failed-for-valid-options/%s" % role,
                          "ATR_REQ / ATR_RES were exchanged (LRi=%d LRt=%d WT=%d, link found at %s) but the %s never "
                          "reached on-connect" % (ai["lr"], at["lr"], at["wt"], ai["brty"], role)))
        return "partial", V, obs
    if res.inconclusive:
        return "inconclusive:" + str(res.inconclusive), V, obs
    if mon.n_i_noconn and not V:
        return ("inconclusive:%d I PDUs on the air without a CONNECT/CC pair seen before (not judged)" % mon.n_i_noconn,
                V, obs)
    return "ok", V, obs


def evaluate_mute(cr, s, pi, pt, V, obs):
    """one side's frames were dropped from probe.muted_at on.  For every side that then hears nothing:
         t0      the moment it sent the PDU that is never answered (the peer "received" it then: the LTO the peer
                 announced is the peer's promise to answer within that time)
         gave up the logical time of its first driver operation after its wait for the answer ended (initiator:
                 normally the DSL_REQ / RLS_REQ frame; target: whatever it does next), else its on-release callback
       clauses   gave up - t0 >= LTO announced by the peer (an initiator may also run the NFC-DEP recovery, which ends
                 no earlier than one response waiting time RWT announced by the target: min(LTO, RWT))
                 gave up - t0 <= LTO announced by the peer + LTO_MARGIN"""
    pr = cr.probe
    obs["mute"] = "not-reached"
    if pr.muted_at is None:
        return
    first_drop = next((k for k, fr in enumerate(pr.frames) if fr[2]), None)
    if first_drop is None:
        return
    t_drop = pr.frames[first_drop][0]
    side_thread = {sd: th for th, sd in cr.thread_side.items()}
    observers = []
    if pr.side == "t":                  # the target's frames vanish: the initiator sent its request just before
        reqs = [fr[0] for fr in pr.frames[:first_drop] if fr[1] == ">"]
        if not reqs:
            obs["mute"] = "no-request-before-the-first-dropped-response"
            return
        observers.append(("i", max(reqs)))
    else:                               # the initiator's frames vanish: its first unanswered request is the first
        observers.append(("i", t_drop))            # dropped frame; the target sent its last response just before
        before = [fr[0] for fr in pr.frames[:first_drop] if fr[1] == "<"]
        observers.append(("t", max(before) if before else pr.muted_at))
    obs["mute"] = "measured"
    obs["mute_obs"] = []
    rwt = rwt_of(s["atr_res"]["wt"])
    for side, t0 in observers:
        role = "initiator" if side == "i" else "target"
        peer_lto = (pt if side == "i" else pi)["lto"] / 1000.0
        th = side_thread.get(side)
        t_end = pr.gave_up_at(th) if th is not None else None
        how = "driver"
        if t_end is None:
            t_end, how = cr.released_at.get(side), "on-release"
        if t_end is None:
            obs["mute"] = "no-release-seen"
            continue
        lower = peer_lto if side == "t" else min(peer_lto, rwt)
        waited = t_end - t0
        obs["mute_obs"].append((side, round(waited, 6), peer_lto, how, lower == peer_lto))
        if waited < lower - 1e-9:
            V.append(("lto/gave-up-before-peer-lto/%s" % role,
                      "the %s stopped waiting for its silent peer after %.1f ms; the peer announced LTO=%d ms%s"
                      % (role, waited * 1e3, peer_lto * 1e3,
                         "" if side == "t" else " (response waiting time announced by the target: %.1f ms)" % (rwt * 1e3))))
        if waited > peer_lto + LTO_MARGIN + 1e-9:
            V.append(("lto/still-waiting-after-peer-lto/%s" % role,
                      "the %s still waited for its silent peer %.1f ms after the last PDU; the peer announced "
                      "LTO=%d ms (allowed: + %d ms)" % (role, waited * 1e3, peer_lto * 1e3, LTO_MARGIN * 1e3)))


def cell_key(cell):
    key = [cell["swap"], cell.get("alt"), cell.get("did"), cell.get("nad"), cell["tseed"],
           sorted(cell["i"].items(), key=str), sorted(cell["t"].items(), key=str)]
    for k in ("none", "mute"):
        if cell.get(k):
            key.append([k, sorted(cell[k].items()) if isinstance(cell[k], dict) else cell[k]])
    return key


def do_cell(cell, R, record=True):
    scripted = any(cell[sd].get("scripted") for sd in ("i", "t"))
    cr = run_scripted_cell(cell) if scripted else run_cell(cell)
    cell = cr.cell                  # with the derived extra traffic plan ("x"), so that a witness replays exactly
    status, V, obs = evaluate(cr)
    mon = cr.mon
    kind = "scripted" if scripted else ("mute" if cr.mute else "pair")
    # non-trivial: both sides connected, every planned UI got through with one of exactly the peer's MIU in each
    # direction that had traffic, and (pair cells) the data link connection carried exactly-MIU I PDUs both ways
    complete = status == "ok" and bool(obs.get("ui_complete")) and obs.get("exact_miu", 0) > 0
    if kind == "pair" and cr.x is not None:
        complete = complete and bool(obs.get("dlc_complete")) and bool(obs.get("dlc_exact"))
    if kind == "mute":
        complete = complete and obs.get("mute") == "measured"
    R.case(cell_key(cell), nontrivial=complete)
    R.count("cells")
    R.count("cells_" + kind)
    R.count("cells_" + status.split(":")[0])
    if complete:
        R.count("cells_nontrivial_traffic_complete")
    if cr.res.both_connected:
        R.count("cells_both_connected")
    if cell.get("did") is not None or cell.get("nad") is not None:
        R.count("cells_did_nad")
    if cell.get("none"):
        R.count("cells_role_given_on_neither_device")
        R.count("role_gate_expired", int(cr.gate_expired))
    for sd in ("i", "t"):
        if cell[sd].get("omit"):
            R.count("devices_with_omitted_options")
            R.seen("omitted_option_sets", ",".join(cell[sd]["omit"]))
    R.count("announce_not_judged_undocumented_default", obs.get("announce_not_judged", 0))
    if status.startswith("inconclusive"):
        R.inconc("cell %r: %s" % (cell, status))
    if obs.get("partial_explained"):
        R.count("cells_partial_explained")
        R.seen("partial_explained_by", obs["partial_explained"])
    for sig, what in V:
        R.violation(sig, what, {"cell": cell})
    R.count("takeover_checks", obs.get("takeover_checks", 0))
    for k in ("miu", "lto", "wks", "lsc"):
        R.count("takeover_%s_differs_from_own" % k, obs.get("take_differs_" + k, 0))
    R.count("psl_fsl_checked", obs.get("psl_fsl_checked", 0))
    R.count("lto_gaps_measured", mon.n_gaps)
    R.count("atn_requests_judged", mon.n_atn)
    R.count("dep_frames_checked", mon.n_dep)
    R.count("dep_chained_frames", mon.n_chained)
    R.count("llc_pdus_checked", mon.n_llc)
    R.count("frames_of_exactly_lr", mon.n_exact_lr)
    R.count("dep_retransmissions_seen", mon.n_retx)
    R.count("llc_undecodable", mon.undecodable)
    R.count("direction_label_mismatch", mon.direction_mismatch)
    R.count("clock_jumps", cr.net.jumps)
    R.count("air_frames", cr.net.n_frames)
    R.count("oversize_sendto_refused", len(cr.refused["i"]) + len(cr.refused["t"]))
    R.count("ui_accepted", len(cr.sent["i"]) + len(cr.sent["t"]))
    R.count("snl_frames_checked", mon.n_snl)
    R.count("snl_of_exactly_miu", mon.n_snl_exact)
    R.count("snl_within_3_of_miu", mon.n_snl_near)
    R.count("snl_with_several_sdreq", mon.n_snl_multi)
    R.count("snl_empty_inside_agf", mon.n_snl_empty)
    R.count("snl_with_sdres_and_sdreq", mon.n_snl_res_req)
    R.max("sdreq_in_one_snl", mon.max_sdreq)
    R.count("i_pdus_checked", mon.n_i)
    R.count("i_of_exactly_conn_miu", mon.n_i_exact)
    R.count("i_pdus_in_agf", mon.n_i_in_agf)
    R.count("i_pdus_without_connection_on_air", mon.n_i_noconn)
    R.count("connect_seen", mon.n_connect)
    R.count("connect_cc_pairs_seen", mon.n_cc_pairs)
    R.count("agf_frames_checked", mon.n_agf)
    R.count("agf_within_4_of_miu", mon.n_agf_near)
    for k in mon.kinds:
        R.seen("llc_pdu_kinds_on_air", k)
    for mr in mon.conn_params:
        R.seen("connect_cc_(miu,rw)_on_air", list(mr))
    if cr.x is not None:
        R.count("cells_with_extra_traffic")
        R.count("sdreq_batches_near_miu", obs.get("batches_near", 0))
        R.count("sdreq_batches_just_above_room", obs.get("batches_above", 0))
        R.count("resolve_calls", obs.get("resolve_calls", 0))
        R.count("resolve_answers", obs.get("resolve_answers", 0))
        R.count("oversize_send_refused", obs.get("dlc_refused", 0))
        R.count("helper_threads_left_blocked", cr.helpers_stuck)
        R.count("helper_reaction_waits_expired", cr.helper_waits_expired)
        if obs.get("dlc_complete"):
            R.count("cells_dlc_traffic_complete")
            if obs.get("dlc_rcvd_eq_sent"):
                R.count("cells_dlc_rcvd_equals_sent")
            else:
                # delivery itself is another property (C05); here it only says the traffic was not what was planned
                R.count("cells_dlc_rcvd_differs_from_sent")
                R.inconc("data link connection: what recv() returned differs from what send() accepted: %r %r"
                         % (cell, cr.dlc))
            if obs.get("dlc_exact"):
                R.count("cells_dlc_exact_miu_both_ways")
        if obs.get("snl_complete"):
            R.count("cells_all_names_answered")
        for e in obs.get("dlc_errors", []):
            R.seen("dlc_errors", e)
        if "dlc_complete" in obs and not (obs["dlc_complete"] and obs["snl_complete"]):
            R.count("cells_extra_traffic_incomplete")
            if not obs.get("rwt_exceeded") and not V:
                R.count("cells_extra_traffic_incomplete_unexplained")
                R.inconc("the link ended (or the poll bound was reached) before the planned SNL / data link connection "
                         "traffic was through, the target kept its RWT and no clause fired: %r dlc=%r"
                         % (cell, {sd: (st["role"], st["phase"], st["error"]) for sd, st in cr.dlc.items()}))
                R.sample({"incomplete": cell, "dlc": cr.dlc,
                          "batch": {k: {kk: vv for kk, vv in b.items() if kk != "names"} for k, b in cr.batch.items()},
                          "resolved": {sd: sorted(map(repr, cr.resolved[sd].values())) for sd in cr.resolved}})
    if cr.probe is not None:
        R.seen("mute_outcomes", obs.get("mute"))
        if obs.get("mute") != "measured" and not V and not obs.get("rwt_exceeded") and status == "ok":
            R.inconc("link time-out cell: the silence was not reached / no release seen (%s): %r" % (obs.get("mute"), cell))
        for side, waited, lto, how, by_lto in obs.get("mute_obs", []):
            R.count("lto_release_measured_" + ("initiator" if side == "i" else "target"))
            R.count("lto_release_seen_at_" + how)
            if by_lto:
                R.count("lto_release_lower_bound_is_the_lto")
            R.seen("lto_release(side,peer_lto_ms,waited_ms)", [side, int(lto * 1000), round(waited * 1000, 1)])
    if cr.peer is not None:
        pr = cr.peer
        R.count("scripted_%s_cells" % pr.role)
        R.count("scripted_ui_received", len(pr.ui_rcvd))
        R.count("scripted_ui_of_exactly_miu_received", sum(1 for n in pr.ui_rcvd if n == pr.expect["miu"]))
        R.seen("scripted_variants", cell[pr.side]["name"])
        R.seen("scripted_link_found_at", "%s/%s" % (pr.role, pr.sc["brty"]))
        R.seen("scripted_pax(miu,lto,wks,lsc)", [pr.expect[k] for k in ("miu", "lto", "wks", "lsc")])
        if "wt15_rwt" in obs:
            R.seen("rwt_used_for_reserved_wt15", round(obs["wt15_rwt"], 6))
    s = mon.final()
    if s is not None:
        R.count("ui_on_air", len(s["ui"][">"]) + len(s["ui"]["<"]))
        R.count("agf_on_air", s["agf"])
        R.count("symm_on_air", s["symm"][">"] + s["symm"]["<"])
        R.count("psl_exchanges_seen", int(s["psl_done"]))
        R.count("ui_of_exactly_miu", obs.get("exact_miu", 0))
        if "ui_ok" in obs and not obs["ui_ok"]:
            R.count("ui_sequence_mismatch")
            R.inconc("UI payloads on the air differ from what was handed to sendto: %r" % (cell,))
        if obs.get("ui_complete") is False:
            R.count("cells_traffic_incomplete")
            if obs.get("rwt_exceeded"):
                # nfcpy's LLC sleeps 1 ms (50 ms when idle) before it answers; a target that announced a shorter
                # response waiting time loses the link by itself.  Not a clause of C19: recorded, explained.
                R.count("cells_link_lost_target_slower_than_its_rwt")
            elif not V:
                R.count("cells_traffic_incomplete_unexplained")
                R.inconc("the link ended before the planned traffic was through, and no clause fired: %r" % (cell,))
        if obs.get("rwt_exceeded"):
            R.count("cells_target_slower_than_its_rwt")
        if obs.get("rwt_ok") is False:
            R.count("rwt_differs_from_announced_wt")
        elif obs.get("rwt_ok"):
            R.count("rwt_equals_announced_wt")
        R.max("ui_info_bytes", obs.get("max_ui", 0))
        for k in ("gap_i", "gap_t"):
            if k in obs:
                R.max("silence_ms_" + k[-1], round(obs[k], 3))
        R.seen("dep_tuple(lri,lrt,wt,psl_brs,did)", [obs.get("lri"), obs.get("lrt"), obs.get("wt"), obs.get("psl"),
                                                     obs.get("did")])
        R.seen("pax_on_air(miu,lto,wks,lsc)", obs.get("pax_i"))
        R.seen("pax_on_air(miu,lto,wks,lsc)", obs.get("pax_t"))
        if obs.get("pax_i") and obs.get("pax_t"):
            R.seen("lsc_pairs_on_air(i,t)", [obs["pax_i"][3], obs["pax_t"][3]])
            R.seen("lto_pairs_on_air(i,t)", [obs["pax_i"][1], obs["pax_t"][1]])
            R.seen("wks_on_air", obs["pax_i"][2])
            R.seen("wks_on_air", obs["pax_t"][2])
        if status == "ok":
            R.seen("data_bit_rates", obs.get("final_brty"))
    for (d, lr), n in mon.max_td.items():
        R.max("transport_data_lr%d" % lr, n)
    for b in mon.brtys:
        R.seen("bit_rates_on_air", b)
    if record:
        R.sample({"cell": cell, "status": status, "wire": {k: obs.get(k) for k in ("lri", "lrt", "wt", "psl", "pax_i",
                                                                                 "pax_t")},
                  "frames": cr.net.n_frames, "violations": [v[0] for v in V]})
    return status, V


# ------------------------------------------------------------------------------------------ run / replay
def run(desc, R, rng):
    import faulthandler
    import sys
    faulthandler.dump_traceback_later(desc.get("timeout", 900) - 5 if desc.get("timeout", 900) > 30 else 25,
                                      exit=True, file=sys.stderr)
    sys.setswitchinterval(0.0005)
    seed = int(desc.get("seed", 0))
    part, parts = desc["part"], desc["parts"]
    crng = random.Random(seed * 104729 + part)
    # a shard that is killed by its watchdog loses what it has recorded (also violations): stop in time instead and
    # say so.  Wall time only ever makes the run INCONCLUSIVE.
    t_start = _time.time()
    budget = 0.8 * desc.get("timeout", 900)
    todo = []
    if desc["mode"] == "quick":
        flats, grng = quick_cells(seed)
        mine = [f for k, f in enumerate(flats) if k % parts == part]
        mine += [random_flat(crng) for _ in range(desc.get("extra", 0))]
        # the cheap special kinds first, then the pair cells
        todo += [(c, False) for k, c in enumerate(scripted_cells(seed, dense=False)) if k % parts == part]
        todo += [(to_cell(f, crng), k < 2) for k, f in enumerate(mine)]
    else:
        todo += [(to_cell(f, crng), False) for k, f in enumerate(mute_flats(random.Random(seed * 31 + 5), dense=True))
                 if k % parts == part]
        todo += [(c, False) for k, c in enumerate(scripted_cells(seed, dense=True)) if k % parts == part]
        n = 0
        for index in range(part, GRID, parts):
            todo.append((index, n < 2))
            n += 1
        R.count("grid_cells_planned", n)
    for k, (c, rec) in enumerate(todo):
        if _time.time() - t_start > budget:
            R.count("cells_not_run_time_budget", len(todo) - k)
            R.inconc("shard %d stopped after %d of %d cells: %.0f s of its %d s used (loaded machine, or cells made "
                     "slow by what is being tested)" % (part, k, len(todo), _time.time() - t_start,
                                                        desc.get("timeout", 900)))
            break
        if isinstance(c, int):
            c = to_cell(full_grid_cell(c), crng)
            R.count("grid_cells")
        do_cell(c, R, record=rec)
    # the complete product of the quantifier (.. x lto x agf x lsc on both devices) has about 10^8 cells: the grid
    # of the thorough tier is complete over swap x brs x lri x lrt x rwt x miu_i x miu_t only, the other parameters
    # rotate (see rotation); the evidence therefore never claims exhaustiveness
    R.exhaustive = False
    # cells that lost their traffic because nfcpy's own pacing (1 ms, 50 ms when idle) is slower than the response
    # waiting time the target announced (rwt 0 and 1, partly up to 7) are counted; they must stay a minority
    n_cells = R.counters.get("cells", 0)
    lost = R.counters.get("cells_link_lost_target_slower_than_its_rwt", 0)
    if n_cells >= 20 and lost * 4 > n_cells:
        R.inconc("%d of %d cells lost their traffic to nfcpy's pacing against a small RWT (bound: a quarter)"
                 % (lost, n_cells))
    faulthandler.cancel_dump_traceback_later()


def replay(case, R):
    import faulthandler
    import sys
    faulthandler.dump_traceback_later(120, exit=True, file=sys.stderr)
    do_cell(case["cell"], R)
    faulthandler.cancel_dump_traceback_later()
