"""C07 - bytes from the remote peer cannot crash or hang the stack.

Every position where the peer speaks is fed hostile bytes; the monitors only look at the *boundary* of the call:

  escape/<position>/<exc_sig>        an exception that is not one of the documented types left the call
  thread-died/<position>/<exc_sig>   threading.excepthook fired for a thread of the stack (server / service thread)
  hang/<position>/<where>            the call did not return within a bound of *logical* steps (frames exchanged on a
                                     virtual clock), or - threaded parts - every workload thread shows no progress
                                     over three samples while one sits in an untimed wait inside nfc.*
                                     hang/<position>/step-budget/<function>: one input / one link turn made a thread
                                     execute more than LINE_BUDGET (RUN_LINE_BUDGET) lines of nfc code (sys.monitoring
                                     LINE events, armed only after the call has been running for a while; >= 50 x the
                                     most lines any input needs on the unchanged tree - reported as max_lines_per_*)
                                     hang/<position>/call-blocked/<where>: llc.run()/connect() run in a thread of their
                                     own (vf-run); it and every thread it started sit in waits with no progress
  (a wall-clock watchdog alone only yields INCONCLUSIVE)
  malformed-answered/tt3-emulation/...   a command that is structurally malformed by the FeliCa command formats (t3_structure,
                                     written from the specification) was answered with the success status 00 00
  malformed-processed/<position>/write/...  ... or part of it was handed to the service's write callback (block data not 16 bytes)
  service-gone/<position>/listen-thread-ended/...  after hostile input the listen thread of a SNEP / handover server has
                                     ended although the link controller has not terminated (structural: checked when the
                                     link loop asks the peer for the next frame / llc.terminated is still False);
                                     .../fresh-connection-refused-no-service: a fresh CONNECT is answered with DM 02

Positions (documented outcome in brackets):
  dep-frame-initiator / dep-frame-target   Initiator/Target.decode_frame            [PDU | nfc.clf.CommunicationError]
  llcp-decode                              nfc.llcp.pdu.decode                      [PDU | nfc.llcp.pdu.Error]
  tt3-emulation                            Type3TagEmulation.process_command        [response bytes | None]
  llc-activate                             LogicalLinkController.activate(gb)       [bool]
  dep-initiator-activate/-exchange/-deactivate   real nfc.dep.Initiator over a real ContactlessFrontend on a scripted
                                           Device, harness plays the target         [value | CommunicationError]
  dep-target-activate/-exchange/-deactivate      real nfc.dep.Target, harness plays the initiator   [same]
  llc-run                                  the real run loop over a scripted MAC (grammar-aware hostile LLCP peer),
                                           with SNEP + handover servers, bound sockets, blocked client threads
                                           [run() returns normally; socket calls: value | nfc.llcp.Error]
  llc-run-threaded                         two real LLCs (ThreadedPair), real frames mutated in flight
  snep-server / handover-server            raw hostile messages over a real data link connection
  snep-client                              real SnepClient against a hostile server [value | SnepError | llcp.Error]
  handover-client                          real HandoverClient (connect / send_records / send_octets / recv_records(timeout)
                                           / recv_octets) against a hostile handover server: hostile NDEF octets and
                                           fragments, answers of every length 0..7 at every point where a client waits
                                           [record list | octets | None | nfc.llcp.Error]
  connect-card                             ContactlessFrontend.connect(card=) on a scripted Device [returns normally]
  connect-llcp                             ContactlessFrontend.connect(llcp=) against a byte-level hostile peer
"""
import collections
import os
import struct
import sys
import threading
import time as real_time
import types

from vf.core.rec import exc_sig, exc_text
from vf.ref import llcp_ref as ref

ID = "C07"
LEVEL = "exploration"
RULE = ("cases = byte strings at every position where the peer speaks: (1) pure decoders - all strings of <= 2 bytes "
        "(3 in thorough), all header-aware short bodies, systematic mutations (truncation at every byte with and "
        "without repaired length, length fields +-1/+-2, every single bit flip, byte substitutions, appended bytes) of "
        "valid frames of every NFC-DEP / LLCP PDU type and every T3T command, nested aggregates of every depth the "
        "maximum frame permits; (2) live positions - a scripted peer answers the real stack with the valid reply or a "
        "mutation of it / a chosen hostile PDU at one protocol position after a valid prefix, plus random walks of "
        "hostile operations; handover/SNEP clients of the stack against hostile servers incl. answers of every length "
        "0..7 at every point where a client waits; a PDU-type x SAP-state grid of header-only PDUs; FeliCa commands whose "
        "lists / block data are shorter than their counts; after hostile input the servers must still be there; "
        "a case is distinct by (position, input bytes / script) and non-trivial when the call "
        "under observation was entered with the hostile input (its outcome - value, documented or undocumented "
        "exception, bound - is what the oracle classifies)")
ASSUMPTIONS = [
    "documented exception types: nfc.clf.CommunicationError subclasses for NFC-DEP decoding/exchange/activation, "
    "nfc.llcp.pdu.Error for pdu.decode, bool for llc.activate, normal return for llc.run()/connect(), "
    "SnepError/nfc.llcp.Error (ndef.DecodeError for get_records, documented as equivalent to message_decoder) for the "
    "SNEP client, nfc.llcp.Error for socket calls, bytes/None for Type3TagEmulation.process_command",
    "a contactless driver hands NFC-DEP an ATR_REQ of 16..64 bytes starting D4 00 and a first DEP_REQ starting D4 06 "
    "(what clf.listen() asserts and the udp/rcs380 drivers check); active-mode ATR_RES starts D5 01 and has >= 17 bytes "
    "(the PN53x builds it that way); everything else on the air is arbitrary",
    "a peer that keeps talking keeps the stack busy: scripts are finite and end in silence, the hang verdict is about "
    "returning within a bounded number of exchanges after the peer fell silent",
    "vf.ref.llcp_ref is used to build the valid PDUs that are mutated and to let the hostile peer follow the "
    "conversation (pending CONNECTs, sequence numbers); it never decides a verdict",
]
REQUIRED = ["n_dep_frame_initiator", "n_dep_frame_target", "n_llcp_decode", "n_tt3_emulation", "n_llc_activate",
            "n_dep_initiator", "n_dep_target", "n_llc_run", "n_llc_run_threaded", "n_snep_server", "n_handover_server",
            "n_snep_client", "n_connect_card", "n_connect_llcp", "llc_run_returned", "threads_started",
            "agf_depth_accepted", "outcome_tt3_emulation_misframed_ignored",
            "tt3_refused_element_at_position_8_or_later",
            # wave 6: per-position returns of the run loop, deliveries / responses really seen, new monitors
            "llc_run_returned_mac", "llc_run_returned_connect", "llc_run_returned_threaded",
            "threaded_injections_delivered", "handover_server_responses_seen", "snep_server_responses_seen",
            "n_handover_client", "outcome_ho_recvrec_value", "outcome_ho_recvoct_value",
            "tt3_malformed_judged", "tt3_write_callback_blocks", "tt3_structure_class",
            "continuity_probes", "continuity_served", "continuity_snep_server_served", "continuity_handover_server_served",
            "service_listen_threads_checked", "wait_point_cases", "grid_header_only_cases", "llc_run_gb_parameters", "llc_run_gb_mutated",
            "dep_initiator_dsl_res_positions", "dep_initiator_rls_res_positions",
            "step_budget_headroom_ok", "step_budget_measured_run_cases", "step_budget_measured_inputs_positions"]

NSHARDS = 16


def plan(tier, seed):
    q = tier == "quick"
    out = []
    for i in range(NSHARDS):
        d = {"ex_first": [i * 16, i * 16 + 16], "ex_len": 2 if q else 3,
             "dep_rand": 6000 if q else 80000, "llcp_rand": 2500 if q else 40000, "tt3_rand": 6000 if q else 80000,
             "act_rand": 1000 if q else 20000,
             "dep_live_rand": 500 if q else 6000,
             "run_cases": 100 if q else 1200,
             "thr_cases": 12 if q else 120,
             "snep_cases": 16 if q else 160,
             "card_cases": 120 if q else 1500,
             "llcpconn_cases": 60 if q else 800,
             "timeout": 900 if q else 3600}
        if os.environ.get("VERIF_C07_PARTS"):          # development aid: run only some parts
            d["parts"] = os.environ["VERIF_C07_PARTS"].split(",")
        out.append(d)
    return out


# =================================================================================================
# common helpers
# =================================================================================================
class Bound(BaseException):
    """logical step bound exceeded (BaseException: no `except Exception` in the code under observation swallows it)"""


class HarnessBug(BaseException):
    """an exception inside the harness' own peer code: never a verdict about nfcpy (-> inconclusive)"""


class StepBound(Bound):
    """line budget exceeded inside nfc code (raised by the sys.monitoring callback in the thread that runs it)"""


class HarnessAccess(BaseException):
    """the harness could not reach a piece of nfcpy it drives directly (an internal moved / was renamed): says nothing
    about the property (-> inconclusive)"""


LINE_BUDGET = 1000000        # lines of nfc/ndef code for ONE input / ONE link turn; see REQUIRED step_budget_headroom_ok


class LineBudget(object):
    """logical step budget.  While armed, every sys.monitoring LINE event of code that lives under /nfc/ or /ndef/
    (not the harness) executed by a registered thread is counted; the thread that exceeds its budget gets a StepBound
    raised at the line it executes.  Arming costs nothing while disarmed; a verdict depends on the number of lines
    executed for one input only, never on time."""

    def __init__(self):
        self.mon = getattr(sys, "monitoring", None)
        self.tool = None
        self.armed = False
        self.budget = {}         # thread ident -> budget
        self.counts = {}         # thread ident -> lines counted since the last reset
        self.codes = {}
        self.lock = threading.Lock()

    def _callback(self, code, line):
        i = threading.get_ident()
        b = self.budget.get(i)
        if b is None:
            return
        ok = self.codes.get(code)
        if ok is None:
            fn = code.co_filename.replace("\\", "/")
            ok = self.codes[code] = ("/nfc/" in fn or "/ndef/" in fn) and not fn.startswith("/verif/")
        if not ok:
            return
        n = self.counts.get(i, 0) + 1
        self.counts[i] = n
        if n > b:
            self.counts[i] = 0
            raise StepBound("more than %d lines of nfc code executed for one input (at %s:%s)"
                            % (b, code.co_filename[-40:], code.co_name))

    def arm(self, idents, budget=LINE_BUDGET):
        """-> False when sys.monitoring is not available (then nothing is decided by steps)"""
        mon = self.mon
        if mon is None:
            return False
        with self.lock:
            if self.tool is None:
                for tid in (3, 1, 2):
                    try:
                        mon.use_tool_id(tid, "vf-c07-steps")
                        self.tool = tid
                        break
                    except ValueError:
                        continue
                if self.tool is None:
                    return False
                mon.register_callback(self.tool, mon.events.LINE, self._callback)
            for i in idents:
                self.counts[i] = 0
                self.budget[i] = budget
            if not self.armed:
                mon.set_events(self.tool, mon.events.LINE)
                self.armed = True
        return True

    def disarm(self):
        with self.lock:
            self.budget.clear()
            if self.armed:
                self.mon.set_events(self.tool, 0)
                self.armed = False

    def reset(self):
        """a new input / a link turn: the budget counts per input"""
        self.counts[threading.get_ident()] = 0

    def lines(self):
        return self.counts.get(threading.get_ident(), 0)


class MainGuard(object):
    """covers the calls the shard makes in its main thread (pure decoders, llc.activate, process_command, the NFC-DEP
    positions and connect(card=) on the scripted Device).  A watcher thread sees that the main thread stays inside ONE
    guarded call for more than ~2 s of wall-clock and then arms the line budget for it: a call that spins gets a
    StepBound raised inside it (-> violation hang/<position>/step-budget/<function> with the input as witness), a
    call that is merely slow finishes within its budget.  begin() is the only cost in the hot loops."""
    _inst = None

    @classmethod
    def get(cls):
        if cls._inst is None:
            cls._inst = MainGuard()
        return cls._inst

    def __init__(self):
        self.lb = LineBudget()
        self.serial = 0
        self.inside = False
        self.measuring = False
        self.max_lines = {}          # label -> most lines seen for one input while measuring
        self.armed_by_watcher = 0
        self.main = threading.main_thread().ident
        t = threading.Thread(target=self._watch, name="vf-guard", daemon=True)
        t.start()
        if t in STARTED:                 # not a thread of any case
            STARTED.remove(t)

    def _watch(self):
        last, stuck = None, 0
        while True:
            real_time.sleep(0.5)
            s = self.serial
            if self.inside and s == last:
                stuck += 1
            else:
                stuck = 0
                if self.lb.armed and not self.measuring and s != last:
                    self.lb.disarm()
            last = s
            if stuck >= 4 and not self.lb.armed:
                self.armed_by_watcher += 1
                self.lb.arm([self.main])

    def begin(self):
        self.serial += 1
        self.inside = True
        if self.lb.armed:
            self.lb.counts[self.main] = 0

    def end(self, label=None):
        self.inside = False
        if self.measuring and label is not None:
            n = self.lb.counts.get(self.main, 0)
            if n > self.max_lines.get(label, 0):
                self.max_lines[label] = n

    def measure(self, on):
        """count the lines per input for a block of inputs (what the budget's head-room is reported against)"""
        if on and not self.measuring:
            self.measuring = self.lb.arm([self.main])
        elif not on and self.measuring:
            self.measuring = False
            self.lb.disarm()

    def report(self, R):
        for label, n in self.max_lines.items():
            R.max("lines_per_input_" + label.replace("-", "_"), n)
            R.count("step_budget_measured_inputs_positions")
            if n * 50 <= LINE_BUDGET:
                R.count("step_budget_headroom_ok")
            else:
                R.inconc("step budget: %s needs %d lines for one input on this tree, the budget of %d lines is less than "
                         "50 times that" % (label, n, LINE_BUDGET))
        self.max_lines = {}
        R.count("step_budget_armed_by_watcher", self.armed_by_watcher)
        self.armed_by_watcher = 0


class AbortPart(BaseException):
    """enough spinning inputs were witnessed at one position: every further one costs a whole step budget, so the
    rest of this part of the shard is skipped (the violations are recorded, the run fails anyway)"""


STEP_VIOLATIONS = collections.Counter()
RUN_LB = LineBudget()        # for the threads of the llc-run / connect-llcp cases (the main thread has MainGuard's)
RUN_WALL = 20.0              # seconds after which a running llc.run()/connect() is looked at (no verdict by itself)
RUN_LINE_BUDGET = 20000000   # lines of nfc code in one thread between two link turns (a 540-fold nested aggregate that is
                             # decoded, dispatched and formatted takes ~270 000)


def step_violation(R, pos, e, case):
    """a StepBound left nfc code: hang/<position>/step-budget/<innermost nfc function>"""
    where = exc_sig(e).split("@", 1)[-1]
    R.violation("hang/%s/step-budget/%s" % (pos, where),
                "%s: %s - the call spins instead of returning (logical step count, not time)" % (pos, e), case)
    STEP_VIOLATIONS[pos] += 1
    if STEP_VIOLATIONS[pos] >= 2 and "replay" not in case:
        R.count("part_cut_short_after_step_violations")
        raise AbortPart(pos)


class Stats(object):
    """cheap local counters for the hot loops, flushed into the Recorder once"""

    def __init__(self, R, pos):
        self.R, self.pos, self.c, self.n, self.ex = R, pos, collections.Counter(), 0, 0

    def flush(self, distinct_bulk=0):
        R, key = self.R, self.pos.replace("-", "_")
        R.count("n_" + key, self.n)
        for k, v in self.c.items():
            R.count("outcome_%s_%s" % (key, k), v)
            R.seen("outcomes_" + key, k)
        if distinct_bulk:
            R.bulk(0, distinct_bulk)


def escape(R, pos, e, case, what=None):
    sig = "escape/%s/%s" % (pos, exc_sig(e))
    if type(e) is RuntimeError:      # nfcpy raises these itself with fixed texts: the text tells the mechanisms apart
        import re
        sig += ":" + "-".join(re.findall(r"[A-Za-z_]+", str(e))[:4])
    R.violation(sig, what or ("%s: %s escaped (documented outcome: see module docstring): %s"
                              % (pos, type(e).__name__, str(e)[:120])), case)
    R.seen("undocumented_" + pos.replace("-", "_"), exc_sig(e))
    return sig


def raised_in_ndef(e):
    """the innermost traceback frame lies in the third-party ndef package (what ndef.message_decoder itself raises)"""
    tb, last = e.__traceback__, None
    while tb is not None:
        last = tb.tb_frame.f_code.co_filename.replace("\\", "/")
        tb = tb.tb_next
    return bool(last) and "/ndef/" in last


def fix_len(frame, brty):
    """repair the NFC-DEP length byte of a framed byte string"""
    f = bytearray(frame)
    o = 1 if brty == "106A" else 0
    if len(f) > o:
        f[o] = (len(f) - o) & 0xFF
    return bytes(f)


def systematic_mutations(frame, len_pos=None, start=0, flips_upto=40):
    """deterministic list of mutations of one valid frame.  len_pos: index of a length byte that covers
    frame[len_pos:] (NFC-DEP, T3T) - variants with the length repaired are produced as well."""
    f = bytes(frame)
    out = []

    def emit(b, repair=True):
        b = bytes(b)
        out.append(b)
        if repair and len_pos is not None and len(b) > len_pos:
            c = bytearray(b)
            c[len_pos] = (len(b) - len_pos) & 0xFF
            if bytes(c) != b:
                out.append(bytes(c))

    for cut in range(len(f) + 1):                       # truncation at every byte
        emit(f[:cut])
    if len_pos is not None and len(f) > len_pos:        # length field games
        for v in (f[len_pos] + 1, f[len_pos] - 1, f[len_pos] + 2, f[len_pos] - 2, 0, 1, 2, 3, 255):
            c = bytearray(f)
            c[len_pos] = v & 0xFF
            emit(c, repair=False)
    idx = list(range(start, min(len(f), flips_upto))) + list(range(max(flips_upto, len(f) - 2), len(f)))
    for i in idx:                                       # every single bit flip, byte substitutions
        for bit in range(8):
            c = bytearray(f)
            c[i] ^= 1 << bit
            emit(c, repair=False)
        for v in (0x00, 0xFF, 0x7F, 0x80):
            if f[i] != v:
                c = bytearray(f)
                c[i] = v
                emit(c, repair=False)
        c = bytearray(f)                                # delete one byte
        del c[i]
        emit(c)
    for extra in (b"\x00", b"\xff", b"\x00\x00", b"\x01\x02\x03"):   # appended bytes
        emit(f + extra)
    return out


def random_mutation(rng, frame, len_pos=None):
    b = bytearray(frame)
    for _ in range(rng.choice([1, 1, 1, 2, 3])):
        k = rng.randrange(8)
        if k == 0 and b:
            del b[rng.randrange(len(b)):]
        elif k == 1 and b:
            b[rng.randrange(len(b))] ^= 1 << rng.randrange(8)
        elif k == 2 and b:
            i = rng.randrange(len(b))
            b[i] = (b[i] + rng.choice([1, -1])) & 255
        elif k == 3:
            b += rng.randbytes(rng.randrange(1, 5))
        elif k == 4 and b:
            i = rng.randrange(len(b))
            b[i:i] = rng.randbytes(rng.randrange(1, 4))
        elif k == 5 and b:
            i = rng.randrange(len(b))
            del b[i:i + rng.randrange(1, 4)]
        elif k == 6 and b:
            b[rng.randrange(len(b))] = rng.choice([0, 1, 2, 3, 0x7F, 0x80, 0xFE, 0xFF])
        elif b:
            i = rng.randrange(len(b))
            j = min(len(b), i + rng.randrange(1, 5))
            b[i:j] = rng.randbytes(j - i)
    if len_pos is not None and len(b) > len_pos and rng.random() < 0.7:
        b[len_pos] = (len(b) - len_pos) & 0xFF
    return bytes(b)


# =================================================================================================
# NFC-DEP wire format (written from ISO/IEC 18092 / NFC Digital Protocol, not from nfc.dep)
# =================================================================================================
GB_GOOD = b"Ffm" + bytes([1, 1, 0x13, 2, 2, 0x00, 0x78, 3, 2, 0x00, 0x13, 4, 1, 0x32, 7, 1, 0x03])
NFCID3 = bytes.fromhex("01FE0102030405060708")
PFB_INF, PFB_MI, PFB_ACK, PFB_NAK, PFB_ATN, PFB_RTOX = 0x00, 0x10, 0x40, 0x50, 0x80, 0x90


def dep_frame(body, brty):
    f = bytes([(len(body) + 1) & 0xFF]) + bytes(body)
    return (b"\xF0" + f) if brty == "106A" else f


def dep_unframe(frame, brty):
    f = bytes(frame)
    if brty == "106A":
        if not f or f[0] != 0xF0:
            return None
        f = f[1:]
    if not f or f[0] != len(f):
        return None
    return f[1:]


def atr_req(did=0, pp=0x32, gb=GB_GOOD):
    return b"\xD4\x00" + NFCID3 + bytes([did, 0, 0, pp]) + gb


def atr_res(did=0, to=0x08, pp=0x32, gb=GB_GOOD):
    return b"\xD5\x01" + NFCID3 + bytes([did, 0, 0, to, pp]) + gb


def dep_pdu(code, pfb, did=None, nad=None, data=b""):
    """code: b'\\xD4\\x06' (DEP_REQ) or b'\\xD5\\x07' (DEP_RES)"""
    pfb = pfb & 0xF3 | (0x04 if did is not None else 0) | (0x08 if nad is not None else 0)
    out = code + bytes([pfb])
    if did is not None:
        out += bytes([did])
    if nad is not None:
        out += bytes([nad])
    return out + bytes(data)


def dep_templates(role):
    """valid NFC-DEP PDUs (unframed) a decoder of `role` ('I' decodes responses, 'T' decodes requests) must read"""
    req = role == "T"
    out = []
    if req:
        out += [("ATR_REQ", atr_req()), ("ATR_REQ-nogb", atr_req(pp=0x30, gb=b"")), ("ATR_REQ-did", atr_req(did=1)),
                ("ATR_REQ-ppgb-empty", atr_req(pp=0x32, gb=b"")), ("ATR_REQ-max", atr_req(gb=GB_GOOD + bytes(28))),
                ("PSL_REQ", b"\xD4\x04\x00\x12\x03"), ("PSL_REQ-did", b"\xD4\x04\x01\x09\x00")]
        dep, dsl, rls = b"\xD4\x06", b"\xD4\x08", b"\xD4\x0A"
    else:
        out += [("ATR_RES", atr_res()), ("ATR_RES-nogb", atr_res(pp=0x30, gb=b"")), ("ATR_RES-did", atr_res(did=1)),
                ("ATR_RES-ppgb-empty", atr_res(pp=0x32, gb=b"")), ("ATR_RES-to15", atr_res(to=0x0F)),
                ("ATR_RES-max", atr_res(gb=GB_GOOD + bytes(27))),
                ("PSL_RES", b"\xD5\x05\x00"), ("PSL_RES-did", b"\xD5\x05\x01")]
        dep, dsl, rls = b"\xD5\x07", b"\xD5\x09", b"\xD5\x0B"
    for pni in range(4):
        out.append(("DEP-INF-pni%d" % pni, dep_pdu(dep, PFB_INF | pni, data=b"\x00\x00")))
    for did in (None, 1):
        for nad in (None, 7):
            tag = "%s%s" % ("-did" if did else "", "-nad" if nad else "")
            out.append(("DEP-INF" + tag, dep_pdu(dep, PFB_INF | 1, did, nad, b"\x13\x20hello")))
            out.append(("DEP-MI" + tag, dep_pdu(dep, PFB_MI | 2, did, nad, bytes(range(40)))))
            out.append(("DEP-ACK" + tag, dep_pdu(dep, PFB_ACK | 3, did, nad)))
            out.append(("DEP-NAK" + tag, dep_pdu(dep, PFB_NAK | 0, did, nad)))
            out.append(("DEP-ATN" + tag, dep_pdu(dep, PFB_ATN, did, nad)))
            out.append(("DEP-RTOX" + tag, dep_pdu(dep, PFB_RTOX, did, nad, b"\x05")))
    out.append(("DEP-INF-empty", dep_pdu(dep, PFB_INF)))
    out.append(("DEP-RTOX-nodata", dep_pdu(dep, PFB_RTOX)))
    out.append(("DEP-INF-max", dep_pdu(dep, PFB_INF | 1, data=bytes(251))))
    out.append(("DEP-rfu-pfb", dep_pdu(dep, 0xE0, data=b"\x01")))
    out += [("DSL", dsl), ("DSL-did", dsl + b"\x01"), ("RLS", rls), ("RLS-did", rls + b"\x01")]
    return out


DOC_DEP_RESULT = ("ATR_REQ", "ATR_RES", "PSL_REQ", "PSL_RES", "DEP_REQ", "DEP_RES", "DSL_REQ", "DSL_RES",
                  "RLS_REQ", "RLS_RES")


class DepFrames(object):
    """position dep-frame-initiator / dep-frame-target: the real decode_frame of both roles at every bit rate"""

    def __init__(self, R):
        import nfc.clf
        import nfc.dep
        self.R = R
        self.CommErr = nfc.clf.CommunicationError
        self.mac = {}
        self.g = MainGuard.get()
        try:            # the harness reaches into nfc.dep here: when that fails nothing is said about the property
            for brty in ("106A", "212F", "424F"):
                i = nfc.dep.Initiator(clf=None)
                i.target = nfc.clf.RemoteTarget(brty)
                t = nfc.dep.Target(clf=None)
                t.target = nfc.clf.LocalTarget(brty)
                self.mac[("I", brty)], self.mac[("T", brty)] = i.decode_frame, t.decode_frame
        except (AttributeError, TypeError) as e:
            raise HarnessAccess("nfc.dep.Initiator/Target(clf=None).decode_frame not reachable: %r" % (e,))
        self.st = {"I": Stats(R, "dep-frame-initiator"), "T": Stats(R, "dep-frame-target")}
        self.exhaustive = False      # inside an enumeration that is distinct by construction

    def check(self, role, brty, frame):
        st = self.st[role]
        st.n += 1
        if self.exhaustive:
            st.ex += 1
        else:
            self.R.case((st.pos, brty, frame))
        decode_frame, g = self.mac[(role, brty)], self.g
        g.begin()
        try:
            r = decode_frame(bytearray(frame))
        except self.CommErr as e:
            st.c[type(e).__name__] += 1
            return
        except StepBound as e:
            st.c["STEP-BUDGET"] += 1
            step_violation(self.R, st.pos, e, {"pos": "dep-frame", "role": role, "brty": brty, "frame": bytes(frame)})
            return
        except Exception as e:
            st.c["UNDOCUMENTED:" + type(e).__name__] += 1
            escape(self.R, st.pos, e, {"pos": "dep-frame", "role": role, "brty": brty, "frame": bytes(frame)},
                   "%s.decode_frame(%s) at %s raised %s instead of a CommunicationError"
                   % ("Initiator" if role == "I" else "Target", bytes(frame)[:24].hex(), brty, type(e).__name__))
            return
        finally:
            g.end("dep-frame")
        st.c["decoded:" + type(r).__name__] += 1

    def run(self, desc, rng):
        R = self.R
        lo, hi = desc["ex_first"]
        shard = desc["shard"]
        n_ex = 0
        self.exhaustive = True
        # (a) exhaustive short strings, every role and bit-rate framing (424F frames like 212F)
        for role in "IT":
            for brty in ("106A", "212F"):
                if shard == 0:
                    self.check(role, brty, b"")
                    n_ex += 1
                for a in range(lo, hi):
                    self.check(role, brty, bytes([a]))
                    n_ex += 1
                    for b in range(256):
                        self.check(role, brty, bytes([a, b]))
                    n_ex += 256
                    if desc["ex_len"] >= 3:
                        for b in range(256):
                            ab = bytes([a, b])
                            for c in range(256):
                                self.check(role, brty, ab + bytes([c]))
                        n_ex += 65536
        # (b) header-aware: well framed, valid command code, every body of <= 1 byte (<= 2 bytes for a byte-range slice)
        for role in "IT":
            c0 = 0xD5 if role == "I" else 0xD4
            for brty in ("106A", "212F", "424F"):
                for c1 in range(12):
                    self.check(role, brty, dep_frame(bytes([c0, c1]), brty))
                    n_ex += 1
                    for a in range(lo, hi):
                        self.check(role, brty, dep_frame(bytes([c0, c1, a]), brty))
                        n_ex += 1
                        if brty != "424F":
                            for b in range(0, 256, 1 if desc["ex_len"] >= 3 else 5):
                                self.check(role, brty, dep_frame(bytes([c0, c1, a, b]), brty))
                                n_ex += 1
        R.count("dep_frame_exhaustive", n_ex)
        self.exhaustive = False
        # (c) systematic mutations of valid frames of every PDU type
        k = 0
        for role in "IT":
            for name, body in dep_templates(role):
                for brty in ("106A", "212F"):
                    k += 1
                    if k % NSHARDS != shard % NSHARDS:
                        continue
                    fr = dep_frame(body, brty)
                    self.g.measure(True)
                    self.check(role, brty, fr)
                    self.g.measure(False)
                    R.seen("dep_templates", role + ":" + name)
                    for m in systematic_mutations(fr, len_pos=1 if brty == "106A" else 0):
                        self.check(role, brty, m)
                        R.count("dep_frame_systematic")
        # (d) random multi-mutations
        tpl = {r: dep_templates(r) for r in "IT"}
        for i in range(desc["dep_rand"]):
            role = "IT"[i & 1]
            brty = rng.choice(("106A", "212F", "424F"))
            fr = dep_frame(rng.choice(tpl[role])[1], brty)
            self.check(role, brty, random_mutation(rng, fr, len_pos=1 if brty == "106A" else 0))
        for role in "IT":
            self.st[role].flush()
        R.bulk(self.st["I"].ex + self.st["T"].ex, self.st["I"].ex + self.st["T"].ex)
        self.g.report(R)


# =================================================================================================
# LLCP PDU decoding: nested aggregates, TLV length games (C11 checks consistency; here only what escapes)
# =================================================================================================
def llcp_valid_encodings():
    E = ref.encode
    out = [
        ("SYMM", E({"t": "SYMM", "dsap": 0, "ssap": 0})),
        ("PAX", E({"t": "PAX", "dsap": 0, "ssap": 0, "version": (1, 3), "miu": 248, "wks": 0x13, "lto": 500, "lsc": 3})),
        ("UI", E({"t": "UI", "dsap": 33, "ssap": 32, "data": b"hello world"})),
        ("CONNECT", E({"t": "CONNECT", "dsap": 4, "ssap": 32, "miu": 1024, "rw": 4, "sn": None})),
        ("CONNECT-sn", E({"t": "CONNECT", "dsap": 1, "ssap": 32, "miu": 128, "rw": 1, "sn": b"urn:nfc:sn:snep"})),
        ("DISC", E({"t": "DISC", "dsap": 4, "ssap": 32})),
        ("CC", E({"t": "CC", "dsap": 32, "ssap": 4, "miu": 2175, "rw": 15})),
        ("DM", E({"t": "DM", "dsap": 32, "ssap": 4, "reason": 2})),
        ("FRMR", E({"t": "FRMR", "dsap": 32, "ssap": 4, "rej_flags": 8, "rej_ptype": 12, "ns": 1, "nr": 2, "vs": 3,
                    "vr": 4, "vsa": 5, "vra": 6})),
        ("SNL", E({"t": "SNL", "dsap": 1, "ssap": 1, "sdreq": [(1, b"urn:nfc:sn:snep"), (2, b"urn:nfc:sn:handover")],
                   "sdres": [(3, 4), (4, 0x41)]})),
        ("DPS", E({"t": "DPS", "dsap": 0, "ssap": 0, "ecpk": bytes(64), "rn": bytes(8)})),
        ("I", E({"t": "I", "dsap": 4, "ssap": 32, "ns": 3, "nr": 5, "data": b"\x10\x02\x00\x00\x00\x03\xd0\x00\x00"})),
        ("RR", E({"t": "RR", "dsap": 4, "ssap": 32, "nr": 7})),
        ("RNR", E({"t": "RNR", "dsap": 4, "ssap": 32, "nr": 9})),
        ("UNKNOWN", E({"t": "UNKNOWN", "ptype": 11, "dsap": 5, "ssap": 6, "payload": b"xyz"})),
    ]
    agf = b"\x00\x80" + b"".join(struct.pack(">H", len(e)) + e for _, e in out[2:8])
    out.append(("AGF", agf))
    return out


def nest(inner, depth):
    e = bytes(inner)
    for _ in range(depth):
        e = b"\x00\x80" + struct.pack(">H", len(e)) + e
    return e


def comb(inner, depth, tooth=b"\x00\x02\x04\x60"):
    """every level holds a small PDU (a DISC) *and* the next level"""
    e = bytes(inner)
    for _ in range(depth):
        e = b"\x00\x80" + tooth + struct.pack(">H", len(e)) + e
    return e


def agf_depth(p):
    """nesting depth of a decoded PDU, iteratively (the harness must not hit the recursion limit itself)"""
    depth, level = 0, [p]
    while True:
        nxt = []
        for x in level:
            if getattr(x, "name", None) == "AGF":
                nxt.extend(list(x))
        if not any(getattr(x, "name", None) == "AGF" for x in level):
            return depth
        depth += 1
        level = nxt
        if not level:
            return depth


class LlcpDecode(object):
    def __init__(self, R):
        import nfc.llcp.pdu as P
        self.P, self.R = P, R
        self.st = Stats(R, "llcp-decode")
        self.exhaustive = False
        self.g = MainGuard.get()
        try:
            self.decode, self.Error = P.decode, P.Error
        except AttributeError as e:
            raise HarnessAccess("nfc.llcp.pdu.decode / Error not reachable: %r" % (e,))

    def check(self, b, want_depth=False):
        st = self.st
        st.n += 1
        if self.exhaustive:
            st.ex += 1
        else:
            self.R.case(("llcp-decode", b))
        g = self.g
        g.begin()
        try:
            p = self.decode(b)
        except self.Error as e:
            st.c[type(e).__name__] += 1
            return None
        except StepBound as e:
            st.c["STEP-BUDGET"] += 1
            step_violation(self.R, "llcp-decode", e, {"pos": "llcp-decode", "data": bytes(b)})
            return None
        except Exception as e:
            st.c["UNDOCUMENTED:" + type(e).__name__] += 1
            escape(self.R, "llcp-decode", e, {"pos": "llcp-decode", "data": bytes(b)},
                   "nfc.llcp.pdu.decode(%d bytes %s..) raised %s instead of pdu.DecodeError"
                   % (len(b), bytes(b)[:16].hex(), type(e).__name__))
            return None
        finally:
            g.end("llcp-decode")
        st.c["decoded"] += 1
        if want_depth:
            d = agf_depth(p)
            self.R.max("agf_depth_accepted", d)
            self.R.count("agf_depth_accepted")
        return p

    def run(self, desc, rng):
        R, shard = self.R, desc["shard"]
        lo, hi = desc["ex_first"]
        self.exhaustive = True
        if shard == 0:
            self.check(b"")
        for a in range(lo, hi):
            self.check(bytes([a]))
            for b in range(256):
                self.check(bytes([a, b]))
                if desc["ex_len"] >= 3:
                    for c in range(256):
                        self.check(bytes([a, b, c]))
        self.exhaustive = False
        R.count("llcp_decode_exhaustive", self.st.ex)
        valid = llcp_valid_encodings()
        # systematic mutations of every PDU type
        for k, (name, enc) in enumerate(valid):
            if k % NSHARDS == shard % NSHARDS:
                R.seen("llcp_templates", name)
                self.check(enc)
                for m in systematic_mutations(enc):
                    self.check(m)
        # TLV length games for every PDU type that carries parameters
        k = 0
        for hdr in (b"\x00\x40", b"\x11\x20", b"\x81\x84", b"\x06\x41", b"\x02\x80"):
            for t in range(0, 14):
                for ln in (0, 1, 2, 3, 4, 127, 128, 254, 255):
                    for have in (0, 1, ln - 1, ln, ln + 1):
                        k += 1
                        if have < 0 or k % NSHARDS != shard % NSHARDS:
                            continue
                        tlv = bytes([t, ln]) + bytes(have)
                        for pre in (b"", b"\x01\x01\x13", b"\x05\x01\x02\x06"):
                            self.check(hdr + pre + tlv)
                            self.check(hdr + pre + tlv + tlv)
                            self.check(b"\x00\x80" + struct.pack(">H", len(hdr + pre + tlv)) + hdr + pre + tlv + b"\x00\x02\x00\x00")
                            R.count("llcp_tlv_games", 3)
        # nested aggregates: every depth the maximum frame (2 + 2175 + 3) permits, and beyond
        leaves = [b"\x00\x00", b"\x13\x20" + b"\x03ab", b"\x11\x20\x02\x02\x00", b"\x2e\xc1xyz", b"\x00\x80", b"\x00\x80\x00",
                  b"\x12\x21\x00" + bytes(8)]
        maxd = 0
        for d in range(1, 560):
            if d % NSHARDS != shard % NSHARDS:
                continue
            self.g.measure(480 <= d <= 500)  # the deepest aggregates still accepted are the most expensive inputs here
            for li, leaf in enumerate(leaves):
                if li and (d + li) % 4:
                    continue
                e = nest(leaf, d)
                if len(e) <= 2180 or li == 0:
                    self.check(e, want_depth=True)
                    maxd = max(maxd, d)
                    R.count("llcp_nested")
            e = comb(b"\x00\x00", d)
            if len(e) <= 4400:
                self.check(e, want_depth=True)
                R.count("llcp_nested")
        self.g.measure(True)
        for _, enc in valid:
            self.check(enc)
        for d in (600 + shard, 1000 + shard, 4000 + shard, 16000 + shard):
            e = nest(b"\x00\x00", d)
            if len(e) <= 65535 * 2:
                self.check(e, want_depth=True)
                maxd = max(maxd, d)
                R.count("llcp_nested")
        self.g.measure(False)
        R.max("agf_depth_attempted", maxd)
        # random mutations (incl. wrapping into aggregates)
        encs = [e for _, e in valid]
        for i in range(desc["llcp_rand"]):
            m = random_mutation(rng, rng.choice(encs))
            if i % 7 == 0:
                m = nest(m, rng.choice([1, 2, 5, 40, 200, 480, 500, 540]))
            elif i % 7 == 1:
                m = struct.pack(">H", rng.randrange(65536)) + m[2:]
            self.check(m, want_depth=(i % 7 == 0))
        self.st.flush()
        R.bulk(self.st.ex, self.st.ex)
        self.g.report(R)


# =================================================================================================
# Type 3 Tag emulation: commands of a hostile reader
# =================================================================================================
T3_IDM = bytes.fromhex("02FE010203040506")
T3_PMM = bytes.fromhex("FFFFFFFFFFFFFFFF")
T3_SYS = bytes.fromhex("12FC")


def t3_cmd(code, body=b"", idm=T3_IDM):
    c = bytes([code]) + (idm if idm is not None else b"") + bytes(body)
    return bytes([len(c) + 1]) + c


def t3_blocklist(blocks, three=False, svc_index=0):
    out = b""
    for b in blocks:
        if three or b > 255:
            out += bytes([svc_index & 0x0F, b & 255, b >> 8])
        else:
            out += bytes([0x80 | (svc_index & 0x0F), b & 255])
    return out


def t3_templates():
    svc_rw, svc_ro = b"\x09\x00", b"\x0b\x00"
    out = [("polling", bytes([6, 0, 0xFF, 0xFF, 0, 0])), ("polling-sys", bytes([6, 0, 0x12, 0xFC, 1, 0])),
           ("polling-rc2", bytes([6, 0, 0xFF, 0xFF, 2, 15])),
           ("request-response", t3_cmd(0x04)), ("request-system-code", t3_cmd(0x0C)),
           ("read-1", t3_cmd(0x06, b"\x01" + svc_ro + b"\x01" + t3_blocklist([0]))),
           ("read-4", t3_cmd(0x06, b"\x01" + svc_ro + b"\x04" + t3_blocklist([0, 1, 2, 3]))),
           ("read-3byte", t3_cmd(0x06, b"\x01" + svc_ro + b"\x02" + t3_blocklist([1, 2], three=True))),
           ("read-2svc", t3_cmd(0x06, b"\x02" + svc_ro + svc_rw + b"\x02" + t3_blocklist([0]) + t3_blocklist([1], svc_index=1))),
           ("read-15", t3_cmd(0x06, b"\x01" + svc_ro + b"\x0f" + t3_blocklist(range(15)))),
           ("read-unknown-svc", t3_cmd(0x06, b"\x01\x49\x10\x01" + t3_blocklist([0]))),
           ("read-beyond", t3_cmd(0x06, b"\x01" + svc_ro + b"\x01" + t3_blocklist([200]))),
           ("write-1", t3_cmd(0x08, b"\x01" + svc_rw + b"\x01" + t3_blocklist([1]) + bytes(range(16)))),
           ("write-2", t3_cmd(0x08, b"\x01" + svc_rw + b"\x02" + t3_blocklist([1, 2]) + bytes(32))),
           ("write-3byte", t3_cmd(0x08, b"\x01" + svc_rw + b"\x01" + t3_blocklist([3], three=True) + bytes(16))),
           ("write-ro", t3_cmd(0x08, b"\x01" + svc_ro + b"\x01" + t3_blocklist([1]) + bytes(16))),
           ("wrong-idm", t3_cmd(0x06, b"\x01" + svc_ro + b"\x01" + t3_blocklist([0]), idm=bytes(8))),
           ("unknown-cmd", t3_cmd(0x0A, b"\x00")), ("echo", t3_cmd(0xF0, b"\x00abc", idm=None))]
    return out


def make_t3_emulation(clf=None, first_cmd=None, wlog=None):
    import nfc.clf
    import nfc.tag.tt3
    first = first_cmd if first_cmd is not None else t3_cmd(0x04)
    target = nfc.clf.LocalTarget("212F", sensf_res=bytearray(b"\x01" + T3_IDM + T3_PMM + T3_SYS),
                                 tt3_cmd=bytearray(first[1:]))
    emu = nfc.tag.tt3.Type3TagEmulation(clf, target)
    add_t3_services(emu, wlog)
    return emu


def t3_structure(cmd):
    """structural well-formedness of a FeliCa command frame, written from the command formats in the FeliCa card
    user's manual / NFC Forum Type 3 Tag specification (not from nfcpy):
        LEN | code | ...                              LEN counts itself
        00 Polling:              system code (2) request code (1) time slot (1)                       -> 6 bytes
        04 Request Response:     IDm (8)                                                              -> 10 bytes
        0C Request System Code:  IDm (8)                                                              -> 10 bytes
        06 Read Without Encr.:   IDm (8) ns (1) ns x service code (2) nb (1) nb x block list element
        08 Write Without Encr.:  the same, followed by nb x 16 bytes block data
        block list element: 2 bytes when bit 7 of its first byte is set, 3 bytes otherwise
    -> (verdict, reason): verdict 'ok' | 'malformed' | 'misframed' | 'other' (command codes without a fixed format here)"""
    cmd = bytes(cmd)
    if len(cmd) < 2 or cmd[0] != len(cmd):
        return "misframed", "len-byte-mismatch"
    code = cmd[1]
    if code == 0x00:
        return ("ok", None) if len(cmd) == 6 else ("malformed", "polling-length-not-6")
    if code in (0x04, 0x0C):
        if len(cmd) < 10:
            return "malformed", "idm-incomplete"
        return ("ok", None) if len(cmd) == 10 else ("malformed", "trailing-bytes")
    if code not in (0x06, 0x08):
        return "other", None
    if len(cmd) < 10:
        return "malformed", "idm-incomplete"
    i = 10
    if len(cmd) <= i:
        return "malformed", "service-list-incomplete"
    ns = cmd[i]
    i += 1 + 2 * ns
    if len(cmd) < i:
        return "malformed", "service-list-incomplete"
    if len(cmd) <= i:
        return "malformed", "block-count-missing"
    nb = cmd[i]
    i += 1
    for _ in range(nb):
        if len(cmd) <= i:
            return "malformed", "block-list-incomplete"
        i += 2 if cmd[i] & 0x80 else 3
        if len(cmd) < i:
            return "malformed", "block-list-incomplete"
    rest = len(cmd) - i
    if code == 0x06:
        return ("ok", None) if rest == 0 else ("malformed", "trailing-bytes")
    if rest < 16 * nb:
        return "malformed", "block-data-shorter-than-block-list"
    if rest > 16 * nb:
        return "malformed", "block-data-longer-than-block-list"
    return "ok", None


def add_t3_services(emu, log=None):
    """two services as examples/tagtool.py registers them (the write callback accepts whatever it is handed, as the
    example does); `log` records every invocation of the write callback as (block number, length of the block data)"""
    mem = bytearray(16 * 16)
    mem[0:16] = bytes.fromhex("10 04 01 00 0d 00 00 00 00 00 00 00 00 00 00 23")
    log = log if log is not None else []

    def rd(block_number, rb, re):                # as examples/tagtool.py does
        if block_number < len(mem) // 16:
            return mem[block_number * 16:(block_number + 1) * 16]

    def wr(block_number, block_data, wb, we):
        log.append((block_number, len(block_data)))
        if block_number < len(mem) // 16:
            if len(block_data) == 16:            # memory keeps its size whatever the emulation hands over
                mem[block_number * 16:(block_number + 1) * 16] = block_data
            return True
        return False
    emu.add_service(0x0009, rd, wr)
    emu.add_service(0x000B, rd, lambda *a: False)
    return log


class T3Emu(object):
    def __init__(self, R):
        self.R = R
        self.wlog = []
        self.emu = make_t3_emulation(wlog=self.wlog)
        self.st = Stats(R, "tt3-emulation")
        self.exhaustive = False
        self.g = MainGuard.get()

    def check(self, cmd):
        st = self.st
        st.n += 1
        if self.exhaustive:
            st.ex += 1
        else:
            self.R.case(("tt3-emulation", cmd))
        g = self.g
        g.begin()
        try:
            r = self.emu.process_command(bytearray(cmd))
        except StepBound as e:
            st.c["STEP-BUDGET"] += 1
            step_violation(self.R, "tt3-emulation", e, {"pos": "tt3-emulation", "cmd": bytes(cmd)})
            return
        except Exception as e:
            st.c["UNDOCUMENTED:" + type(e).__name__] += 1
            escape(self.R, "tt3-emulation", e, {"pos": "tt3-emulation", "cmd": bytes(cmd)},
                   "Type3TagEmulation.process_command(%s) raised %s (documented: response bytes or None)"
                   % (bytes(cmd)[:32].hex(), type(e).__name__))
            return
        finally:
            g.end("tt3-emulation")
        misframed = len(cmd) > 0 and cmd[0] != len(cmd)       # the LEN byte of a FeliCa frame counts itself
        if r is None:
            st.c["None"] += 1
            if misframed:
                st.c["misframed_ignored"] += 1
        elif isinstance(r, (bytes, bytearray)) and misframed:
            st.c["misframed_answered"] += 1
            self.R.violation("malformed-answered/tt3-emulation/len-byte-mismatch",
                             "process_command(%s): the LEN byte says %d, the command has %d bytes; it must be ignored "
                             "but was answered with %s" % (bytes(cmd)[:24].hex(), cmd[0], len(cmd), bytes(r)[:16].hex()),
                             {"pos": "tt3-emulation", "cmd": bytes(cmd)})
        elif isinstance(r, (bytes, bytearray)):
            st.c["response"] += 1
            if len(r) >= 12 and r[1] in (7, 9):
                st.c["status_%02x%02x" % (r[10], r[11])] += 1
        else:
            st.c["other:" + type(r).__name__] += 1
            self.R.violation("badreturn/tt3-emulation/" + type(r).__name__,
                             "process_command returned %r" % (r,), {"pos": "tt3-emulation", "cmd": bytes(cmd)})
        self.judge_structure(cmd, r)

    def judge_structure(self, cmd, r):
        """clause 'malformed input is answered with a protocol error or ignored': a Read/Write Without Encryption
        command addressed to this tag that is structurally malformed (t3_structure, independent of nfcpy) must not be
        answered with the success status 00 00, and no part of it may be handed to the service's write callback as a
        block that does not have 16 bytes"""
        st, wlog = self.st, self.wlog
        calls = list(wlog)
        del wlog[:]
        st.c["write_callback_blocks"] += len(calls)
        if len(cmd) < 10 or cmd[1] not in (0x06, 0x08) or bytes(cmd[2:10]) != T3_IDM:
            return
        verdict, reason = t3_structure(cmd)
        short = [c for c in calls if c[1] != 16]
        if verdict == "ok":
            st.c["wellformed_rw"] += 1
            if short:
                st.c["wellformed_write_callback_not_16"] += 1      # not a matter of this property; reported as counter
            return
        if verdict != "malformed":
            return
        st.c["malformed_judged"] += 1
        st.c["malformed:" + reason] += 1
        name = "read" if cmd[1] == 0x06 else "write"
        if reason in ("trailing-bytes", "block-data-longer-than-block-list"):
            # octets BEHIND a complete command: the command formats do not say what a tag does with them, so an answer
            # is only observed (counter), not judged
            if isinstance(r, (bytes, bytearray)) and len(r) >= 12 and r[10] == 0 and r[11] == 0:
                st.c["surplus_octets_answered_success_observed"] += 1
            return
        case = {"pos": "tt3-emulation", "cmd": bytes(cmd)}
        if short:
            st.c["malformed_write_callback_not_16"] += 1
            self.R.violation("malformed-processed/tt3-emulation/write/%s/callback-block-data-not-16-bytes" % reason,
                             "process_command(%s): Write Without Encryption, structurally malformed (%s), was executed: "
                             "the service's write callback was called with block data of %s bytes"
                             % (bytes(cmd)[:40].hex(), reason, sorted(set(c[1] for c in short))), case)
        if r is None:
            st.c["malformed_ignored"] += 1
        elif isinstance(r, (bytes, bytearray)) and len(r) >= 12 and r[1] in (7, 9) and r[10] == 0 and r[11] == 0:
            st.c["malformed_answered_success"] += 1
            self.R.violation("malformed-answered/tt3-emulation/%s/%s/status-0000" % (name, reason),
                             "process_command(%s): %s Without Encryption, structurally malformed (%s), was answered with "
                             "the success status 00 00 (%s) instead of an error status or silence"
                             % (bytes(cmd)[:40].hex(), name.capitalize(), reason, bytes(r)[:16].hex()), case)
        elif isinstance(r, (bytes, bytearray)):
            st.c["malformed_answered_error"] += 1

    def run(self, desc, rng):
        R, shard = self.R, desc["shard"]
        lo, hi = desc["ex_first"]
        self.exhaustive = True
        if shard == 0:
            self.check(b"")
        for a in range(lo, hi):
            self.check(bytes([a]))
            for b in range(256):
                self.check(bytes([a, b]))
                if desc["ex_len"] >= 3:
                    for c in range(256):
                        self.check(bytes([a, b, c]))
        # every command code with the right IDm and every body of <= 1 byte, length byte right
        for code in range(lo, hi):
            self.check(t3_cmd(code))
            for a in range(256):
                self.check(t3_cmd(code, bytes([a])))
        for code in (0x04, 0x06, 0x08, 0x0C):
            for a in range(lo, hi):
                for b in range(256):
                    self.check(t3_cmd(code, bytes([a, b])))
        self.exhaustive = False
        R.count("tt3_exhaustive", self.st.ex)
        tpl = t3_templates()
        for k, (name, cmd) in enumerate(tpl):
            self.g.measure(True)
            self.check(cmd)
            self.g.measure(False)
            R.seen("tt3_templates", name)
            for j, m in enumerate(systematic_mutations(cmd, len_pos=0, flips_upto=48)):
                if (k + j) % NSHARDS == shard % NSHARDS:
                    self.check(m)
                    R.count("tt3_systematic")
        for i in range(desc["tt3_rand"]):
            self.check(random_mutation(rng, rng.choice(tpl)[1], len_pos=0))
        # service / block counts against what is really there
        for code in (0x06, 0x08):
            for ns in (0, 1, 2, 3, 15, 16, 255):
                for nb in (0, 1, 2, 15, 16, 255):
                    for have_s in (0, 1, ns):
                        for have_b in (0, 1, nb):
                            body = bytes([ns]) + b"\x0b\x00" * have_s + bytes([nb]) + t3_blocklist([0] * min(have_b, 40))
                            self.check(t3_cmd(code, body[:240]))
                            self.check(t3_cmd(code, (body + bytes(16))[:240]))
                            R.count("tt3_count_games", 2)
        # well formed multi block commands whose j-th block list element is the first one the emulation refuses (block
        # beyond the service's memory, service index not in the service list, write to the read-only service), for every
        # list length and every j: the status flag names the element position
        svc = b"\x09\x00" + b"\x0b\x00"
        for code, nmax in ((0x06, 15), (0x08, 13)):
            for n in range(1, nmax + 1):
                for bad in range(n + 1):                     # bad == n: no element refused
                    for kind in ("beyond", "svc-index", "read-only" if code == 0x08 else "beyond-3byte"):
                        elems = b""
                        for j in range(n):
                            if j != bad:
                                elems += bytes([0x80, (j % 14) + 1])
                            elif kind == "beyond":
                                elems += bytes([0x80, 200])
                            elif kind == "beyond-3byte":
                                elems += bytes([0x00, 0x00, 0x02])
                            elif kind == "svc-index":
                                elems += bytes([0x85, 1])
                            else:
                                elems += bytes([0x81, 1])
                        body = b"\x02" + svc + bytes([n]) + elems + (bytes(16 * n) if code == 0x08 else b"")
                        cmd = t3_cmd(code, body)
                        if len(cmd) <= 255:
                            self.check(cmd)
                            R.count("tt3_refused_element_commands")
                            if bad >= 8:
                                R.count("tt3_refused_element_at_position_8_or_later")
        # structure class: correctly framed Read/Write commands to this tag whose service list / block list / block data
        # is shorter or longer than the counts announce (every combination of counts, element sizes and supplied parts)
        k = 0
        for code in (0x06, 0x08):
            for ns in (1, 2):
                for nb in (0, 1, 2, 3, 8, 12):
                    for three in (False, True):
                        lst = b"".join(t3_blocklist([1 + (j % 12)], three=three, svc_index=j % ns) for j in range(nb))
                        head = bytes([ns]) + (b"\x09\x00" + b"\x0b\x00")[:2 * ns]
                        full = head + bytes([nb]) + lst
                        bodies = []
                        if code == 0x06:
                            for extra in (0, 1, 2, 3, 15, 16, 32):
                                bodies.append(full + bytes(extra))
                        else:
                            for have in sorted(set([0, 1, 8, 15, 16, 17, 16 * nb - 16, 16 * nb - 1, 16 * nb, 16 * nb + 1,
                                                    16 * nb + 16, 16 * nb + 32])):
                                if have >= 0:
                                    bodies.append(full + bytes(have))
                        for cut in range(1, len(full)):             # lists cut at every byte (nothing follows)
                            bodies.append(full[:cut])
                            if code == 0x08:
                                bodies.append(full[:cut] + bytes(16))    # ... or block data follows the short list
                        for body in bodies:
                            k += 1
                            if len(body) > 244:
                                continue
                            cmd = t3_cmd(code, body)
                            if k % NSHARDS == shard % NSHARDS:
                                self.check(cmd)
                                R.count("tt3_structure_class")
        self.st.flush()
        R.bulk(self.st.ex, self.st.ex)
        for key in ("malformed_judged", "write_callback_blocks"):
            R.count("tt3_" + key, self.st.c.get(key, 0))
        self.g.report(R)


# =================================================================================================
# llc.activate: LLCP parameters in the general bytes
# =================================================================================================
def bind(obj, **methods):
    for name, fn in methods.items():
        setattr(obj, name, types.MethodType(fn, obj))
    return obj


def fixed_gb_mac(role, gb):
    import nfc.dep
    if role == "I":
        mac = bind(nfc.dep.Initiator(clf=None), activate=lambda s, target=None, **o: None if gb is None else bytearray(gb),
                   deactivate=lambda s, release=True: None)
    else:
        mac = bind(nfc.dep.Target(clf=None), activate=lambda s, timeout=None, **o: None if gb is None else bytearray(gb),
                   deactivate=lambda s, data=None: None)
    mac.rwt, mac.miu = 0.001, 251
    return mac


class LlcActivate(object):
    def __init__(self, R):
        import nfc.llcp.llc as L
        self.L, self.R = L, R
        self.st = Stats(R, "llc-activate")
        self.exhaustive = False
        self.g = MainGuard.get()

    def check(self, role, gb):
        st = self.st
        st.n += 1
        if self.exhaustive:
            st.ex += 1
        else:
            self.R.case(("llc-activate", role, gb))
        llc = self.L.LogicalLinkController()
        try:
            mac = fixed_gb_mac(role, gb)
        except (AttributeError, TypeError) as e:
            raise HarnessAccess("nfc.dep.Initiator/Target(clf=None) with rwt/miu not constructible: %r" % (e,))
        g = self.g
        g.begin()
        try:
            r = llc.activate(mac)
        except StepBound as e:
            st.c["STEP-BUDGET"] += 1
            step_violation(self.R, "llc-activate", e, {"pos": "llc-activate", "role": role, "gb": gb})
            return
        except Exception as e:
            st.c["UNDOCUMENTED:" + type(e).__name__] += 1
            escape(self.R, "llc-activate", e, {"pos": "llc-activate", "role": role, "gb": gb},
                   "LogicalLinkController.activate() with general bytes %s raised %s (documented: returns bool)"
                   % (None if gb is None else bytes(gb)[:30].hex(), type(e).__name__))
            return
        finally:
            g.end("llc-activate")
        if r is True or r is False:
            st.c["ret:%s" % r] += 1
        else:
            st.c["ret:other"] += 1
            self.R.violation("badreturn/llc-activate/" + type(r).__name__, "activate returned %r" % (r,),
                             {"pos": "llc-activate", "role": role, "gb": gb})

    def run(self, desc, rng):
        R, shard = self.R, desc["shard"]
        lo, hi = desc["ex_first"]
        for role in "IT":
            self.g.measure(True)
            for gb in (None, b"", b"F", b"Ff", b"Ffm", b"Ffm\x01", b"Ffm\x01\x01", GB_GOOD, b"ffm" + GB_GOOD[3:],
                       GB_GOOD[:3] + bytes(44), GB_GOOD + bytes(30)):
                if shard == 0 or gb == GB_GOOD:
                    self.check(role, gb)
            self.g.measure(False)
            for j, m in enumerate(systematic_mutations(GB_GOOD)):
                if j % NSHARDS == shard % NSHARDS:
                    self.check(role, m)
            # magic + VERSION TLV + every 2-byte continuation; magic + every 3-byte body in this shard's slice
            step = 1 if desc["ex_len"] >= 3 else 6
            self.exhaustive = True
            for a in range(lo, hi):
                for b in range((a + (role == "T")) % step, 256, step):
                    self.check(role, b"Ffm\x01\x01\x13" + bytes([a, b]))
                    self.check(role, b"Ffm" + bytes([a, b, 0]))
                    self.check(role, b"Ffm" + bytes([a, b, 1, 0]))
            self.exhaustive = False
            for t in range(0, 14):
                for ln in (0, 1, 2, 3, 40, 255):
                    for have in (0, 1, ln, ln + 1):
                        if (t + ln + have) % NSHARDS == shard % NSHARDS:
                            self.check(role, b"Ffm\x01\x01\x13" + bytes([t, ln]) + bytes(min(have, 42)))
        for i in range(desc["act_rand"]):
            self.check("IT"[i & 1], random_mutation(rng, GB_GOOD))
        self.st.flush()
        R.bulk(self.st.ex, self.st.ex)
        self.g.report(R)



# =================================================================================================
# live NFC-DEP: the real nfc.dep.Initiator / Target over a real ContactlessFrontend on a scripted Device
# =================================================================================================
_CLS = {}


def script_device_class():
    if "dev" in _CLS:
        return _CLS["dev"]
    import nfc.clf
    import nfc.clf.device

    class ScriptDevice(nfc.clf.device.Device):
        """what a contactless driver is to the stack; the other side of the air is `peer(data, timeout)` which returns
        a frame (bytes) or one of 'timeout' | 'crc' | 'broken' | 'none'"""

        def __init__(self, clock, peer, cfg):
            self.clock, self.peer, self.cfg = clock, peer, cfg
            self.calls = 0
            self.bound = cfg.get("bound", 400)
            self.frames = 0
            self._path, self._vendor_name, self._product_name, self._chipset_name = "sim:c07", "vf", "script", "sim"

        def close(self):
            pass

        def mute(self):
            pass

        def sense_tta(self, target):
            if self.cfg.get("sense") == "106A" and target.brty == "106A":
                return nfc.clf.RemoteTarget("106A", sens_res=bytearray(b"\x01\x01"), sdd_res=bytearray(b"\x08\x01\x02\x03"),
                                            sel_res=bytearray(b"\x40"))

        def sense_ttb(self, target):
            return None

        def sense_ttf(self, target):
            if self.cfg.get("sense") in ("212F", "424F") and target.brty == self.cfg["sense"]:
                return nfc.clf.RemoteTarget(target.brty, sensf_res=bytearray(b"\x01\x01\xFE" + bytes(range(6)) + bytes(8) + b"\xFF\xFF"))

        def sense_dep(self, target):
            acm = self.cfg.get("acm")
            if acm == "unsupported":
                raise nfc.clf.UnsupportedTargetError("no active mode")
            if acm is not None and target.brty == "106A":
                return nfc.clf.RemoteTarget(target.brty, atr_res=bytearray(acm), atr_req=target.atr_req)

        def listen_dep(self, target, timeout):
            li = self.cfg.get("listen")
            if not li:
                self.clock.advance(timeout)
                return None
            t = nfc.clf.LocalTarget(li["brty"], atr_req=bytearray(li["atr_req"]), dep_req=bytearray(li["dep_req"]),
                                    atr_res=target.atr_res)
            if li.get("passive", True):
                if li["brty"] == "106A":
                    t.sens_res, t.sdd_res, t.sel_res = target.sens_res, target.sdd_res, target.sel_res
                else:
                    t.sensf_res = target.sensf_res
            return t

        def listen_tta(self, target, timeout):
            self.clock.advance(timeout)

        listen_ttb = listen_tta

        def listen_ttf(self, target, timeout):
            li = self.cfg.get("listen_ttf")
            if not li:
                self.clock.advance(timeout)
                return None
            self.cfg["listen_ttf"] = None       # activated once
            return nfc.clf.LocalTarget("212F", sensf_req=bytearray(b"\x00\xff\xff\x00\x00"), sensf_res=target.sensf_res,
                                       tt3_cmd=bytearray(li))

        def _xfer(self, data, timeout):
            self.calls += 1
            if self.calls > self.bound:
                raise Bound("more than %d frame exchanges" % self.bound)
            self.clock.advance(0.0003)
            if timeout is not None and timeout <= 0:
                if data is not None:
                    self.peer.overheard(data)
                return None     # timeout 0 = send only, nothing is received (udp.py, rcs380.py tg_comm_rf, pn53x.py all do that)
            act = self.peer(None if data is None else bytes(data), timeout)
            if isinstance(act, (bytes, bytearray)):
                self.frames += 1
                return bytearray(act)
            if act == "crc":
                raise nfc.clf.TransmissionError("injected")
            if act == "broken":
                raise nfc.clf.BrokenLinkError("injected")
            if act == "none":
                return None
            self.clock.advance(5.0 if timeout is None else max(timeout, 0))
            raise nfc.clf.TimeoutError("peer is silent")

        def send_cmd_recv_rsp(self, target, data, timeout):
            return self._xfer(data, timeout)

        def send_rsp_recv_cmd(self, target, data, timeout=None):
            return self._xfer(data, timeout)

        def get_max_send_data_size(self, target):
            return 290

        def get_max_recv_data_size(self, target):
            return 290

        def turn_on_led_and_buzzer(self):
            pass

        def turn_off_led_and_buzzer(self):
            pass

    _CLS["dev"] = ScriptDevice
    return ScriptDevice


def apply_how(frame, how, len_pos):
    b = bytearray(frame)
    for h in how:
        k = h[0]
        if k == "trunc":
            del b[h[1] % (len(b) + 1):]
        elif k == "flip" and b:
            b[h[1] % len(b)] ^= 1 << (h[2] & 7)
        elif k == "set" and b:
            b[h[1] % len(b)] = h[2] & 255
        elif k == "del" and b:
            del b[h[1] % len(b)]
        elif k == "app":
            b += bytes(h[1])
        elif k == "ins":
            i = h[1] % (len(b) + 1)
            b[i:i] = bytes(h[2])
        elif k == "len" and len(b) > len_pos:
            b[len_pos] = (b[len_pos] + h[1]) & 255
        elif k == "fix" and len(b) > len_pos:
            b[len_pos] = (len(b) - len_pos) & 255
    return bytes(b)


class DepPeerBase(object):
    """common part of the scripted NFC-DEP peers: script stepping, rendering of hostile operations"""
    mine = None     # first byte of the PDUs this peer sends (D5 target / D4 initiator)

    def __init__(self, script, brty):
        self.script, self.k, self.brty = list(script), 0, brty
        self.trace = []          # per step: [label of what was received, number of systematic mutations of the auto reply]
        self.did = self.nad = None
        self.cur_pni = 0
        self.sent = []
        self.count_mut = False   # dry run: record how many systematic mutations the auto reply of each step has

    def overheard(self, data):
        pass

    def len_pos(self):
        return 1 if self.brty == "106A" else 0

    def __call__(self, data, timeout):
        op = self.script[self.k] if self.k < len(self.script) else {"op": "timeout"}
        self.k += 1
        body = dep_unframe(data, self.brty) if data is not None else None
        self.trace.append([self.label(body, data), 0])
        out = self.render(op, body)
        self.after(body)
        if isinstance(out, (bytes, bytearray)):
            self.sent.append(bytes(out))
        return out

    def after(self, body):
        pass

    def render(self, op, body):
        kind = op["op"]
        if kind in ("timeout", "crc", "broken", "none"):
            self.auto(body)          # keep following the conversation
            return kind
        if kind == "raw":
            self.auto(body)
            return bytes(op["data"])
        if kind == "body":
            self.auto(body)
            return dep_frame(op["data"], self.brty)
        if kind in ("sysmut", "mut"):
            v = self.legal(op.get("base") or {"op": "auto"}, body)
        else:
            v = self.legal(op, body)
        if v is None:
            return "timeout"
        fr = dep_frame(v, self.brty)
        if kind == "sysmut":
            ms = systematic_mutations(fr, len_pos=self.len_pos())
            self.trace[-1][1] = len(ms)
            return ms[op["j"] % len(ms)]
        if kind == "mut":
            return apply_how(fr, op["how"], self.len_pos())
        return fr

    def legal(self, op, body):
        """protocol-conformant (or grammar-level hostile) PDU, unframed"""
        kind = op["op"]
        if kind == "auto":
            v = self.auto(body)
            if v is not None and self.count_mut and self.trace[-1][1] == 0:
                self.trace[-1][1] = len(systematic_mutations(dep_frame(v, self.brty), len_pos=self.len_pos()))
            return v
        self.auto(body)              # parse, follow the conversation; the reply is replaced
        if kind == "dep":
            pni = op["pni"] if op.get("pni") is not None else (self.cur_pni + op.get("pni_off", 0)) & 3
            did = self.did if op.get("did", "mirror") == "mirror" else op["did"]
            nad = self.nad if op.get("nad", "mirror") == "mirror" else op["nad"]
            return dep_pdu(bytes([self.mine, 0x07 if self.mine == 0xD5 else 0x06]), (op["pfb"] & 0xFC) | pni, did, nad,
                           op.get("data", b""))
        if kind == "pdu":            # any other PDU body, e.g. an ATR_RES at a DEP position
            return bytes(op["data"])
        raise ValueError(kind)


def parse_dep(body):
    """(typ, pni, did, nad, data) of a DEP_REQ/DEP_RES body or None"""
    if body is None or len(body) < 3:
        return None
    pfb, i = body[2], 3
    did = nad = None
    if pfb & 0x04:
        if len(body) <= i:
            return None
        did, i = body[i], i + 1
    if pfb & 0x08:
        if len(body) <= i:
            return None
        nad, i = body[i], i + 1
    return pfb & 0xF0, pfb & 3, did, nad, bytes(body[i:])


class DepTargetPeer(DepPeerBase):
    """the harness plays the NFC-DEP *target* against a real nfc.dep.Initiator.
    auto policy: protocol-conformant answers; the answer to the 3rd complete INF request is sent as a chain of three,
    the 4th is preceded by one RTOX request (so that the chaining / RTOX code of the initiator is reached)."""
    mine = 0xD5

    def __init__(self, script, brty, payload_fn=None):
        DepPeerBase.__init__(self, script, brty)
        self.payload_fn = payload_fn
        self.rx = bytearray()
        self.chain = []
        self.n_inf = 0
        self.rtox_for = None
        self.last_dep = None
        self.next_brty = None
        self.max_inf = 60
        self.gb = GB_GOOD

    def label(self, body, data):
        if body is None or len(body) < 2:
            return "?"
        n = {0: "ATR", 4: "PSL", 6: "DEP", 8: "DSL", 10: "RLS"}.get(body[1], "%02x" % body[1])
        if n == "DEP" and len(body) > 2:
            n += ":" + {0x00: "INF", 0x10: "MI", 0x40: "ACK", 0x50: "NAK", 0x80: "ATN", 0x90: "RTOX"}.get(body[2] & 0xF0, "rfu")
        return n

    def after(self, body):
        if self.next_brty:
            self.brty, self.next_brty = self.next_brty, None

    def inf(self, pni, payload):
        """INF answer, chained when longer than max_inf"""
        chunks = [payload[i:i + self.max_inf] for i in range(0, len(payload), self.max_inf)] or [b""]
        self.chain = chunks[1:]
        return dep_pdu(b"\xD5\x07", (PFB_MI if self.chain else PFB_INF) | pni, self.did, self.nad, chunks[0])

    def auto(self, body):
        if body is None or len(body) < 2 or body[0] != 0xD4:
            return None
        c = body[1]
        if c == 0x00:
            return atr_res(did=body[12] if len(body) > 12 else 0, gb=self.gb)
        if c == 0x04 and len(body) >= 5:
            self.next_brty = ("106A", "212F", "424F")[min(2, body[3] >> 3 & 7)]
            return b"\xD5\x05" + body[2:3]
        if c == 0x08:
            return b"\xD5\x09" + body[2:3]
        if c == 0x0A:
            return b"\xD5\x0B" + body[2:3]
        if c != 0x06:
            return None
        p = parse_dep(body)
        if p is None:
            return None
        typ, pni, did, nad, data = p
        self.did, self.nad = did, nad
        out = None
        if typ == PFB_MI:
            self.cur_pni = pni
            self.rx += data
            out = dep_pdu(b"\xD5\x07", PFB_ACK | pni, did, nad)
        elif typ == PFB_INF:
            self.cur_pni = pni
            self.rx += data
            req, self.rx = bytes(self.rx), bytearray()
            self.n_inf += 1
            if self.payload_fn is not None:
                payload = self.payload_fn(req)
                if payload is None:
                    return None
            elif self.n_inf == 3:
                payload = bytes(range(150))
            else:
                payload = b"\x00\x00"
            if self.n_inf == 4 and self.payload_fn is None:
                self.rtox_for = (pni, payload)
                out = dep_pdu(b"\xD5\x07", PFB_RTOX, did, nad, b"\x02")
            else:
                out = self.inf(pni, payload)
        elif typ == PFB_ACK:
            self.cur_pni = pni
            if self.chain:
                chunk = self.chain.pop(0)
                out = dep_pdu(b"\xD5\x07", (PFB_MI if self.chain else PFB_INF) | pni, did, nad, chunk)
            else:
                out = dep_pdu(b"\xD5\x07", PFB_INF | pni, did, nad, b"\x00\x00")
        elif typ == PFB_NAK:
            return self.last_dep
        elif typ == PFB_ATN:
            return dep_pdu(b"\xD5\x07", PFB_ATN, did, nad)
        elif typ == PFB_RTOX:
            if self.rtox_for:
                (pni0, payload), self.rtox_for = self.rtox_for, None
                out = self.inf(pni0, payload)
        if out is not None:
            self.last_dep = out
        return out


class DepInitiatorPeer(DepPeerBase):
    """the harness plays the NFC-DEP *initiator* against a real nfc.dep.Target.  The first DEP_REQ (PNI 0) was handed
    over by listen_dep().  auto policy by completed rounds: 1,2 short INF; 3 a chained request; 4 preceded by ATN;
    5 preceded by NAK; ...; from round `end` on DSL_REQ, then RLS_REQ."""
    mine = 0xD4

    def __init__(self, script, brty, did=None, end=9, payload_fn=None):
        DepPeerBase.__init__(self, script, brty)
        self.payload_fn = payload_fn
        self.dead = False
        self.rx = bytearray()
        self.max_inf = 240
        self.did = did
        self.pni = 0
        self.rounds = 0
        self.out_chain = []
        self.last_req = None
        self.special_done = set()
        self.end = end
        self.closing = 0

    def label(self, body, data):
        if data is None:
            return "silence"
        if body is None or len(body) < 2:
            return "?"
        n = {1: "ATR", 5: "PSL", 7: "DEP", 9: "DSL", 11: "RLS"}.get(body[1], "%02x" % body[1])
        if n == "DEP" and len(body) > 2:
            n += ":" + {0x00: "INF", 0x10: "MI", 0x40: "ACK", 0x50: "NAK", 0x80: "ATN", 0x90: "RTOX"}.get(body[2] & 0xF0, "rfu")
        return n

    def req(self, pfb, data=b""):
        return dep_pdu(b"\xD4\x06", pfb, self.did, self.nad, data)

    def next_round(self):
        self.rounds += 1
        r = self.rounds
        if self.payload_fn is not None:
            payload = None if self.dead else self.payload_fn(bytes(self.rx))
            self.rx = bytearray()
            if payload is None:
                self.dead = True         # the upper layer of the peer fell silent: nothing is sent any more
                return None
            chunks = [payload[i:i + self.max_inf] for i in range(0, len(payload), self.max_inf)] or [b""]
            self.out_chain = chunks[1:]
            return self.req((PFB_MI if self.out_chain else PFB_INF) | self.pni, chunks[0])
        if r >= self.end:
            self.closing += 1
            return (b"\xD4\x08" if self.closing == 1 else b"\xD4\x0A") + (bytes([self.did]) if self.did is not None else b"")
        if r == 3:
            self.out_chain = [bytes(range(40)), bytes(range(40, 80)), b"\x13\x20end"]
            return self.req(PFB_MI | self.pni, self.out_chain.pop(0))
        return self.req(PFB_INF | self.pni, b"\x00\x00" if r % 2 else b"\x13\x20data%d" % r)

    def auto(self, body):
        out = None
        if self.dead:
            return None
        if body is None:                                   # the target keeps silence: speak again
            out = self.last_req if self.last_req is not None and self.closing == 0 else self.next_round()
        elif len(body) >= 2 and body[0] == 0xD5 and body[1] in (0x09, 0x0B):
            out = self.next_round() if self.closing < 2 else None
        elif len(body) >= 2 and body[0] == 0xD5 and body[1] == 0x07:
            p = parse_dep(body)
            if p is None:
                return None
            typ, pni, did, nad, data = p
            self.cur_pni = self.pni
            if typ == PFB_ATN:
                out = self.last_req
            elif typ == PFB_RTOX:
                return self.req(PFB_RTOX, data[:1])
            elif typ == PFB_NAK:
                out = self.last_req
            elif pni == self.pni:
                if typ in (PFB_INF, PFB_MI):
                    self.rx += data
                if self.payload_fn is not None:
                    pass
                elif typ == PFB_INF and self.rounds == 4 and "atn" not in self.special_done:
                    self.special_done.add("atn")           # as if this response had been lost: ATN, then resend
                    del self.rx[len(self.rx) - len(data):]
                    return dep_pdu(b"\xD4\x06", PFB_ATN)
                elif typ == PFB_INF and self.rounds == 5 and "nak" not in self.special_done:
                    self.special_done.add("nak")           # as if this response had been corrupted: NAK
                    del self.rx[len(self.rx) - len(data):]
                    return self.req(PFB_NAK | self.pni)
                self.pni = (self.pni + 1) & 3
                self.cur_pni = self.pni
                if typ == PFB_MI:
                    out = self.req(PFB_ACK | self.pni)
                elif typ == PFB_ACK and self.out_chain:
                    chunk = self.out_chain.pop(0)
                    out = self.req((PFB_MI if self.out_chain else PFB_INF) | self.pni, chunk)
                else:
                    out = self.next_round()
            else:
                out = self.last_req
        elif len(body) >= 2 and body[0] == 0xD5:           # ATR_RES / PSL_RES to a hostile ATR/PSL_REQ of ours
            out = self.next_round()
        if out is not None:
            self.last_req = out
        return out


# hostile operations (grammar level) --------------------------------------------------------------------------------
def hostile_dep_ops(as_target):
    """operations a hostile NFC-DEP peer may put at any position; as_target: the harness is the target (sends D5 xx)"""
    c0 = 0xD5 if as_target else 0xD4
    ops = []
    for pfb in (PFB_INF, PFB_MI, PFB_ACK, PFB_NAK, PFB_ATN, PFB_RTOX, 0x20, 0x30, 0x60, 0x70, 0xA0, 0xB0, 0xC0, 0xE0, 0xF0):
        ops.append({"op": "dep", "pfb": pfb, "data": b""})
        ops.append({"op": "dep", "pfb": pfb, "data": b"\x13\x20xy"})
    for off in (1, 2, 3):
        ops.append({"op": "dep", "pfb": PFB_INF, "pni_off": off, "data": b"\x00\x00"})
        ops.append({"op": "dep", "pfb": PFB_ACK, "pni_off": off})
        ops.append({"op": "dep", "pfb": PFB_MI, "pni_off": off, "data": b"\x01"})
    for v in (0, 1, 59, 60, 63, 64, 255):
        ops.append({"op": "dep", "pfb": PFB_RTOX, "data": bytes([v])})
    ops.append({"op": "dep", "pfb": PFB_RTOX, "data": bytes(3)})
    ops.append({"op": "dep", "pfb": PFB_INF, "did": 9, "data": b"\x00\x00"})
    ops.append({"op": "dep", "pfb": PFB_INF, "did": None, "nad": 3, "data": b"\x00\x00"})
    ops.append({"op": "dep", "pfb": PFB_INF, "did": 0, "nad": 0, "data": b""})
    ops.append({"op": "dep", "pfb": PFB_INF, "data": bytes(251)})
    ops.append({"op": "dep", "pfb": PFB_MI, "data": bytes(251)})
    if as_target:
        bodies = [atr_res(), atr_res()[:3], atr_res()[:16], atr_res(pp=0x32, gb=b""), atr_res(gb=b"Ffm\x02\x02"),
                  b"\xD5\x05", b"\xD5\x05\x00", b"\xD5\x05\x00\x00", b"\xD5\x09", b"\xD5\x09\x01", b"\xD5\x09\x01\x02",
                  b"\xD5\x0B", b"\xD5\x0B\x00", b"\xD5\x0B\x01\x02", b"\xD5\x07", b"\xD5\x07\x04", b"\xD5\x07\x08",
                  b"\xD5\x07\x0C\x01", b"\xD5\x03", b"\xD5", b"\xD4\x06\x00\x00\x00", b"\xD4\x00", b""]
    else:
        bodies = [atr_req(), atr_req()[:3], atr_req()[:15], atr_req(pp=0x32, gb=b""), atr_req(did=7),
                  b"\xD4\x04", b"\xD4\x04\x00", b"\xD4\x04\x00\x12", b"\xD4\x04\x00\x12\x03", b"\xD4\x04\x00\x12\x03\x00",
                  b"\xD4\x08", b"\xD4\x08\x01", b"\xD4\x08\x01\x02", b"\xD4\x0A", b"\xD4\x0A\x00", b"\xD4\x0A\x01\x02",
                  b"\xD4\x06", b"\xD4\x06\x04", b"\xD4\x06\x08", b"\xD4\x06\x0C\x01", b"\xD4\x02", b"\xD4",
                  b"\xD5\x07\x00\x00\x00", b"\xD5\x01", b""]
    for b in bodies:
        ops.append({"op": "body", "data": b})
    for raw in (b"", b"\xF0", b"\xF0\x01", b"\x01", b"\x02" + bytes([c0]), b"\xF0\x02" + bytes([c0]), b"\x00", b"\xFF" * 3,
                bytes([255, c0, 7 - (not as_target)]) + bytes(252), b"\xF0" + bytes([255, c0, 7 - (not as_target)]) + bytes(252),
                bytes([4, c0, 7 - (not as_target), 0]) + bytes(300)):
        ops.append({"op": "raw", "data": raw})
    return ops


DEP_MODES = [
    # (sense mode, brs, did, nad)
    ("acm", 0, None, None), ("acm", 2, 1, None), ("106A", 0, None, None), ("106A", 1, 1, 5), ("106A", 2, None, None),
    ("212F", 1, None, None), ("212F", 2, 3, None), ("acm-fallback", 0, None, None),
]
WORK_I = [["x", 10, 1.0], ["x", 600, 1.0], ["x", 5, 1.0], ["x", 5, 1.0], ["x", 3, 0.5], ["d", True]]
WORK_I_DSL = WORK_I[:-1] + [["d", False]]          # deactivate(release=False): the DSL_RES position instead of RLS_RES
WORK_T = [["a", 1.0], ["x", None, 1.0], ["x", 5, 1.0], ["x", 600, 1.0], ["x", 5, 1.0], ["x", 2, 1.0], ["x", 5, 1.0],
          ["r", 2], ["x", 5, 1.0], ["x", 5, 1.0], ["x", 5, 1.0], ["x", 5, 1.0], ["d", b"\x01\x40"]]


class DepLive(object):
    """positions dep-initiator-* and dep-target-*"""

    def __init__(self, R):
        import nfc.clf
        import nfc.dep
        from vf.core import vclock
        self.nfc, self.R, self.vclock = nfc, R, vclock
        self.Dev = script_device_class()
        self.hi = hostile_dep_ops(True)
        self.ht = hostile_dep_ops(False)
        self.g = MainGuard.get()

    # ---- one case ------------------------------------------------------------------------------------------------
    def call(self, pos, case, fn, doc_none=True):
        """run one call of the stack under the oracle; returns (ok, value)"""
        R = self.R
        key = pos.replace("-", "_")
        g = self.g
        g.begin()
        try:
            v = fn()
        except self.nfc.clf.CommunicationError as e:
            R.count("outcome_%s_%s" % (key, type(e).__name__))
            R.seen("outcomes_" + key, type(e).__name__)
            return False, None
        except StepBound as e:
            R.count("outcome_%s_STEP_BUDGET" % key)
            step_violation(R, pos, e, case)
            return False, None
        except Bound as e:
            R.count("outcome_%s_BOUND" % key)
            R.violation("hang/%s/no-return-within-frame-bound" % pos,
                        "%s did not return although the peer fell silent: %s (virtual clock, logical frame count)" % (pos, e), case)
            return False, None
        except Exception as e:
            R.count("outcome_%s_UNDOCUMENTED:%s" % (key, type(e).__name__))
            escape(R, pos, e, case, "%s raised %s: %s (documented: value or nfc.clf.CommunicationError)"
                   % (pos, type(e).__name__, str(e)[:100]))
            return False, None
        finally:
            g.end("dep-live-call")
        R.count("outcome_%s_%s" % (key, "None" if v is None else "value"))
        R.seen("outcomes_" + key, "None" if v is None else "value")
        return True, v

    def run_initiator(self, case, dry=False):
        nfc, R = self.nfc, self.R
        mode, brs, did, nad = case["mode"]
        clock = self.vclock.patch([nfc.dep, nfc.clf])
        brty0 = "212F" if mode == "212F" else "106A"
        peer = DepTargetPeer(case["script"], brty0)
        peer.count_mut = dry
        cfg = {"bound": len(case["script"]) + 150}
        if mode == "acm":
            cfg["acm"] = case.get("acm_atr_res", atr_res(did=did or 0))
        elif mode == "acm-fallback":
            cfg["acm"], cfg["sense"] = "unsupported", "106A"
        else:
            cfg["sense"] = mode
        dev = self.Dev(clock, peer, cfg)
        clf = nfc.clf.ContactlessFrontend()
        clf.device = dev
        ini = nfc.dep.Initiator(clf)
        opts = {"brs": brs, "gbi": GB_GOOD, "acm": mode.startswith("acm")}
        if did is not None:
            opts["did"] = did
        if nad is not None:
            opts["nad"] = nad
        R.count("n_dep_initiator")
        R.case(("dep-initiator", case["mode"], case["script"], case.get("acm_atr_res")))
        ok, gb = self.call("dep-initiator-activate", case, lambda: ini.activate(None, **opts))
        if ok and gb is not None:
            R.count("dep_initiator_activated")
            for w in case["work"]:
                if w[0] == "x":
                    ok, v = self.call("dep-initiator-exchange", case,
                                      lambda: ini.exchange(bytearray(b"\x13\x20" + bytes(w[1] - 2)), w[2]))
                    if not ok or v is None:
                        break
                    R.count("dep_initiator_exchange_ok")
            rel = [w for w in case["work"] if w[0] == "d"]
            self.call("dep-initiator-deactivate", case, lambda: ini.deactivate(rel[0][1] if rel else True))
        R.max("dep_frames_per_case", dev.frames)
        for lab, _ in peer.trace:
            R.seen("dep_initiator_positions", lab)
            if lab in ("DSL", "RLS"):
                R.count("dep_initiator_%s_res_positions" % lab.lower())
        return peer, dev

    def run_target(self, case, dry=False):
        nfc, R = self.nfc, self.R
        li = case["listen"]
        clock = self.vclock.patch([nfc.dep, nfc.clf])
        peer = DepInitiatorPeer(case["script"], li["brty"], did=li.get("did"))
        peer.count_mut = dry
        cfg = {"bound": len(case["script"]) + 150, "listen": li}
        dev = self.Dev(clock, peer, cfg)
        clf = nfc.clf.ContactlessFrontend()
        clf.device = dev
        tgt = nfc.dep.Target(clf)
        R.count("n_dep_target")
        R.case(("dep-target", li, case["script"]))
        alive = False
        for w in case["work"]:
            if w[0] == "a":
                ok, gb = self.call("dep-target-activate", case, lambda: tgt.activate(timeout=w[1], gbt=GB_GOOD))
                if not (ok and gb is not None):
                    return peer, dev
                alive = True
                R.count("dep_target_activated")
            elif w[0] == "x" and alive:
                data = None if w[1] is None else bytearray(b"\x13\x20" + bytes(w[1] - 2))
                ok, v = self.call("dep-target-exchange", case, lambda: tgt.exchange(data, w[2]))
                if not ok or v is None:
                    alive = False
                else:
                    R.count("dep_target_exchange_ok")
            elif w[0] == "r" and alive:
                ok, v = self.call("dep-target-rtox", case, lambda: tgt.send_timeout_extension(w[1]))
                if not ok:
                    alive = False
            elif w[0] == "d":
                self.call("dep-target-deactivate", case, lambda: tgt.deactivate(bytearray(w[1])))
        R.max("dep_frames_per_case", dev.frames)
        for lab, _ in peer.trace:
            R.seen("dep_target_positions", lab)
        return peer, dev

    # ---- workload ------------------------------------------------------------------------------------------------
    def good_listen(self, brty="106A", did=0, passive=True, pp=0x32):
        d = {"brty": brty, "atr_req": atr_req(did=did, pp=pp), "passive": passive,
             "dep_req": dep_pdu(b"\xD4\x06", PFB_INF | 0, did or None, None, b"\x00\x00")}
        if did:
            d["did"] = did
        return d

    def run(self, desc, rng):
        R, shard = self.R, desc["shard"]
        thorough = desc["ex_len"] >= 3
        n = 0

        thin = 1 if thorough else 3        # quick: every seed looks at a different third of the systematic set
        slot = shard % NSHARDS + NSHARDS * (int(desc.get("seed", 0)) % thin)

        def mine():
            nonlocal n
            n += 1
            return n % (NSHARDS * thin) == slot

        auto = {"op": "auto"}
        # ---------------- harness plays target against the real Initiator
        for mi, mode in enumerate(DEP_MODES):
            base = {"pos": "dep-initiator", "mode": list(mode), "work": WORK_I_DSL if mi % 2 else WORK_I, "script": [auto] * 40}
            self.g.measure(True)
            peer, _ = self.run_initiator(base, dry=True)
            self.g.measure(False)
            steps = [t for t in peer.trace if t[1] != 0]
            R.max("dep_initiator_steps_valid_run", len(steps))
            for p, (lab, nmut) in enumerate(peer.trace):
                if nmut <= 0:
                    continue
                for j in range(nmut):
                    if mine():
                        c = dict(base, script=[auto] * p + [{"op": "sysmut", "j": j}] + [auto] * 30)
                        self.run_initiator(c)
                        R.count("dep_initiator_sysmut")
                for pre in ([], [{"op": "crc"}], [{"op": "timeout"}], [{"op": "crc"}, {"op": "timeout"}]):
                    for h in self.hi:
                        if mine():
                            c = dict(base, script=[auto] * p + pre + [h] + [auto] * 30)
                            self.run_initiator(c)
                            R.count("dep_initiator_hostile_op")
            if mode[0] == "acm":       # active mode: the ATR_RES comes from the driver's sense_dep()
                good = atr_res(did=mode[2] or 0)
                for j, m in enumerate(systematic_mutations(good)):
                    if m[:2] == b"\xD5\x01" and len(m) >= 17 and mine():
                        self.run_initiator(dict(base, acm_atr_res=m))
                        R.count("dep_initiator_acm_atr_res")
        # ---------------- harness plays initiator against the real Target
        for li in (self.good_listen("106A"), self.good_listen("212F"), self.good_listen("424F", did=2, pp=0x22),
                   self.good_listen("106A", passive=False), self.good_listen("212F", did=1)):
            base = {"pos": "dep-target", "listen": li, "work": WORK_T, "script": [auto] * 40}
            self.g.measure(True)
            peer, _ = self.run_target(base, dry=True)
            self.g.measure(False)
            R.max("dep_target_steps_valid_run", len([t for t in peer.trace if t[1] != 0]))
            for p, (lab, nmut) in enumerate(peer.trace):
                if nmut <= 0:
                    continue
                for j in range(nmut):
                    if mine():
                        self.run_target(dict(base, script=[auto] * p + [{"op": "sysmut", "j": j}] + [auto] * 30))
                        R.count("dep_target_sysmut")
                for pre in ([], [{"op": "crc"}], [{"op": "crc"}, {"op": "crc"}]):
                    for h in self.ht:
                        if mine():
                            self.run_target(dict(base, script=[auto] * p + pre + [h] + [auto] * 30))
                            R.count("dep_target_hostile_op")
            # what listen_dep() hands over: ATR_REQ (16..64 bytes, D4 00 ..) and the first DEP_REQ (D4 06 ..)
            for m in systematic_mutations(li["atr_req"], start=2):
                if m[:2] == b"\xD4\x00" and 16 <= len(m) <= 64 and mine():
                    self.run_target(dict(base, listen=dict(li, atr_req=m)))
                    R.count("dep_target_atr_req")
            for first in [li["dep_req"]] + [o["data"] for o in self.ht if o["op"] == "body"]:
                for m in [first] + systematic_mutations(first, start=2):
                    if m[:2] == b"\xD4\x06" and len(m) <= 254 and mine():
                        self.run_target(dict(base, listen=dict(li, dep_req=m)))
                        R.count("dep_target_first_dep_req")
        # ---------------- random walks
        for i in range(desc["dep_live_rand"]):
            script = []
            for _ in range(rng.randrange(4, 30)):
                r = rng.random()
                if r < 0.55:
                    script.append(auto)
                elif r < 0.65:
                    script.append({"op": rng.choice(["crc", "timeout", "crc", "broken"])})
                elif r < 0.8:
                    script.append({"op": "mut", "how": [[rng.choice(["trunc", "flip", "set", "del", "len"]), rng.randrange(64),
                                                        rng.randrange(256)] for _ in range(rng.choice([1, 1, 2]))] +
                                   ([["fix"]] if rng.random() < 0.6 else [])})
                else:
                    script.append(rng.choice(self.hi if i & 1 else self.ht))
            script += [auto] * 10
            if i & 1:
                self.run_initiator({"pos": "dep-initiator", "mode": list(rng.choice(DEP_MODES)),
                                    "work": rng.choice([WORK_I, WORK_I_DSL]), "script": script})
            else:
                li = self.good_listen(rng.choice(["106A", "212F", "424F"]), did=rng.choice([0, 0, 4]),
                                      passive=rng.random() < 0.8, pp=rng.choice([0x02, 0x12, 0x22, 0x32]))
                self.run_target({"pos": "dep-target", "listen": li, "work": WORK_T, "script": script})
            R.count("dep_live_random_walks")
        self.vclock.unpatch([self.nfc.dep, self.nfc.clf])
        self.g.report(R)


# =================================================================================================
# threads: death monitor, bookkeeping, structural hang verdict
# =================================================================================================
THREAD_DEATHS = []          # (thread name, exception) from threading.excepthook
HARNESS_DEATHS = []         # the same for the harness' own threads (named vf-...): machinery problem -> inconclusive
STARTED = []                # every thread started while a case runs
_INSTALLED = {}


def install_thread_monitors():
    if _INSTALLED:
        return
    _INSTALLED["x"] = True
    old_hook = threading.excepthook

    def hook(args):
        if args.exc_type is SystemExit:
            return
        name = args.thread.name if args.thread else "?"
        (HARNESS_DEATHS if name.startswith("vf-") else THREAD_DEATHS).append((name, args.exc_value))
    threading.excepthook = hook
    _INSTALLED["old_hook"] = old_hook
    orig_start = threading.Thread.start

    def start(self):
        STARTED.append(self)
        return orig_start(self)
    threading.Thread.start = start


def drain_thread_deaths(R, pos, case):
    n = 0
    R.count("excepthook_firings", 0)
    while HARNESS_DEATHS:
        name, e = HARNESS_DEATHS.pop(0)
        R.inconc("%s: harness thread %s died: %r %s" % (pos, name, e, exc_text(e)[-300:]))
    while THREAD_DEATHS:
        name, e = THREAD_DEATHS.pop(0)
        n += 1
        R.count("excepthook_firings")
        if isinstance(e, StepBound):
            step_violation(R, pos, e, case)
            continue
        R.violation("thread-died/%s/%s" % (pos, exc_sig(e)),
                    "thread %r of the stack died with an uncaught %s: %s" % (name, type(e).__name__, str(e)[:120]), case)
    return n


def join_all(threads, budget=6.0):
    t0 = real_time.time()
    for t in threads:
        t.join(max(0.0, budget - (real_time.time() - t0)))
    return [t for t in threads if t.is_alive()]


def hang_verdict(threads, samples=3, gap=0.4):
    """structural verdict on threads that did not finish: ('hang', where) when none of them executes any Python
    function over `samples` samples while at least one sits in an *untimed* wait below an nfc frame;
    ('busy', None) otherwise (-> inconclusive)"""
    idents = {t.ident: t for t in threads if t.is_alive()}
    if not idents:
        return "done", None
    counts = collections.Counter()
    mon = getattr(sys, "monitoring", None)
    tool = None
    if mon is not None:
        for tid in (4, 3, 5):
            try:
                mon.use_tool_id(tid, "vf-c07-hang")
                tool = tid
                break
            except ValueError:
                continue
    if tool is not None:
        def on_start(code, offset):
            counts[threading.get_ident()] += 1
        mon.register_callback(tool, mon.events.PY_START, on_start)
        mon.set_events(tool, mon.events.PY_START)
    try:
        progress = False
        stacks = {}
        for _ in range(samples):
            before = {i: counts[i] for i in idents}
            real_time.sleep(gap)
            frames = sys._current_frames()
            for i in idents:
                if counts[i] != before[i]:
                    progress = True
                fr = frames.get(i)
                sig = []
                while fr is not None:
                    sig.append((fr.f_code.co_filename, fr.f_code.co_name, fr.f_lasti))
                    fr = fr.f_back
                if i in stacks and stacks[i] != sig:
                    progress = True
                stacks[i] = sig
    finally:
        if tool is not None:
            mon.set_events(tool, 0)
            mon.register_callback(tool, mon.events.PY_START, None)
            mon.free_tool_id(tool)
    if progress:
        return "busy", None
    frames = sys._current_frames()
    where = None
    for i in idents:
        fr = frames.get(i)
        untimed = False
        chain = []
        while fr is not None:
            fn = fr.f_code.co_filename.replace("\\", "/")
            if fn.endswith("/threading.py") and fr.f_code.co_name == "wait" and fr.f_locals.get("timeout", 0) is None:
                untimed = True
            if untimed and "/nfc/" in fn and not fn.startswith("/verif/"):
                name = "%s:%s" % (fn[fn.rfind("/nfc/") + 1:], fr.f_code.co_name)
                if not chain or chain[-1] != name:
                    chain.append(name)
            fr = fr.f_back
        if chain:                      # innermost nfc function that waits, and the socket-level call it serves
            sock = [c for c in chain if c.startswith("nfc/llcp/socket.py:")]
            outer = sock[0] if sock else chain[-1]
            where = chain[0] + "<" + outer if outer != chain[0] else chain[0]
            break
    if where:
        return "hang", where
    return "busy", None


# =================================================================================================
# LLCP: the real run loop over a scripted MAC; the other side is a grammar-aware hostile peer
# =================================================================================================
def snep_msg(version=0x10, code=0x02, length=None, body=b""):
    return struct.pack(">BBL", version, code, len(body) if length is None else length) + bytes(body)


NDEF_SMALL = b"\xd1\x01\x04T\x02enX"          # one well-formed text record
NDEF_EMPTY = b"\xd0\x00\x00"
# a well-formed handover request (Hr 1.3, collision resolution record, one alternative carrier + its carrier record) and
# the smallest well-formed handover select message
HR_VALID = bytes.fromhex("910214487213910202637212345102076163010477696669005a1704046170706c69636174696f6e2f766e642e"
                         "7766612e77736377696669100e0000")
HS_VALID = bytes.fromhex("d10201487313")
SNEP_CONTINUE = b"\x10\x80\x00\x00\x00\x00"
SNEP_SUCCESS = b"\x10\x81\x00\x00\x00\x00"


def ndef_big(n):
    return b"\xc1\x01" + struct.pack(">L", n + 3) + b"T\x02en" + b"x" * n


def hostile_ndef():
    out = [b"", b"\x00", NDEF_EMPTY, NDEF_SMALL, NDEF_SMALL[:-1], NDEF_SMALL[:3], NDEF_SMALL + NDEF_SMALL,
           b"\xd2\x03\x01a/b\xff", b"\xd1\x01\x01\x89X", b"\xd2\x03\x01a$BX", b"\xd4\x03\x01a:bX", b"\xd3\x01\x01\xffX",
           b"\xd1\x01\xff" + b"T", b"\xc1\x01\xff\xff\xff\xffT", b"\xd9\x00\x00\x00", b"\xd9\x01\x01\x01TXI",
           b"\xb1\x01\x01Ta" + b"\x36\x00\x01b" + b"\x56\x00\x01c", b"\x91\x01\x01Ta",      # chunks, missing ME
           b"\x51\x01\x01Ta", b"\xd6\x00\x00", b"\xd7\x01\x00T", b"\xd5\x00\x01x", b"\xd0\x01\x00T", b"\xd2\x00\x00",
           b"\xd1\x02\x00Hr", b"\xd1\x02\x01Hr\x12", b"\xd1\x02\x05Hr\x12\xd1\x02\x00c",   # handover request, broken inside
           b"\x91\x02\x0aHr\x12\x91\x02\x02cr\x00\x01\x51\x02\x00ac" + b"\x5a\x20\x01\x01application/vnd.bluetooth.ep.oob0\x00",
           b"\xd1\x02\x04Hs\x12\xd0\x00\x00", b"\xd1\x02\x01Hs\x12", b"\xd1\x02\x01Hr\xff", b"\xd1\x02\x00Hc",
           b"\xd1\x01\x02U\x01", b"\xd1\x01\x01U\xff", b"\xd1\x01\x03T\xbfen", b"\xd1\x01\x03T\x85\xff\xfe",
           b"\xd1\x01\x00\xff", b"\xff" * 40,
           bytes(range(256)), ndef_big(300), ndef_big(3000)[:200]]
    return out


def hostile_snep_requests():
    """raw SNEP request messages of a hostile client (each a list of fragments = information fields)"""
    M = snep_msg
    out = []
    for nd in hostile_ndef()[:26]:
        out.append([M(0x10, 0x02, None, nd)])
        out.append([M(0x10, 0x01, None, struct.pack(">L", 1024) + nd)])
    for v in (0x00, 0x0F, 0x11, 0x1F, 0x20, 0x7F, 0xFF):
        out.append([M(v, 0x02, None, NDEF_SMALL)])
    for c in (0x00, 0x03, 0x7E, 0x7F, 0x80, 0x81, 0xC0, 0xFF):
        out.append([M(0x10, c, None, NDEF_SMALL)])
        out.append([M(0x10, c, 0)])
    for n in range(0, 6):
        out.append([M(0x10, 0x02, None, NDEF_SMALL)[:n]])
    for ln in (0, 1, len(NDEF_SMALL) - 1, len(NDEF_SMALL) + 1, 200, 0xFFFF, 0x100000, 0x100001, 0x7FFFFFFF, 0xFFFFFFFF):
        out.append([M(0x10, 0x02, ln, NDEF_SMALL)])
        out.append([M(0x10, 0x01, ln, struct.pack(">L", 0) + NDEF_SMALL)])
    out.append([M(0x10, 0x01, 3, b"\x00\x00\x00")])                               # GET shorter than its acceptable-length field
    out.append([M(0x10, 0x01, None, struct.pack(">L", 0xFFFFFFFF))])
    out.append([M(0x10, 0x01, None, struct.pack(">L", 0) + NDEF_SMALL)])             # acceptable length 0
    big = ndef_big(300)
    full = M(0x10, 0x02, None, big)
    out.append([full[:100], full[100:200], full[200:]])                             # proper fragmentation
    out.append([full[:100], full[100:200]])                                         # last fragment never comes
    out.append([full[:100], M(0x10, 0x7F, 0), full[100:]])                          # Reject in the middle
    out.append([full[:100], M(0x10, 0x00, 0), full[100:]])                          # Continue in the middle
    out.append([full[:100], b"", full[100:]])                                       # empty information field in the middle
    out.append([full[:6], full[6:]])
    out.append([full[:100], full[100:] + b"extra" * 10])                            # more than announced
    out.append([M(0x10, 0x00, 0)])                                                  # Continue / Reject at the wrong time
    out.append([M(0x10, 0x7F, 0)])
    out.append([M(0x10, 0x00, 0), M(0x10, 0x02, None, NDEF_SMALL)])
    out.append([b""])
    return out


def hostile_snep_responses():
    """what a hostile SNEP server answers (list of fragments)"""
    M = snep_msg
    out = [[M(0x10, 0x81, 0)], [M(0x10, 0x81, None, NDEF_SMALL)], [M(0x10, 0x81, None, NDEF_SMALL[:-2])]]
    for c in (0x00, 0x01, 0x02, 0x7F, 0x80, 0xC0, 0xC1, 0xC2, 0xE0, 0xE1, 0xFF):
        out.append([M(0x10, c, 0)])
        out.append([M(0x10, c, None, NDEF_SMALL)])
    for v in (0x00, 0x20, 0xFF):
        out.append([M(v, 0x81, None, NDEF_SMALL)])
    for n in range(0, 6):
        out.append([M(0x10, 0x81, None, NDEF_SMALL)[:n]])
    for ln in (1, len(NDEF_SMALL) - 1, len(NDEF_SMALL) + 1, 500, 1024, 1025, 0xFFFFFFFF):
        out.append([M(0x10, 0x81, ln, NDEF_SMALL)])
    for nd in hostile_ndef()[:30]:
        out.append([M(0x10, 0x81, None, nd)])
    big = M(0x10, 0x81, None, ndef_big(600))
    out.append([big[:128], big[128:256], big[256:]])
    out.append([big[:128], big[128:256]])
    out.append([big[:128], M(0x10, 0x7F, 0)])
    out.append([big[:128], b"", big[128:]])
    out.append([big[:128], big[128:] + bytes(50)])
    out.append([b""])
    out.append([])
    return out


class HostileLLCP(object):
    """the other end of the link, below the LLC of the stack: sees every PDU the stack sends (decoded with the
    independent reader, to follow CONNECTs and sequence numbers) and answers from a script of operations."""

    def __init__(self, script, bound=None):
        self.script, self.k = list(script), 0
        self.calls = 0
        self.bound = bound or (len(script) * 3 + 2500)
        self.pending = []
        self.conns = []
        self.seen = collections.Counter()
        self.consumed = collections.Counter()
        self.await_spent = 0
        self.sleep_left = None
        self.sent_kinds = collections.Counter()
        self.max_nest = 0
        self.lb = None               # LineBudget of the thread that runs the link: the budget counts per link turn
        self.max_lines = 0
        self.notes = collections.Counter()
        self.servers = []            # the started server threads of the stack (their listen threads)
        self.dead_services = []
        self.sent_frames = []        # what the hostile peer really sent (looked at only when a service disappeared)

    # ---- what the stack sent -------------------------------------------------------------------------------------
    def observe(self, data):
        if data is None:
            return
        try:
            d = ref.decode(bytes(data))
            leaves = ref.flatten(d)
        except (ref.Reject, RecursionError):
            self.seen["undecodable"] += 1
            return
        for x in leaves:
            t = x["t"]
            self.seen[t] += 1
            if t == "CONNECT":
                self.pending.append(x)
            elif t == "CC":
                self.conns.append({"cut": x["ssap"], "hp": x["dsap"], "vs": 0, "vr": 0})
            elif t == "I":
                for c in self.conns:
                    if c["cut"] == x["ssap"] and c["hp"] == x["dsap"]:
                        c["vr"] = (c["vr"] + 1) % 16

    def conn(self, op):
        j = op.get("conn", 0)
        if self.conns and j < len(self.conns):
            return self.conns[j]
        if self.conns and op.get("any", True):
            return self.conns[-1]
        return {"cut": op.get("cut", 4), "hp": op.get("hp", 32), "vs": 0, "vr": 0}

    # ---- rendering -----------------------------------------------------------------------------------------------
    def enc(self, op):
        k = op["op"]
        E = ref.encode
        self.sent_kinds[k] += 1
        if k == "raw":
            return bytes(op["data"])
        if k == "symm":
            return b"\x00\x00"
        if k == "pdu":
            return E(op["pdu"])
        if k == "connect":
            sn = op.get("sn")
            return E({"t": "CONNECT", "dsap": op.get("dsap", 4), "ssap": op.get("ssap", 32), "miu": op.get("miu", 128),
                      "rw": op.get("rw", 1), "sn": None if sn is None else bytes(sn)[:255], "explicit": op.get("explicit", False)})
        if k in ("cc", "dm"):
            p = self.pending.pop(0) if self.pending else None
            dsap = p["ssap"] if p else op.get("dsap", 32)
            ssap = op.get("ssap") if op.get("ssap") is not None else (p["dsap"] if p and p["dsap"] != 1 else 40)
            if k == "dm":
                return E({"t": "DM", "dsap": dsap, "ssap": ssap, "reason": op.get("reason", 3)})
            self.conns.append({"cut": dsap, "hp": ssap, "vs": 0, "vr": 0})
            return E({"t": "CC", "dsap": dsap, "ssap": ssap, "miu": op.get("miu", 128), "rw": op.get("rw", 1),
                      "explicit": op.get("explicit", False)})
        if k in ("i", "rr", "rnr", "disc", "dmc", "frmr", "cc2"):
            c = self.conn(op)
            a, b = c["cut"], c["hp"]
            if k == "i":
                ns = (c["vs"] + op.get("ns_off", 0)) % 16
                nr = (c["vr"] + op.get("nr_off", 0)) % 16
                if not op.get("ns_off"):
                    c["vs"] = (c["vs"] + 1) % 16
                return E({"t": "I", "dsap": a, "ssap": b, "ns": ns, "nr": nr, "data": bytes(op.get("data", b""))})
            if k in ("rr", "rnr"):
                return E({"t": k.upper(), "dsap": a, "ssap": b, "nr": (c["vr"] + op.get("nr_off", 0)) % 16})
            if k == "disc":
                return E({"t": "DISC", "dsap": a, "ssap": b})
            if k == "dmc":
                return E({"t": "DM", "dsap": a, "ssap": b, "reason": op.get("reason", 0)})
            if k == "cc2":
                return E({"t": "CC", "dsap": a, "ssap": b, "miu": op.get("miu", 128), "rw": op.get("rw", 1)})
            f = op.get("fields", [8, 12, 0, 0, 0, 0, 0, 0])
            return E({"t": "FRMR", "dsap": a, "ssap": b, "rej_flags": f[0] & 15, "rej_ptype": f[1] & 15, "ns": f[2] & 15,
                      "nr": f[3] & 15, "vs": f[4] & 15, "vr": f[5] & 15, "vsa": f[6] & 15, "vra": f[7] & 15})
        if k == "snl":
            return E({"t": "SNL", "dsap": 1, "ssap": 1, "sdreq": [(x[0] & 255, bytes(x[1])[:254]) for x in op.get("sdreq", [])],
                      "sdres": [(x[0] & 255, x[1] & 255) for x in op.get("sdres", [])]})
        if k == "ui":
            return E({"t": "UI", "dsap": op.get("dsap", 33), "ssap": op.get("ssap", 32), "data": bytes(op.get("data", b""))})
        if k == "agf":
            ms = [self.enc(m) for m in op["members"]]
            return b"\x00\x80" + b"".join(struct.pack(">H", len(m) & 0xFFFF) + m for m in ms)
        if k == "nest":
            self.max_nest = max(self.max_nest, op["depth"])
            inner = self.enc(op["inner"])
            return comb(inner, op["depth"]) if op.get("comb") else nest(inner, op["depth"])
        if k == "mut":
            return apply_how(self.enc(op["inner"]), op["how"], 1 << 30)
        raise ValueError(k)

    # ---- one link turn -------------------------------------------------------------------------------------------
    def next(self, data):
        """-> bytes for the stack, or None = silence"""
        self.calls += 1
        if self.calls > self.bound:
            raise Bound("more than %d link turns" % self.bound)
        lb = self.lb
        if lb is not None and lb.armed:
            n = lb.lines()
            if n > self.max_lines:
                self.max_lines = n
            lb.reset()
        self.observe(data)
        while True:
            if self.k >= len(self.script):
                return None
            op = self.script[self.k]
            k = op["op"]
            if k == "await":      # until the stack has sent one more PDU of that type than earlier awaits consumed
                w = op["what"]
                if self.seen[w] > self.consumed[w] or self.await_spent >= op.get("max", 400):
                    if self.seen[w] > self.consumed[w]:
                        self.consumed[w] += 1
                    else:
                        self.seen["await-expired"] += 1
                    self.await_spent = 0
                    self.k += 1
                    continue
                self.await_spent += 1
                real_time.sleep(0.0004)
                return b"\x00\x00"
            if k == "sleep":
                if self.sleep_left is None:
                    self.sleep_left = op.get("n", 3)
                if self.sleep_left <= 0:
                    self.sleep_left = None
                    self.k += 1
                    continue
                self.sleep_left -= 1
                real_time.sleep(0.0004)
                return b"\x00\x00"
            self.k += 1
            if k == "silence":
                return None
            if k == "check-services":
                # the link loop is asking for the next frame, so the link controller has not terminated: every listen
                # thread that was started must still be there (it only ends when accept() raises)
                self.notes["service_checks"] += 1
                for srv in self.servers:
                    self.notes["service_listen_threads_checked"] += 1
                    if not srv.is_alive() and srv.name not in self.dead_services:
                        self.dead_services.append(srv.name)
                continue
            out = self.enc(op)
            if len(self.sent_frames) < 600:
                self.sent_frames.append(out)
            return out

    CONNECTION_MODE = ("CONNECT", "DISC", "CC", "DM", "FRMR", "I", "RR", "RNR")

    def sent_other_than_connection_mode_to_service_sap(self):
        """did the peer address a PDU that is not a connection-mode PDU (UI, SNL, PAX, reserved types, ...) to the SAP of
        a server of the stack (4 = default SNEP server, 16..31 = services registered by name)?"""
        for f in self.sent_frames:
            try:
                leaves = ref.flatten(ref.decode(bytes(f)))
            except (ref.Reject, RecursionError):
                leaves = []
                if len(f) >= 2:
                    leaves = [{"t": "?", "dsap": f[0] >> 2}]
            for x in leaves:
                d = x.get("dsap")
                if x.get("t") not in self.CONNECTION_MODE and d is not None and (d == 4 or 16 <= d <= 31):
                    return True
        return False


def scripted_llc_mac(role, hp, clock, gb=GB_GOOD, miu=251):
    import nfc.clf
    import nfc.dep

    def exchange(self, data, timeout):
        try:
            r = hp.next(None if data is None else bytes(data))
        except Bound:
            raise
        except Exception as e:
            raise HarnessBug("hostile peer code failed: %r\n%s" % (e, exc_text(e)))
        if r is None:
            clock.advance(timeout or 0.1)
            raise nfc.clf.TimeoutError("peer is silent")
        clock.advance(0.001)
        return bytearray(r)
    if role == "I":
        mac = bind(nfc.dep.Initiator(clf=None), activate=lambda s, target=None, **o: bytearray(gb), exchange=exchange,
                   deactivate=lambda s, release=True: None)
    else:
        mac = bind(nfc.dep.Target(clf=None), activate=lambda s, timeout=None, **o: bytearray(gb), exchange=exchange,
                   deactivate=lambda s, data=None: None)
    mac.rwt, mac.miu = 0.001, miu
    return mac


class LlcRun(object):
    """position llc-run (+ llc-socket-<call> for the calls of blocked client threads, snep-client)"""

    def __init__(self, R):
        import ndef
        import nfc
        import nfc.handover
        import nfc.llcp
        import nfc.llcp.llc as L
        import nfc.snep
        from vf.core import vclock
        self.nfc, self.L, self.R, self.vclock, self.ndef = nfc, L, R, vclock, ndef
        install_thread_monitors()
        self.snep_req = hostile_snep_requests()
        self.snep_rsp = hostile_snep_responses()
        self.ndefs = hostile_ndef()
        outer = self

        class GetServer(nfc.snep.SnepServer):
            def process_get_request(self, records):
                return [outer.ndef.TextRecord("x" * 3000)]
        self.GetServer = GetServer

    # ---- the controller under test ---------------------------------------------------------------------------------
    def client(self, name, fn, outcomes, escapes):
        nfc = self.nfc

        def body():
            try:
                outcomes[name] = ("value", fn())
            except nfc.llcp.Error as e:
                outcomes[name] = ("llcp.Error", e.errno)
            except nfc.snep.SnepError as e:
                outcomes[name] = ("SnepError", e.errno)
            except StepBound as e:
                outcomes[name] = ("STEP-BUDGET", None)
                escapes.append((name, e))
            except self.ndef.DecodeError as e:
                if name.startswith("ho-"):                           # the handover client documents no such outcome
                    outcomes[name] = ("UNDOCUMENTED", "ndef.DecodeError")
                    escapes.append((name, e))
                else:
                    outcomes[name] = ("ndef.DecodeError", str(e)[:40])
            except Exception as e:
                if name == "snep-getrec" and raised_in_ndef(e):      # get_records is documented as
                    outcomes[name] = ("ndef-decoder-" + type(e).__name__, None)   # list(ndef.message_decoder(octets))
                else:
                    outcomes[name] = ("UNDOCUMENTED", type(e).__name__)
                    escapes.append((name, e))
        return threading.Thread(target=body, name="vf-" + name, daemon=True)

    def make_services(self, llc, cfg):
        nfc = self.nfc
        servers = []
        for s in cfg.get("services", []):
            if s == "snep":
                servers.append(nfc.snep.SnepServer(llc))
            elif s == "snep-get":
                servers.append(self.GetServer(llc, "urn:nfc:xsn:vf.test:get"))
            elif s == "handover":
                servers.append(nfc.handover.HandoverServer(llc))
        return servers

    def make_threads(self, llc, cfg, outcomes, escapes):
        nfc, L = self.nfc, self.L
        later = []
        S = nfc.llcp.Socket
        for t in cfg.get("threads", []):
            if t == "ldl":
                so = S(llc, nfc.llcp.LOGICAL_DATA_LINK)
                so.bind(33)

                def f(so=so):
                    n = 0
                    while n < 50:
                        d, a = so.recvfrom()
                        if d is None:
                            break
                        n += 1
                        so.sendto(d[:100], a, nfc.llcp.MSG_DONTWAIT)
                    return n
                later.append(self.client("ldl-recvfrom", f, outcomes, escapes))
            elif t == "raw":
                so = S(llc, L.RAW_ACCESS_POINT)
                so.bind(36)

                def f(so=so):
                    n = 0
                    while n < 50:
                        p = so.recv()
                        if p is None:
                            break
                        n += 1
                    return n
                later.append(self.client("raw-recv", f, outcomes, escapes))
            elif t == "dlc-listen":
                so = S(llc, nfc.llcp.DATA_LINK_CONNECTION)
                so.setsockopt(nfc.llcp.SO_RCVMIU, 300)
                so.setsockopt(nfc.llcp.SO_RCVBUF, 2)
                so.bind(34)
                so.listen(1)

                def f(so=so):
                    n = 0
                    while n < 4:
                        c = so.accept()
                        n += 1
                        while c.poll("recv", 0.05):
                            d = c.recv()
                            if d is None:
                                break
                            if not c.send(d[:100]):
                                break
                        c.close()
                    return n
                later.append(self.client("dlc-accept", f, outcomes, escapes))
            elif t == "dlc-client":
                so = S(llc, nfc.llcp.DATA_LINK_CONNECTION)
                so.setsockopt(nfc.llcp.SO_RCVMIU, 200)
                so.setsockopt(nfc.llcp.SO_RCVBUF, 2)

                def f(so=so):
                    so.connect(35)
                    n = 0
                    so.send(b"hello from the stack")
                    while n < 30:
                        d = so.recv()
                        if d is None:
                            break
                        n += 1
                        if not so.send(d[:so.getsockopt(nfc.llcp.SO_SNDMIU)]):
                            break
                    so.close()
                    return n
                later.append(self.client("dlc-connect", f, outcomes, escapes))
            elif t == "dlc-client-name":
                so = S(llc, nfc.llcp.DATA_LINK_CONNECTION)

                def f(so=so):
                    so.connect("urn:nfc:sn:vf-remote")
                    d = so.recv()
                    so.close()
                    return d
                later.append(self.client("dlc-connect-name", f, outcomes, escapes))
            elif t == "resolve":
                later.append(self.client("resolve", lambda: llc.resolve(b"urn:nfc:sn:vf-remote"), outcomes, escapes))
                later.append(self.client("resolve2", lambda: llc.resolve("urn:nfc:sn:other"), outcomes, escapes))
            elif t in ("snep-put", "snep-get", "snep-getrec"):
                cl = nfc.snep.SnepClient(llc, max_ndef_msg_recv_size=1024)

                def f(cl=cl, t=t):
                    if t == "snep-put":
                        return cl.put_octets(NDEF_SMALL if not cfg.get("bigput") else ndef_big(700), timeout=0.05)
                    if t == "snep-get":
                        return cl.get_octets(NDEF_SMALL, timeout=0.05)
                    return cl.get_records([self.ndef.TextRecord("q")], timeout=0.05)
                later.append(self.client(t, f, outcomes, escapes))
            elif t in ("ho-recvrec", "ho-recvoct", "ho-sendrec"):
                hc = nfc.handover.HandoverClient(llc)

                def f(hc=hc, t=t):
                    hc.connect()
                    try:
                        if t == "ho-sendrec":
                            ok = hc.send_records(list(self.ndef.message_decoder(HR_VALID)))
                        else:
                            ok = hc.send_octets(HR_VALID)
                        if t == "ho-recvoct":
                            r = hc.recv_octets(timeout=0.05)
                            kind = "octets" if isinstance(r, (bytes, bytearray)) else "None" if r is None else "other"
                        else:
                            r = hc.recv_records(timeout=0.05)
                            kind = "records" if isinstance(r, list) else "None" if r is None else "other"
                        if kind == "other":
                            raise AssertionError("HandoverClient returned %r" % (r,))
                        return (bool(ok), kind, len(r) if r is not None else None)
                    finally:
                        hc.close()
                later.append(self.client(t, f, outcomes, escapes))
        return later

    def run_case(self, case):
        """one scenario; cfg['via'] = 'mac' (scripted MAC below the LLC, position llc-run) or 'connect' (the complete
        ContactlessFrontend.connect(llcp=...) over real nfc.dep on a scripted Device, position connect-llcp).
        llc.run() / clf.connect() run in a thread of their own (vf-run): a call that blocks or spins is decided by
        hang_verdict / the line budget instead of ending in the shard's watchdog."""
        R = self.R
        cfg = case["cfg"]
        via = cfg.get("via", "mac")
        pos = "llc-run" if via == "mac" else "connect-llcp"
        hp = HostileLLCP(case["script"])
        del STARTED[:]
        del THREAD_DEATHS[:]
        outcomes, escapes = {}, []
        R.count("n_" + pos.replace("-", "_"))
        R.case((pos, cfg, case["script"]))
        st = {"returned": False, "llc": None, "abort": None}
        self.ncase = getattr(self, "ncase", 0) + 1
        measure = self.ncase % 16 == 1 or (self.ncase % 4 == 0 and any(op.get("op") == "nest" and op.get("depth", 0) >= 400
                                                                       for op in case["script"]))
        hp.lb = RUN_LB

        def core():
            if measure:
                RUN_LB.arm([threading.get_ident()], RUN_LINE_BUDGET)
            try:
                self.run_core(case, hp, pos, st, outcomes, escapes)
            except AbortPart as e:
                st["abort"] = e
            finally:
                if measure:
                    hp.max_lines = max(hp.max_lines, RUN_LB.lines())
        runner = threading.Thread(target=core, name="vf-run", daemon=True)
        runner.start()
        STARTED.remove(runner)
        finished = self.supervise(runner, pos, case)
        if measure:
            RUN_LB.disarm()
            R.max("lines_per_link_turn_" + pos.replace("-", "_"), hp.max_lines)
            R.count("step_budget_measured_run_cases")
            if hp.max_lines * 50 <= RUN_LINE_BUDGET:
                R.count("step_budget_headroom_ok")
            else:
                R.inconc("step budget: %s needs %d lines between two link turns on this tree, the budget of %d lines is "
                         "less than 50 times that" % (pos, hp.max_lines, RUN_LINE_BUDGET))
        for name in hp.dead_services:
            short = {"urn:nfc:sn:snep": "snep", "urn:nfc:sn:handover": "handover"}.get(name, "other")
            cls = ("after-non-connection-mode-pdu-to-service-sap" if hp.sent_other_than_connection_mode_to_service_sap()
                   else "only-connection-mode-pdus-sent-to-service-saps")
            R.violation("service-gone/%s/listen-thread-ended/%s/%s" % (pos, short, cls),
                        "%s: the listen thread of the %s server ended after hostile PDUs although the link controller was "
                        "still running (it asked the peer for the next frame afterwards)" % (pos, name), case)
        returned = st["returned"]
        # an exception injected by the line budget may have by-passed a `with lock:` of the stack (seen with CPython
        # 3.12: raised at a `try:` line the enclosing with-block's __exit__ is skipped), so after a step verdict the
        # link controller of this case is not touched again and its threads are not waited for
        clean = finished and not st.get("step")
        if clean and not returned and via == "mac" and st["llc"] is not None:
            self.cleanup_terminate(st["llc"])
        t_run = real_time.time()
        threads = list(STARTED)
        left = join_all(threads, 6.0) if clean else [t for t in threads if t.is_alive()]
        R.count("threads_started", len(threads))
        R.count("threads_finished", len(threads) - len(left))
        R.max("join_ms", int((real_time.time() - t_run) * 1000))
        if left and returned:
            verdict, where = hang_verdict(left)
            if verdict == "hang":
                R.violation("hang/%s/thread-blocked-after-link-end/%s" % (pos, where),
                            "after hostile input and the end of the link, thread(s) %s sit in an untimed wait at %s with no "
                            "progress over three samples" % ([t.name for t in left], where), case)
            elif verdict == "busy":
                RUN_LB.arm([t.ident for t in left], RUN_LINE_BUDGET)   # a thread that spins in nfc code runs into its budget
                still = join_all(left, 20.0)
                RUN_LB.disarm()
                if still:
                    R.inconc("%s: threads %s still busy after the call returned" % (pos, [t.name for t in still]))
        for name, e in escapes:
            p2 = ("snep-client" if name.startswith("snep") else "handover-client" if name.startswith("ho-") else "llc-socket")
            if isinstance(e, StepBound):
                st["step"] = True
                try:
                    step_violation(R, p2, e, case)
                except AbortPart as e2:
                    st["abort"] = e2
            else:
                escape(R, p2, e, case, "%s in a client thread raised %s: %s" % (name, type(e).__name__, str(e)[:100]))
        for name, (kind, val) in outcomes.items():
            R.count("outcome_%s_%s" % (name.replace("-", "_"), kind))
            if name.startswith("snep"):
                R.count("n_snep_client")
            elif name.startswith("ho-"):
                R.count("n_handover_client")
                R.seen("outcomes_handover_client", kind)
        try:
            drain_thread_deaths(R, pos, case)
        except AbortPart as e2:
            st["abort"] = e2
        for k, v in hp.seen.items():
            R.count("stack_sent_" + k, v)
        for k, v in hp.sent_kinds.items():
            R.count("peer_sent_" + k, v)
        for k, v in hp.notes.items():
            R.count(k, v)
        R.max("agf_depth_in_run_loop", hp.max_nest)
        if st["abort"] is not None and "replay" not in case:
            raise st["abort"]
        return hp

    def cleanup_terminate(self, llc):
        """llc.terminate() for a run loop that ended with an exception; never in the main thread (a lock of the stack
        that was left locked would block the shard)"""
        def body():
            try:
                llc.terminate(reason="harness cleanup")
            except BaseException:
                pass
        t = threading.Thread(target=body, name="vf-cleanup", daemon=True)
        t.start()
        if t in STARTED:
            STARTED.remove(t)
        t.join(3.0)
        if t.is_alive():
            self.R.count("cleanup_terminate_stuck")

    def supervise(self, runner, pos, case):
        """wait for the thread that runs llc.run() / clf.connect(); -> True when it ended.  Wall-clock only decides
        when to look: the verdicts are structural (untimed wait, nobody progresses) or a logical step count"""
        R = self.R
        runner.join(RUN_WALL)
        if not runner.is_alive():
            return True
        R.count("run_thread_slow")
        others = [t for t in STARTED if t.is_alive()]
        verdict, where = hang_verdict([runner] + others)
        if verdict == "hang":
            R.violation("hang/%s/call-blocked/%s" % (pos, where),
                        "%s does not return: its thread and every thread it started sit in waits with no progress over "
                        "three samples, an untimed one at %s" % (pos, where), case)
            return False
        RUN_LB.arm([runner.ident] + [t.ident for t in others], RUN_LINE_BUDGET)
        runner.join(4 * RUN_WALL)
        RUN_LB.disarm()
        if runner.is_alive():
            R.inconc("%s: still running after %d s, neither blocked nor over its step budget" % (pos, 5 * RUN_WALL))
            return False
        return True

    def run_core(self, case, hp, pos, st, outcomes, escapes):
        nfc, L, R = self.nfc, self.L, self.R
        cfg = case["cfg"]
        via = cfg.get("via", "mac")
        box = {"running": False}
        try:
            if via == "mac":
                clock = self.vclock.patch([L])
                llc = L.LogicalLinkController(miu=cfg.get("miu", 2175), lto=cfg.get("lto", 500), agf=cfg.get("agf", True))
                try:
                    mac = scripted_llc_mac(cfg.get("role", "T"), hp, clock, gb=bytes(cfg.get("gb", GB_GOOD)))
                except (AttributeError, TypeError) as e:
                    raise HarnessBug("nfc.dep.Initiator/Target(clf=None) with rwt/miu not constructible: %r" % (e,))
                servers = self.make_services(llc, cfg)
                st["llc"] = llc
                if not llc.activate(mac):
                    R.count("llc_run_not_activated")
                    st["returned"] = True
                    return
                R.count("llc_run_activated")
                for srv in servers:
                    srv.start()
                hp.servers = list(servers)
                for th in self.make_threads(llc, cfg, outcomes, escapes):
                    th.start()
                llc.run()
                st["returned"] = True
                R.count("llc_run_returned")
                R.count("llc_run_returned_mac")
            else:
                clock = self.vclock.patch([L, nfc.dep, nfc.clf])
                role = cfg.get("role", "T")
                gb = bytes(cfg.get("gb", GB_GOOD))

                def payload(req):
                    try:
                        return hp.next(req if req else None)
                    except Bound:
                        raise
                    except Exception as e:
                        raise HarnessBug("hostile peer code failed: %r\n%s" % (e, exc_text(e)))
                if role == "I":      # the stack is initiator, the harness the NFC-DEP target
                    peer = DepTargetPeer([{"op": "auto"}] * 100000, cfg.get("brty", "106A"), payload_fn=payload)
                    peer.max_inf, peer.gb = 240, gb
                    dcfg = {"bound": hp.bound + 500, "sense": cfg.get("brty", "106A")}
                    if cfg.get("acm"):
                        dcfg["acm"] = atr_res(gb=gb)
                else:
                    first = hp.next(None)
                    peer = DepInitiatorPeer([{"op": "auto"}] * 100000, cfg.get("brty", "106A"), payload_fn=payload)
                    dcfg = {"bound": hp.bound + 500,
                            "listen": {"brty": cfg.get("brty", "106A"), "atr_req": atr_req(gb=gb)[:64], "passive": True,
                                       "dep_req": dep_pdu(b"\xD4\x06", PFB_INF, None, None, (first or b"\x00\x00")[:240])}}
                dev = script_device_class()(clock, peer, dcfg)
                clf = nfc.clf.ContactlessFrontend()
                clf.device = dev
                attempts = []
                orig_mute = dev.mute

                def mute():
                    attempts.append(1)
                    return orig_mute()
                dev.mute = mute
                keep = {}

                def on_startup(llc):
                    keep["servers"] = self.make_services(llc, cfg)
                    return llc

                def on_connect(llc):
                    box["running"] = True
                    for srv in keep["servers"]:
                        srv.start()
                    hp.servers = list(keep["servers"])
                    for th in self.make_threads(llc, cfg, outcomes, escapes):
                        th.start()
                    return True

                def on_release(llc):
                    box["running"] = False
                    box["released"] = True
                    return True
                opts = {"role": "initiator" if role == "I" else "target", "miu": cfg.get("miu", 2175), "lto": cfg.get("lto", 500),
                        "agf": cfg.get("agf", True), "on-startup": on_startup, "on-connect": on_connect, "on-release": on_release,
                        "brs": cfg.get("brs", 0), "acm": bool(cfg.get("acm"))}
                r = clf.connect(llcp=opts, terminate=lambda: bool(attempts) and not box["running"])
                st["returned"] = True
                R.count("connect_llcp_result_%s" % ("released" if box.get("released") else repr(r)))
                if box.get("released"):
                    R.count("llc_run_returned")
                    R.count("llc_run_returned_connect")
        except StepBound as e:
            st["step"] = True
            step_violation(R, pos, e, case)
        except Bound as e:
            R.violation("hang/%s/no-return-within-turn-bound" % pos, "%s did not return: %s" % (pos, e), case)
        except HarnessBug as e:
            R.inconc("%s: %s" % (pos, str(e)[:600]))
        except SystemExit as e:
            escape(R, pos, e, case, "%s raised SystemExit although the MAC raised no IOError" % pos)
        except Exception as e:
            p2 = pos if via == "mac" else (pos + ("-run" if box["running"] else "-activate"))
            escape(R, p2, e, case, "%s raised %s: %s (documented: returns normally)" % (p2, type(e).__name__, str(e)[:100]))

    # ---- scripts ---------------------------------------------------------------------------------------------------
    SAPS = [0, 1, 2, 4, 15, 16, 17, 20, 31, 32, 33, 34, 35, 36, 40, 63]

    def random_pdu_op(self, rng):
        sap = lambda: rng.choice(self.SAPS + [rng.randrange(64)])
        names = [b"urn:nfc:sn:snep", b"urn:nfc:sn:handover", b"urn:nfc:xsn:vf.test:get", b"urn:nfc:sn:sdp", b"", b"\x00",
                 b"x" * 255, b"urn:nfc:sn:\xff\xfe", b"urn:nfc:sn:vf-remote", b"URN:NFC:SN:SNEP", bytes(range(200))]
        k = rng.randrange(17)
        if k == 0:
            return {"op": "connect", "dsap": sap(), "ssap": sap(), "miu": rng.choice([128, 129, 248, 2175, 2176, 2303]),
                    "rw": rng.choice([0, 1, 2, 15]), "sn": rng.choice([None, None] + names), "explicit": rng.random() < 0.3}
        if k == 1:
            return {"op": "cc", "miu": rng.choice([128, 130, 2175]), "rw": rng.choice([0, 1, 15]),
                    "ssap": rng.choice([None, None, sap()]), "dsap": sap()}
        if k == 2:
            return {"op": "dm", "reason": rng.choice([0, 1, 2, 3, 0x10, 0x11, 0x20, 0x21, 0xFF]), "dsap": sap()}
        if k == 3:
            return {"op": "i", "conn": rng.randrange(3), "cut": sap(), "hp": sap(), "ns_off": rng.choice([0, 0, 0, 1, 15, 8]),
                    "nr_off": rng.choice([0, 0, 1, 15, 8]), "data": rng.choice([b"", b"x", bytes(128), bytes(129), bytes(300),
                                                                              bytes(2175), bytes(2176)] + self.snep_req[rng.randrange(len(self.snep_req))][:1])}
        if k == 4:
            return {"op": rng.choice(["rr", "rnr"]), "conn": rng.randrange(3), "cut": sap(), "hp": sap(),
                    "nr_off": rng.choice([0, 0, 1, 2, 15, 8])}
        if k == 5:
            return {"op": rng.choice(["disc", "dmc", "cc2"]), "conn": rng.randrange(3), "cut": sap(), "hp": sap(),
                    "reason": rng.randrange(256)}
        if k == 6:
            return {"op": "frmr", "conn": rng.randrange(3), "cut": sap(), "hp": sap(), "fields": [rng.randrange(16) for _ in range(8)]}
        if k == 7:
            return {"op": "snl", "sdreq": [[rng.randrange(256), rng.choice(names)] for _ in range(rng.choice([0, 1, 2, 8]))],
                    "sdres": [[rng.randrange(256), rng.randrange(256)] for _ in range(rng.choice([0, 1, 3, 40]))]}
        if k == 8:
            return {"op": "ui", "dsap": sap(), "ssap": sap(), "data": rng.choice([b"", b"u", bytes(128), bytes(2175), bytes(2176), bytes(2300)])}
        if k == 9:
            return {"op": "pdu", "pdu": {"t": "UNKNOWN", "ptype": rng.choice([11, 15]), "dsap": sap(), "ssap": sap(),
                                         "payload": rng.randbytes(rng.choice([0, 1, 10]))}}
        if k == 10:
            return {"op": "pdu", "pdu": {"t": rng.choice(["PAX", "DPS"]), "dsap": 0, "ssap": 0, "version": (1, 3), "miu": 128,
                                         "wks": 1, "lto": 100, "lsc": 1, "ecpk": bytes(64), "rn": bytes(8)}}
        if k == 11:
            return {"op": "agf", "members": [self.random_pdu_op(rng) for _ in range(rng.choice([0, 1, 2, 5]))]}
        if k == 12:
            return {"op": "nest", "depth": rng.choice([1, 2, 10, 100, 300, 400, 450, 470, 480, 485, 490, 495, 500, 520, 540]),
                    "inner": self.random_pdu_op(rng), "comb": rng.random() < 0.3}
        if k == 13:
            return {"op": "mut", "inner": self.random_pdu_op(rng),
                    "how": [[rng.choice(["trunc", "flip", "set", "del"]), rng.randrange(2, 40), rng.randrange(256)]
                            for _ in range(rng.choice([1, 2]))]}
        if k == 14:
            return {"op": "pdu", "pdu": {"t": rng.choice(["DISC", "SYMM"]), "dsap": rng.choice([0, 0, sap()]), "ssap": rng.choice([0, sap()])}}
        if k == 15:
            # parameter TLVs whose length octet is larger (or smaller) than the fixed size of the parameter, with the
            # announced value octets really present, in every PDU type that carries parameters
            hdr = rng.choice([b"\x00\x40", bytes([sap() << 2 | 1, 0x20]), bytes([sap() << 2 | 1, 0x80 | 4]), b"\x06\x41",
                              bytes([4 << 2 | 1, 0x21]), bytes([32 << 2 | 1, 0x80 | 35])])
            tlvs = b""
            for _ in range(rng.choice([1, 1, 2, 3])):
                t = rng.choice([1, 2, 3, 4, 5, 6, 7, 8, 9, 10, 11, 12])
                fixed = {1: 1, 2: 2, 3: 2, 4: 1, 5: 1, 7: 1, 9: 2}.get(t, 3)
                ln = max(0, fixed + rng.choice([1, 1, 2, -1, 0, 30]))
                tlvs += bytes([t, ln]) + rng.randbytes(ln)
            return {"op": "raw", "data": hdr + tlvs}
        return {"op": "symm"}

    def gen_case(self, rng, i):
        """one scenario: (cfg, script)"""
        symm, nap = {"op": "symm"}, {"op": "sleep", "n": 3}
        role = rng.choice("IT")
        kind = i % 10
        cfg = {"role": role, "miu": rng.choice([128, 248, 2175]), "agf": rng.random() < 0.8}
        r = rng.random()
        if r < 0.25:      # LLCP parameters of the peer: every version the stack may negotiate down to, LSC / OPT values,
            ver = rng.choice([0x10, 0x11, 0x12, 0x13, 0x14, 0x20, 0x0F, 0x00, 0xFF])     # missing and extra parameters
            tlvs = [bytes([1, 1, ver])]
            if rng.random() < 0.8:
                tlvs.append(bytes([2, 2]) + struct.pack(">H", rng.choice([0, 120, 0x7FF, 0x87FF, 0xFFFF])))
            if rng.random() < 0.8:
                tlvs.append(bytes([3, 2]) + struct.pack(">H", rng.choice([0x0001, 0x0013, 0xFFFF, 0x0000])))
            if rng.random() < 0.8:
                tlvs.append(bytes([4, 1, rng.choice([0, 1, 10, 50, 255])]))
            if rng.random() < 0.8:
                tlvs.append(bytes([7, 1, rng.choice([0, 1, 2, 3, 4, 7, 0xFF])]))
            rng.shuffle(tlvs)
            cfg["gb"] = b"Ffm" + b"".join(tlvs)
            cfg["gbkind"] = "parameters"
        elif r < 0.32:    # mutated general bytes in front of a live script (most end the case at activation)
            cfg["gb"] = random_mutation(rng, GB_GOOD)
            cfg["gbkind"] = "mutated"
        script = [symm]
        if kind == 0:       # hostile SNEP client against the default server (and the GET server)
            get = rng.random() < 0.4
            cfg["services"] = ["snep", "snep-get", "handover"]
            if get:
                script += [{"op": "connect", "dsap": 1, "ssap": 33, "miu": rng.choice([128, 1000, 2175]), "rw": rng.choice([1, 2, 15]),
                            "sn": b"urn:nfc:xsn:vf.test:get"}]
            else:
                script += [{"op": "connect", "dsap": 4, "ssap": 32, "miu": rng.choice([128, 2175]), "rw": rng.choice([0, 1, 15])}]
            script += [{"op": "await", "what": "CC"}]
            for _ in range(rng.choice([1, 1, 2, 3])):
                frags = rng.choice(self.snep_req)
                if rng.random() < 0.2:
                    frags = [random_mutation(rng, f) for f in frags]
                for f in frags:
                    script += [{"op": "i", "data": f}, nap]
                if get and rng.random() < 0.7:
                    script += [{"op": "await", "what": "I", "max": 100},
                               {"op": "i", "data": rng.choice([snep_msg(0x10, 0x00, 0), snep_msg(0x10, 0x7F, 0), b"", b"\x10",
                                                              snep_msg(0x20, 0x00, 0), snep_msg(0x10, 0x00, 5, b"abc")])}, nap,
                               {"op": "rr"}, nap, {"op": "rr"}, nap]
                script += [{"op": "rr"}, nap]
        elif kind == 1:     # hostile handover requester
            cfg["services"] = ["handover", "snep"]
            script += [{"op": "connect", "dsap": 1, "ssap": 34, "miu": rng.choice([128, 2175]), "rw": rng.choice([1, 15]),
                        "sn": b"urn:nfc:sn:handover"}, {"op": "await", "what": "CC"}]
            for _ in range(rng.choice([1, 2, 4])):
                nd = rng.choice(self.ndefs)
                if rng.random() < 0.3:
                    nd = random_mutation(rng, nd)
                cut = rng.choice([len(nd), len(nd), 1, 3, max(1, len(nd) // 2)])
                for f in ([nd[:cut], nd[cut:]] if cut < len(nd) else [nd]):
                    script += [{"op": "i", "data": f}, nap]
                script += [{"op": "rr"}, nap]
        elif kind == 2:     # storm of valid-but-unexpected / mutated PDUs at bound and unbound service access points
            cfg["services"] = ["snep", "handover"]
            cfg["threads"] = ["ldl", "raw", "dlc-listen", "dlc-client", "resolve"]
            script += [nap]
            for _ in range(rng.randrange(5, 40)):
                script.append(self.random_pdu_op(rng))
                if rng.random() < 0.2:
                    script.append(nap)
        elif kind == 3:     # the stack's client connects to us
            cfg["threads"] = ["dlc-client"] + (["dlc-client-name"] if rng.random() < 0.5 else [])
            script += [{"op": "await", "what": "CONNECT"}]
            script += [rng.choice([{"op": "cc", "miu": rng.choice([128, 200, 2175]), "rw": rng.choice([0, 1, 2, 15])},
                                   {"op": "cc", "ssap": rng.choice([0, 1, 35, 36]), "rw": 15},
                                   {"op": "dm", "reason": rng.choice([0, 2, 3, 0x10, 0x21, 0xAA])},
                                   {"op": "i", "cut": 32, "hp": 35, "data": b"early"},
                                   {"op": "frmr", "cut": 32, "hp": 35}, {"op": "disc", "cut": 32, "hp": 35},
                                   {"op": "rr", "cut": 32, "hp": 35, "nr_off": 3}])]
            script += [nap]
            for _ in range(rng.randrange(2, 25)):
                r = rng.random()
                if r < 0.4:
                    script.append({"op": "i", "conn": 0, "cut": 32, "hp": 35, "ns_off": rng.choice([0, 0, 0, 0, 1, 15]),
                                   "nr_off": rng.choice([0, 0, 0, 1, 5, 15]), "data": rng.choice([b"", b"ping", bytes(200), bytes(201), bytes(2175)])})
                elif r < 0.6:
                    script.append({"op": rng.choice(["rr", "rnr"]), "conn": 0, "cut": 32, "hp": 35, "nr_off": rng.choice([0, 0, 1, 7, 15])})
                elif r < 0.7:
                    script.append(rng.choice([{"op": "cc2", "cut": 32, "hp": 35}, {"op": "dmc", "cut": 32, "hp": 35, "reason": 1},
                                              {"op": "frmr", "cut": 32, "hp": 35}, {"op": "disc", "cut": 32, "hp": 35}]))
                elif r < 0.8:
                    script.append(self.random_pdu_op(rng))
                else:
                    script.append(nap)
        elif kind == 4:     # service discovery
            cfg["services"] = ["snep", "handover"]
            cfg["threads"] = ["resolve", "dlc-client-name"]
            script += [{"op": "await", "what": "SNL"}]
            for _ in range(rng.randrange(1, 8)):
                script.append({"op": "snl",
                               "sdreq": [[rng.randrange(256), rng.choice([b"urn:nfc:sn:snep", b"urn:nfc:sn:handover", b"", b"a" * 254,
                                                                          b"urn:nfc:sn:sdp", bytes(range(100)), b"urn:nfc:sn:nothere"])]
                                         for _ in range(rng.choice([0, 1, 3, 8, 30]))],
                               "sdres": [[rng.choice([0, 1, 2, 255, rng.randrange(256)]), rng.choice([0, 1, 4, 16, 32, 63, 64, 65, 0x7F, 0xFF])]
                                         for _ in range(rng.choice([0, 1, 2, 60, 250]))]})
                script.append(nap)
            script += [{"op": "await", "what": "CONNECT", "max": 60},
                       rng.choice([{"op": "cc"}, {"op": "dm", "reason": 2}, {"op": "cc", "ssap": 1}, symm]), nap]
        elif kind == 5:     # the real SNEP client of the stack against a hostile server
            t = rng.choice(["snep-put", "snep-get", "snep-getrec"])
            cfg["threads"] = [t]
            cfg["bigput"] = rng.random() < 0.4
            script += [{"op": "await", "what": "CONNECT"},
                       rng.choice([{"op": "cc", "miu": rng.choice([128, 248, 2175]), "rw": rng.choice([1, 1, 2, 15])}] * 5 +
                                  [{"op": "dm", "reason": rng.choice([2, 3, 0x10])}, {"op": "cc", "rw": 0}])]
            script += [{"op": "await", "what": "I", "max": 150}]
            if cfg["bigput"]:
                script += [{"op": "i", "data": rng.choice([snep_msg(0x10, 0x80, 0), snep_msg(0x10, 0x80, 0), snep_msg(0x10, 0xFF, 0), b"",
                                                          snep_msg(0x10, 0x81, 0), b"\x10\x80"])}, nap, {"op": "rr"}, nap, {"op": "rr"}, nap,
                           {"op": "rr"}, nap, {"op": "rr"}, nap]
            frags = rng.choice(self.snep_rsp)
            if rng.random() < 0.15:
                frags = [random_mutation(rng, f) for f in frags]
            for f in frags:
                script += [{"op": "i", "data": f}, nap, nap]
            script += [{"op": "rr"}, nap, {"op": "sleep", "n": 12}]
        elif kind == 6:     # deep aggregates around meaningful PDUs
            cfg["services"] = ["snep"]
            cfg["threads"] = ["ldl", "dlc-listen"]
            script += [{"op": "connect", "dsap": 34, "ssap": 40, "miu": 300, "rw": 2}, {"op": "await", "what": "CC", "max": 100}]
            for _ in range(rng.choice([1, 1, 2])):
                inner = rng.choice([{"op": "i", "cut": 34, "hp": 40, "data": b"deep"}, {"op": "ui", "dsap": 33, "ssap": 32, "data": b"deep"},
                                    {"op": "connect", "dsap": 4, "ssap": 41}, {"op": "snl", "sdreq": [[1, b"urn:nfc:sn:snep"]]},
                                    {"op": "pdu", "pdu": {"t": "DISC", "dsap": 0, "ssap": 0}}, symm])
                script.append({"op": "nest", "depth": rng.choice([1, 3, 50, 200, 300, 350, 400, 440, 460, 470, 475, 480, 485, 488, 490, 492,
                                                                  494, 496, 498, 500, 510, 530, 543]),
                               "inner": inner, "comb": rng.random() < 0.3})
                script.append(nap)
        elif kind == 8:     # the real handover client of the stack against a hostile handover server
            t = rng.choice(["ho-recvrec", "ho-recvrec", "ho-recvoct", "ho-sendrec"])
            cfg["threads"] = [t]
            script += [{"op": "await", "what": "CONNECT"},
                       rng.choice([{"op": "cc", "miu": rng.choice([128, 248, 2175]), "rw": rng.choice([1, 2, 15])}] * 6 +
                                  [{"op": "dm", "reason": rng.choice([2, 3, 0x10])}, {"op": "cc", "rw": 0}])]
            script += [{"op": "await", "what": "I", "max": 150}]
            for _ in range(rng.choice([1, 1, 1, 2])):
                nd = rng.choice(self.ndefs + [HS_VALID, HS_VALID, HR_VALID])
                if rng.random() < 0.3:
                    nd = random_mutation(rng, nd)
                cut = rng.choice([len(nd), len(nd), 1, 2, 3, max(1, len(nd) // 2), max(1, len(nd) - 1)])
                for f in ([nd[:cut], nd[cut:]] if cut < len(nd) else [nd]):
                    script += [{"op": "i", "data": f}, nap, nap]
            script += [{"op": "rr"}, nap, {"op": "sleep", "n": 12}]
        elif kind == 9:     # one header-only PDU of a chosen type at a service access point in a chosen state
            return self.grid_case(rng.randrange(16), rng.choice(self.SAP_STATES), rng)
        else:               # listening echo service of the stack: connects, backlog, connect by odd names
            cfg["services"] = ["snep", "handover"]
            cfg["threads"] = ["dlc-listen", "ldl"]
            for s in range(rng.choice([1, 2, 3, 5])):
                script.append({"op": "connect", "dsap": rng.choice([34, 34, 1, 4, 16, 33, 0]), "ssap": 40 + s, "miu": rng.choice([128, 300, 2175]),
                               "rw": rng.choice([0, 1, 15]), "sn": rng.choice([None, None, b"urn:nfc:sn:snep", b"", b"nope", b"\xff" * 30])})
            script += [{"op": "await", "what": "CC", "max": 100}]
            for _ in range(rng.randrange(2, 20)):
                r = rng.random()
                if r < 0.5:
                    script.append({"op": "i", "conn": rng.randrange(3), "ns_off": rng.choice([0, 0, 0, 1, 15]),
                                   "nr_off": rng.choice([0, 0, 1, 15]), "data": rng.choice([b"", b"echo", bytes(300), bytes(301)])})
                elif r < 0.7:
                    script.append({"op": rng.choice(["rr", "rnr", "disc", "frmr", "dmc"]), "conn": rng.randrange(3), "nr_off": rng.choice([0, 1, 9])})
                elif r < 0.8:
                    script.append({"op": "agf", "members": [{"op": "i", "conn": 0, "data": b"a"}, {"op": "i", "conn": 0, "data": b"b"},
                                                            {"op": "i", "conn": 0, "data": b"c"}]})
                else:
                    script.append(nap)
        script += [nap]
        if cfg.get("services"):
            script += [{"op": "check-services"}, nap]
        script.append(rng.choice([{"op": "silence"}, {"op": "silence"}, {"op": "pdu", "pdu": {"t": "DISC", "dsap": 0, "ssap": 0}},
                                  {"op": "raw", "data": b"\x01"}, {"op": "raw", "data": b""}, {"op": "raw", "data": b"\x00\x40\x01"}]))
        return {"pos": "llc-run", "cfg": cfg, "script": script}

    # the states a service access point of the stack can be in when a PDU arrives, as (name, dsap, ssap)
    SAP_STATES = [("llc", 0, 0), ("sdp", 1, 1), ("unbound", 20, 41), ("snep-listen", 4, 41), ("ldl-bound", 33, 41),
                  ("raw-bound", 36, 41), ("dlc-listen", 34, 41), ("dlc-connected", 34, 40), ("dlc-connecting", 32, 35),
                  ("dlc-connected-other-peer-sap", 34, 42)]

    def grid_case(self, ptype, state, rng=None):
        """a PDU that consists of nothing but its header (every PDU type, also the reserved ones) arrives in the middle
        of a conversation at a service access point in a given state"""
        symm, nap = {"op": "symm"}, {"op": "sleep", "n": 3}
        name, dsap, ssap = state
        hdr = bytes([(dsap << 2) | (ptype >> 2), ((ptype & 3) << 6) | ssap])
        cfg = {"role": "T" if (ptype + dsap) % 2 else "I", "miu": 2175, "agf": True, "services": ["snep", "handover"],
               "threads": ["ldl", "raw", "dlc-listen", "dlc-client"], "grid": [ptype, name]}
        script = [symm, {"op": "connect", "dsap": 34, "ssap": 40, "miu": 300, "rw": 2}, {"op": "await", "what": "CC", "max": 100},
                  {"op": "await", "what": "CONNECT", "max": 100},       # the stack's dlc-client -> SAP 35 stays connecting
                  {"op": "raw", "data": hdr}, nap,
                  {"op": "i", "conn": 0, "cut": 34, "hp": 40, "data": b"after"}, nap,
                  {"op": "raw", "data": b"\x00\x80" + struct.pack(">H", len(hdr)) + hdr + b"\x00\x02\x00\x00"}, nap,
                  {"op": "cc", "miu": 128, "rw": 1}, nap, {"op": "raw", "data": hdr}, nap, {"op": "rr"}, nap,
                  {"op": "check-services"}, nap, {"op": "silence"}]
        return {"pos": "llc-run", "cfg": cfg, "script": script}

    WAIT_POINTS = ["snep-put-continue", "snep-put-response", "snep-get-response", "snep-get-more", "ho-recvrec", "ho-recvoct"]

    def wait_point_case(self, point, n):
        """a client of the stack waits for the peer's answer and gets an information field of n = 0..7 octets (a prefix
        of / one octet more than the answer that would be right there), then the rest or nothing"""
        symm, nap = {"op": "symm"}, {"op": "sleep", "n": 3}
        cfg = {"role": "IT"[n & 1], "miu": 2175, "agf": True, "wait_point": [point, n]}
        script = [symm, {"op": "await", "what": "CONNECT"}, {"op": "cc", "miu": 128, "rw": 2}, {"op": "await", "what": "I", "max": 150}]
        big = snep_msg(0x10, 0x81, None, ndef_big(20))
        if point == "snep-put-continue":
            cfg["threads"], cfg["bigput"] = ["snep-put"], True
            script += [{"op": "i", "data": (SNEP_CONTINUE + b"\x00")[:n]}, nap, {"op": "rr"}, nap, {"op": "rr"}, nap,
                       {"op": "rr"}, nap, {"op": "rr"}, nap, {"op": "i", "data": SNEP_SUCCESS}, nap]
        elif point == "snep-put-response":
            cfg["threads"], cfg["bigput"] = ["snep-put"], False
            script += [{"op": "i", "data": (SNEP_SUCCESS + b"\x00")[:n]}, nap]
        elif point == "snep-get-response":
            cfg["threads"] = ["snep-get" if n & 1 else "snep-getrec"]
            script += [{"op": "i", "data": big[:n]}, nap, nap, {"op": "i", "data": big[n:]}, nap]
        elif point == "snep-get-more":
            cfg["threads"] = ["snep-getrec" if n & 1 else "snep-get"]
            script += [{"op": "i", "data": big[:8]}, nap, {"op": "await", "what": "I", "max": 100},
                       {"op": "i", "data": big[8:8 + n]}, nap, nap, {"op": "i", "data": big[8 + n:]}, nap]
        else:
            cfg["threads"] = [point]
            msg = HS_VALID + b"\x00"
            script += [{"op": "i", "data": msg[:n]}, nap, nap, {"op": "i", "data": HS_VALID[n:]}, nap]
        script += [{"op": "rr"}, nap, {"op": "sleep", "n": 12}, {"op": "silence"}]
        return {"pos": "llc-run", "cfg": cfg, "script": script}

    def run(self, desc, rng):
        shard, R = desc["shard"], self.R
        k = 0
        for point in self.WAIT_POINTS:                 # every wait point x every length: once per run (all shards together)
            for n in range(8):
                k += 1
                if k % NSHARDS == shard % NSHARDS:
                    self.run_case(self.wait_point_case(point, n))
                    R.count("wait_point_cases")
                    R.seen("wait_points", "%s:%d" % (point, n))
        for ptype in range(16):                        # PDU type x SAP state grid of header-only PDUs: likewise
            for state in self.SAP_STATES:
                k += 1
                if k % NSHARDS == shard % NSHARDS and (desc["ex_len"] >= 3 or (k // NSHARDS + int(desc.get("seed", 0))) % 2 == 0):
                    self.run_case(self.grid_case(ptype, state))
                    R.count("grid_header_only_cases")
                    R.seen("grid_header_only", "%d:%s" % (ptype, state[0]))
        for i in range(desc["run_cases"]):
            case = self.gen_case(rng, i + desc["shard"])
            self.run_case(case)
            if case["cfg"].get("gbkind"):
                R.count("llc_run_gb_" + case["cfg"]["gbkind"])
            if i < 1:
                self.R.sample({"llc_run_script": case["script"][:6]})
        self.vclock.unpatch([self.L])


# =================================================================================================
# two real LLCs with their real run loops in threads (vf.sim.llcpair.ThreadedPair)
# =================================================================================================
class Threaded(object):
    """positions llc-run-threaded (real frames mutated in flight), snep-server / handover-server (raw hostile
    messages over a real data link connection), snep-client (real SnepClient against a hostile server socket)"""

    def __init__(self, R):
        import ndef
        import nfc
        import nfc.handover
        import nfc.llcp
        import nfc.snep
        from vf.sim import llcpair
        self.nfc, self.R, self.llcpair, self.ndef = nfc, R, llcpair, ndef
        install_thread_monitors()
        self.snep_req = hostile_snep_requests()
        self.snep_rsp = hostile_snep_responses()
        self.ndefs = hostile_ndef()
        outer = self

        class GetServer(nfc.snep.SnepServer):
            def process_get_request(self, records):
                return [outer.ndef.TextRecord("x" * 3000)]
        self.GetServer = GetServer

    def make_pair(self, case, before_start):
        o = case.get("llc", {})
        return self.llcpair.ThreadedPair(opts_a={"lto": 100, "miu": o.get("miu_a", 2175), "agf": o.get("agf", True)},
                                         opts_b={"lto": 100, "miu": o.get("miu_b", 2175), "agf": o.get("agf", True)},
                                         before_start=before_start)

    def retrying(self, fn, case):
        """the pair runs in real time with a 110 ms link time-out: on a heavily loaded machine a thread may not be
        scheduled in time and the link dies before anything was injected - such a set-up failure is retried"""
        for attempt in range(4):
            if fn(case, attempt == 0, attempt == 3) != "retry":
                return
            self.R.count("threaded_setup_retries")
            real_time.sleep(0.05)

    def diag(self, tp):
        return "(alive A/B %s/%s, link %s/%s, exchanges %d, run_exc %r, gb %s)" % (
            tp.ta.is_alive(), tp.tb.is_alive(), tp.a.link, tp.b.link, tp.pipe.exchanges,
            {k: exc_text(v)[-300:] for k, v in tp.run_exc.items()}, sorted(tp.pipe.gb))

    def start_pair(self, tp, timeout=5.0):
        """like ThreadedPair.start(), but a link that came up and is already gone again (hostile frame early on,
        harness thread not scheduled in between) counts as established"""
        tp.ta.start()
        tp.tb.start()
        t0 = real_time.time()
        while not (tp.a.link.ESTABLISHED and tp.b.link.ESTABLISHED):
            if tp.pipe.exchanges >= 2:
                return True
            if real_time.time() - t0 > timeout or not (tp.ta.is_alive() or tp.tb.is_alive()):
                return False
            real_time.sleep(0.0005)
        return True

    def finish(self, tp, pos, case, extra_threads=()):
        """end the link (orderly by local choice of A, or by disruption), then the verdicts common to all threaded cases"""
        R = self.R
        if case.get("end", "break") == "orderly":
            tp.term_a = True
        else:
            tp.pipe.broken = True
        joined = tp.join(4.0)
        for name, e in tp.run_exc.items():
            escape(R, pos, e, case, "llc.run() of side %s raised %s: %s (documented: returns normally)"
                   % (name, type(e).__name__, str(e)[:100]))
        if joined and not tp.run_exc:
            R.count("llc_run_returned", 2)
            R.count("llc_run_returned_threaded", 2)
        threads = [t for t in STARTED if t not in (tp.ta, tp.tb)]
        left = join_all(threads, 6.0)
        R.count("threads_started", len(threads) + 2)
        R.count("threads_finished", len(threads) + 2 - len(left) - (0 if joined else 1))
        stuck = left + [t for t in (tp.ta, tp.tb) if t.is_alive()]
        if stuck:
            verdict, where = hang_verdict(stuck)
            if verdict == "hang":
                R.violation("hang/%s/thread-blocked/%s" % (pos, where),
                            "threads %s sit in an untimed wait at %s with no progress over three samples"
                            % ([t.name for t in stuck], where), case)
            elif verdict == "busy":
                R.inconc("%s: threads %s still busy after the link was ended" % (pos, [t.name for t in stuck]))
            tp.term_b = True
            tp.pipe.broken = True
        drain_thread_deaths(R, pos, case)

    # ---- real frames mutated in flight -----------------------------------------------------------------------------
    def run_inject(self, case):
        return self.retrying(self._inject, case)

    def _inject(self, case, first, last):
        nfc, R = self.nfc, self.R
        del STARTED[:]
        del THREAD_DEATHS[:]
        if first:
            R.count("n_llc_run_threaded")
            R.case(("llc-run-threaded", case["side"], case["at"], case["how"], case["work"], case.get("count", 1)))
        servers = []

        def before(tp):
            servers.append(nfc.snep.SnepServer(tp.b))
            servers.append(self.GetServer(tp.b, "urn:nfc:xsn:vf.test:get"))
            servers.append(nfc.handover.HandoverServer(tp.b))
        tp = self.make_pair(case, before)
        hit = []

        base = {}

        def inject(n, r):
            if "n" in base and case["at"] <= n - base["n"] < case["at"] + case.get("count", 1):
                hit.append(n)
                how = case["how"]
                if how and how[0][0] == "raw":
                    return bytes(how[0][1])
                if how and how[0][0] == "nest":
                    return nest(r, how[0][1])
                return apply_how(r, how, 1 << 30)
            return r
        if case["side"] == "T":
            tp.pipe.inject_to_t = inject
        else:
            tp.pipe.inject_to_i = inject
        for srv in servers:
            srv.start()
        if not self.start_pair(tp):
            tp.pipe.broken = tp.term_a = tp.term_b = True
            tp.join(2.0)
            if not last:
                return "retry"
            R.inconc("llc-run-threaded: link was not established " + self.diag(tp))
            return
        out = {}

        def work():
            try:
                if case["work"] == "snep-put":
                    out["r"] = ("value", nfc.snep.SnepClient(tp.a).put_octets(ndef_big(case.get("size", 500)), timeout=0.3))
                elif case["work"] == "snep-get":
                    cl = nfc.snep.SnepClient(tp.a, 4000)
                    cl.connect("urn:nfc:xsn:vf.test:get")
                    try:
                        out["r"] = ("value", len(cl.get_octets(NDEF_SMALL, timeout=0.3) or b""))
                    finally:
                        cl.close()
                else:
                    so = nfc.llcp.Socket(tp.a, nfc.llcp.DATA_LINK_CONNECTION)
                    so.connect("urn:nfc:sn:handover")
                    so.send(self.ndefs[22])
                    out["r"] = ("value", so.recv() if so.poll("recv", 0.3) else None)
                    so.close()
            except nfc.llcp.Error as e:
                out["r"] = ("llcp.Error", e.errno)
            except nfc.snep.SnepError as e:
                out["r"] = ("SnepError", e.errno)
            except Exception as e:
                out["r"] = ("UNDOCUMENTED", e)
        th = threading.Thread(target=work, name="vf-work", daemon=True)
        base["n"] = tp.pipe.exchanges
        th.start()
        th.join(1.5)
        kind, val = out.get("r", ("pending", None))
        R.count("outcome_threaded_%s_%s" % (case["work"].replace("-", "_"), kind))
        if kind == "UNDOCUMENTED":
            escape(R, "snep-client" if case["work"].startswith("snep") else "llc-socket-threaded", val, case)
        if hit:
            R.count("threaded_injections_delivered", len(hit))
        self.finish(tp, "llc-run-threaded", case)

    # ---- raw hostile SNEP / handover messages over a real data link connection ---------------------------------------
    def run_server(self, case):
        return self.retrying(self._server, case)

    def _server(self, case, first, last):
        nfc, R = self.nfc, self.R
        del STARTED[:]
        del THREAD_DEATHS[:]
        pos = case["pos"]
        if first:
            R.count("n_" + pos.replace("-", "_"))
            R.case((pos, case["service"], case["frags"], case.get("after")))
        servers = []

        def before(tp):
            servers.append(nfc.snep.SnepServer(tp.b))
            servers.append(self.GetServer(tp.b, "urn:nfc:xsn:vf.test:get"))
            servers.append(nfc.handover.HandoverServer(tp.b))
        tp = self.make_pair(case, before)
        for srv in servers:
            srv.start()
        if not self.start_pair(tp):
            tp.pipe.broken = tp.term_a = tp.term_b = True
            tp.join(2.0)
            if not last:
                return "retry"
            R.inconc(pos + ": link was not established " + self.diag(tp))
            return
        got = []

        def hostile():
            try:
                so = nfc.llcp.Socket(tp.a, nfc.llcp.DATA_LINK_CONNECTION)
                so.setsockopt(nfc.llcp.SO_RCVMIU, case.get("rcvmiu", 2175))
                so.setsockopt(nfc.llcp.SO_RCVBUF, case.get("rw", 2))
                so.connect(case["service"])
                miu = so.getsockopt(nfc.llcp.SO_SNDMIU)
                for f in case["frags"]:
                    f = bytes(f)
                    for off in range(0, max(len(f), 1), miu):
                        if not so.send(f[off:off + miu]):
                            return
                    while so.poll("recv", 0.02):
                        got.append(so.recv())
                n = 0
                while so.poll("recv", 0.06) and n < 8:
                    got.append(so.recv())
                    n += 1
                    if case.get("after") is not None and n == 1:
                        so.send(bytes(case["after"]))
                so.close()
            except nfc.llcp.Error as e:
                got.append(("llcp.Error", e.errno))
        th = threading.Thread(target=hostile, name="vf-hostile-client", daemon=True)
        th.start()
        th.join(5.0)
        R.count("%s_responses_seen" % pos.replace("-", "_"), len([g for g in got if isinstance(g, (bytes, bytearray))]))
        if not th.is_alive():
            self.continuity(tp, pos, case, servers)
        for g in got:
            if isinstance(g, (bytes, bytearray)) and len(g) >= 2 and pos == "snep-server":
                R.seen("snep_server_response_codes", "%02x" % g[1])
        self.finish(tp, pos, case)

    def continuity(self, tp, pos, case, servers):
        """after the hostile fragments the service must still be there: its listen thread lives as long as the link
        controller has not terminated, and a fresh connection with a well-formed request is served.  Verdicts only
        on structural facts (listen thread ended / CONNECT refused with 'no service' although the link controller never
        terminated); a request that merely stays unanswered in real time is counted, not judged."""
        nfc, R = self.nfc, self.R
        key = pos.replace("-", "_")
        service = case["service"]
        srv = servers[{"urn:nfc:sn:snep": 0, "urn:nfc:xsn:vf.test:get": 1, "urn:nfc:sn:handover": 2}[service]]
        out = {}

        def probe():
            try:
                if service == "urn:nfc:sn:handover":
                    hc = nfc.handover.HandoverClient(tp.a)
                    hc.connect()
                    try:
                        hc.send_octets(HR_VALID)
                        r = hc.recv_octets(timeout=1.0)
                    finally:
                        hc.close()
                    out["r"] = "served" if r and bytes(r)[3:5] == b"Hs" else "unserved"
                elif service == "urn:nfc:sn:snep":
                    out["r"] = "served" if nfc.snep.SnepClient(tp.a).put_octets(NDEF_SMALL, timeout=1.0) is True else "unserved"
                else:
                    cl = nfc.snep.SnepClient(tp.a, 4000)
                    cl.connect(service)
                    try:
                        out["r"] = "served" if cl.get_octets(NDEF_SMALL, timeout=1.0) else "unserved"
                    finally:
                        cl.close()
            except nfc.llcp.ConnectRefused as e:
                out["r"] = "refused"
                out["reason"] = getattr(e, "reason", None)
            except (nfc.llcp.Error, nfc.snep.SnepError) as e:
                out["r"] = "error:" + type(e).__name__
            except Exception as e:
                out["r"] = "exception"
                out["e"] = e
        th = threading.Thread(target=probe, name="vf-continuity", daemon=True)
        th.start()
        th.join(4.0)
        r = out.get("r", "pending")
        listen_alive = srv.is_alive()
        terminated = getattr(tp.b, "terminated", None)          # read AFTER the observations it qualifies
        link_up = terminated is False and tp.tb.is_alive() and not tp.pipe.broken
        R.count("continuity_probes")
        R.count("continuity_%s_%s" % (key, r.split(":")[0]))
        if r == "served":
            R.count("continuity_served")
        if terminated is None:
            R.count("continuity_unjudged_no_terminated_attribute")
            return
        if not listen_alive and link_up:
            R.violation("service-gone/%s/listen-thread-ended" % pos,
                        "after the hostile fragments the listen thread of %s is gone although the link controller has not "
                        "terminated (fresh valid request: %s)" % (service, r), case)
        elif r == "refused" and out.get("reason") == 2 and link_up:
            R.violation("service-gone/%s/fresh-connection-refused-no-service" % pos,
                        "after the hostile fragments a fresh CONNECT to %s is answered with DM reason 02 (no service) although "
                        "the link controller has not terminated" % service, case)
        elif r == "exception":
            escape(R, pos + "-continuity", out["e"], case)
        elif r != "served":
            R.count("continuity_not_served_unjudged")

    # ---- the real SNEP client against a hostile server socket --------------------------------------------------------
    def run_client(self, case):
        return self.retrying(self._client, case)

    def _client(self, case, first, last):
        nfc, R = self.nfc, self.R
        del STARTED[:]
        del THREAD_DEATHS[:]
        ho = case["call"].startswith("ho-")
        pos = "handover-client" if ho else "snep-client"
        if first:
            R.count("n_" + pos.replace("-", "_"))
            R.case((pos, case["call"], case["frags"], case.get("first")))
        box = {}

        def before(tp):
            so = nfc.llcp.Socket(tp.b, nfc.llcp.DATA_LINK_CONNECTION)
            so.setsockopt(nfc.llcp.SO_RCVMIU, 2175)
            so.setsockopt(nfc.llcp.SO_RCVBUF, 4)
            so.bind("urn:nfc:sn:handover" if ho else "urn:nfc:sn:snep")
            so.listen(1)
            box["srv"] = so
        tp = self.make_pair(case, before)

        def hostile_server():
            try:
                c = box["srv"].accept()
                if not c.poll("recv", 1.0):
                    return
                req = c.recv()
                if case.get("first") is not None:         # answer to the first fragment of a fragmented request
                    c.send(bytes(case["first"]))
                    while c.poll("recv", 0.05):
                        req += c.recv() or b""
                miu = c.getsockopt(nfc.llcp.SO_SNDMIU)
                for f in case["frags"]:
                    f = bytes(f)
                    for off in range(0, max(len(f), 1), miu):
                        if not c.send(f[off:off + miu]):
                            return
                    c.poll("recv", 0.03)
                while c.poll("recv", 0.1):
                    if c.recv() is None:
                        break
                c.close()
            except nfc.llcp.Error:
                pass
        hs = threading.Thread(target=hostile_server, name="vf-hostile-server", daemon=True)
        hs.start()
        if not self.start_pair(tp):
            tp.pipe.broken = tp.term_a = tp.term_b = True
            tp.join(2.0)
            if not last:
                return "retry"
            R.inconc(pos + ": link was not established " + self.diag(tp))
            return
        out = {}

        def work_ho():
            hc = nfc.handover.HandoverClient(tp.a)
            try:
                hc.connect()
                try:
                    if case["call"] == "ho-sendrec":
                        hc.send_records(list(self.ndef.message_decoder(HR_VALID)))
                    else:
                        hc.send_octets(HR_VALID)
                    if case["call"] == "ho-recvoct":
                        r = hc.recv_octets(timeout=0.15)
                        ok = r is None or isinstance(r, (bytes, bytearray))
                    else:
                        r = hc.recv_records(timeout=0.15)
                        ok = r is None or isinstance(r, list)
                    out["r"] = ("value" if ok else "UNDOCUMENTED", r if ok else AssertionError("returned %r" % (r,)))
                finally:
                    hc.close()
            except nfc.llcp.Error as e:
                out["r"] = ("llcp.Error", e.errno)
            except Exception as e:             # the handover client documents a record list / octets / nfc.llcp.Error
                out["r"] = ("UNDOCUMENTED", e)

        def work():
            cl = nfc.snep.SnepClient(tp.a, max_ndef_msg_recv_size=1024)
            try:
                if case["call"] == "put":
                    out["r"] = ("value", cl.put_octets(ndef_big(case.get("size", 10)), timeout=0.15))
                elif case["call"] == "get":
                    out["r"] = ("value", cl.get_octets(NDEF_SMALL, timeout=0.15))
                else:
                    out["r"] = ("value", cl.get_records([self.ndef.TextRecord("q")], timeout=0.15))
            except nfc.llcp.Error as e:
                out["r"] = ("llcp.Error", e.errno)
            except nfc.snep.SnepError as e:
                out["r"] = ("SnepError", e.errno)
            except self.ndef.DecodeError as e:
                out["r"] = ("ndef.DecodeError" if case["call"] == "getrec" else "UNDOCUMENTED", e)
            except Exception as e:
                if case["call"] == "getrec" and raised_in_ndef(e):   # documented as list(ndef.message_decoder(octets))
                    out["r"] = ("ndef-decoder-" + type(e).__name__, e)
                else:
                    out["r"] = ("UNDOCUMENTED", e)
        th = threading.Thread(target=work_ho if ho else work, name="vf-" + pos, daemon=True)
        th.start()
        th.join(5.0)
        kind, val = out.get("r", ("pending", None))
        R.count("outcome_%s_%s_%s" % (pos.replace("-", "_"), case["call"].replace("-", "_"), kind))
        R.seen("outcomes_" + pos.replace("-", "_"), kind)
        if kind == "UNDOCUMENTED":
            escape(R, pos, val, case, "%s %s raised %s: %s (documented: result, %snfc.llcp.Error)"
                   % (pos, case["call"], type(val).__name__, str(val)[:100], "" if ho else "SnepError or "))
        self.finish(tp, pos, case)      # a call still pending is judged after the link has ended

    # ---- workload --------------------------------------------------------------------------------------------------
    def run(self, desc, rng):
        self.R.count("excepthook_firings", 0)
        for i in range(desc["thr_cases"]):
            how = rng.choice([[["trunc", rng.randrange(0, 12)]], [["flip", rng.randrange(0, 8), rng.randrange(8)]],
                              [["set", rng.randrange(0, 6), rng.randrange(256)]], [["del", rng.randrange(0, 6)]],
                              [["app", rng.randbytes(rng.randrange(1, 4))]], [["raw", rng.choice([b"", b"\x00", b"\x00\x80\x00", b"\x01\x40",
                                                                                                 b"\x02\x40\x01\x00", bytes(3000)])]],
                              [["nest", rng.choice([1, 100, 480, 490, 500, 540])]],
                              [["flip", rng.randrange(0, 40), rng.randrange(8)], ["flip", rng.randrange(0, 40), rng.randrange(8)]]])
            self.run_inject({"pos": "llc-run-threaded", "side": rng.choice("TI"), "at": rng.randrange(0, 12),
                             "end": rng.choice(["orderly", "break", "break", "break"]),
                             "count": rng.choice([1, 1, 2, 5]), "how": how,
                             "work": rng.choice(["snep-put", "snep-put", "snep-get", "handover"]), "size": rng.choice([10, 500, 3000])})
        for i in range(desc["snep_cases"]):
            k = (i + desc["shard"]) % 4
            if k in (0, 1):
                get = rng.random() < 0.35
                frags = rng.choice(self.snep_req)
                if rng.random() < 0.15:
                    frags = [random_mutation(rng, f) for f in frags]
                self.run_server({"pos": "snep-server", "service": "urn:nfc:xsn:vf.test:get" if get else "urn:nfc:sn:snep",
                                 "frags": frags, "rcvmiu": rng.choice([128, 2175]), "rw": rng.choice([1, 2, 15]),
                                 "end": rng.choice(["orderly", "break", "break", "break"]),
                                 "after": rng.choice([None, snep_msg(0x10, 0x00, 0), snep_msg(0x10, 0x7F, 0), b"", b"\x10\x00", snep_msg(0x20, 0x00, 0)])})
            elif k == 2:
                nd = rng.choice(self.ndefs + [HR_VALID] * 12)
                if rng.random() < 0.3:
                    nd = random_mutation(rng, nd)
                cut = rng.choice([len(nd), len(nd), 1, 3, max(1, len(nd) // 2)])
                frags = [nd[:cut], nd[cut:]] if cut < len(nd) else [nd]
                if rng.random() < 0.3:
                    frags = frags + [rng.choice(self.ndefs)]
                self.run_server({"pos": "handover-server", "service": "urn:nfc:sn:handover", "frags": frags,
                                 "rcvmiu": rng.choice([128, 2175]), "rw": rng.choice([1, 2, 15]), "after": None})
            elif (i // 4) % 3 == 2:      # the real handover client against a hostile handover server socket
                call = rng.choice(["ho-recvrec", "ho-recvrec", "ho-recvoct", "ho-sendrec"])
                nd = rng.choice(self.ndefs + [HS_VALID] * 4)
                if rng.random() < 0.3:
                    nd = random_mutation(rng, nd)
                cut = rng.choice([len(nd), len(nd), 1, 2, 3, max(1, len(nd) // 2), max(1, len(nd) - 1)])
                frags = [nd[:cut], nd[cut:]] if cut < len(nd) else [nd]
                self.run_client({"pos": "handover-client", "call": call, "frags": frags, "first": None})
            else:
                call = rng.choice(["put", "put", "get", "getrec"])
                size = rng.choice([10, 10, 700])
                frags = rng.choice(self.snep_rsp)
                if rng.random() < 0.15:
                    frags = [random_mutation(rng, f) for f in frags]
                first = None
                if call == "put" and size > 128:     # the answer to the first fragment: every length 0..7 and other codes
                    first = rng.choice([(SNEP_CONTINUE + b"\x00")[:n] for n in range(8)] + [SNEP_CONTINUE] * 3 +
                                       [snep_msg(0x10, 0xFF, 0), SNEP_SUCCESS, snep_msg(0x20, 0x80, 0)])
                self.run_client({"pos": "snep-client", "call": call, "size": size, "frags": frags, "first": first,
                                 "llc": {"miu_b": 128 if size > 128 else 2175}})


# =================================================================================================
# the complete ContactlessFrontend.connect() loops on a scripted Device
# =================================================================================================
class Connects(object):
    """positions connect-card (hostile reader commands into the card emulation loop) and connect-llcp (byte-level
    hostile NFC-DEP peer under the complete peer-to-peer stack)"""

    def __init__(self, R):
        import nfc
        import nfc.clf
        from vf.core import vclock
        self.nfc, self.R, self.vclock = nfc, R, vclock
        self.lr = LlcRun(R)
        self.Dev = script_device_class()
        self.tpl = t3_templates()

    def run_card(self, case):
        nfc, R = self.nfc, self.R
        clock = self.vclock.patch([nfc.clf])
        script = list(case["script"])
        state = {"k": 0}

        def peer(data, timeout):
            k = state["k"]
            state["k"] += 1
            if k >= len(script):
                return "broken"
            op = script[k]
            return bytes(op["data"]) if op["op"] == "raw" else op["op"]
        peer.overheard = lambda data: None
        dev = self.Dev(clock, peer, {"listen_ttf": bytes(case["first"])[1:], "bound": len(script) + 60})
        clf = nfc.clf.ContactlessFrontend()
        clf.device = dev
        seen = {}

        def on_startup(target):
            target.brty = "212F"
            target.sensf_res = bytearray(b"\x01" + T3_IDM + T3_PMM + T3_SYS)
            return target

        def on_connect(tag):
            seen["wlog"] = add_t3_services(tag)
            seen["tag"] = tag
            return True

        def on_release(tag):
            seen["released"] = True
            return True
        R.count("n_connect_card")
        R.case(("connect-card", case["first"], case["script"]))
        g = MainGuard.get()
        self.ncard = getattr(self, "ncard", 0) + 1
        g.measure(self.ncard % 16 == 1)
        g.begin()
        try:
            r = clf.connect(card={"on-startup": on_startup, "on-connect": on_connect, "on-release": on_release},
                            terminate=lambda: dev.calls > len(script) + 20)
            R.count("connect_card_result_%s" % ("released" if seen.get("released") else repr(r)))
        except StepBound as e:
            step_violation(R, "connect-card", e, case)
        except Bound as e:
            R.violation("hang/connect-card/no-return-within-frame-bound", "connect(card=) did not return: %s" % e, case)
        except Exception as e:
            escape(R, "connect-card", e, case, "ContactlessFrontend.connect(card=...) raised %s: %s (documented: returns "
                   "normally)" % (type(e).__name__, str(e)[:80]))
        finally:
            g.end("connect-card")
            g.measure(False)
        R.count("connect_card_commands", dev.frames)
        calls = seen.get("wlog") or []
        R.count("connect_card_write_callback_blocks", len(calls))
        if any(n != 16 for _, n in calls):
            R.violation("malformed-processed/connect-card/write/callback-block-data-not-16-bytes",
                        "connect(card=): a Write Without Encryption command of the reader was executed with block data of "
                        "%s bytes handed to the service's write callback" % sorted(set(n for _, n in calls if n != 16)), case)

    def run(self, desc, rng):
        shard = desc["shard"]
        nfc = self.nfc
        # ---- card emulation
        tpl = self.tpl
        good_first = t3_cmd(0x04)
        n = 0
        for k, (name, cmd) in enumerate(tpl):
            ms = systematic_mutations(cmd, len_pos=0, flips_upto=30)
            for j in range(shard % NSHARDS, len(ms), NSHARDS * (1 if desc["ex_len"] >= 3 else 6)):
                m = ms[j]
                # as first command (drivers hand over only well-framed commands carrying our IDm) and as a later one
                if len(m) >= 10 and m[0] == len(m) and m[2:10] == T3_IDM:
                    self.run_card({"pos": "connect-card", "first": m, "script": [{"op": "raw", "data": good_first}]})
                self.run_card({"pos": "connect-card", "first": good_first,
                               "script": [{"op": "raw", "data": tpl[5][1]}, {"op": "raw", "data": m}, {"op": "raw", "data": tpl[3][1]}]})
                n += 1
        for i in range(desc["card_cases"]):
            script = []
            for _ in range(rng.randrange(1, 12)):
                r = rng.random()
                if r < 0.5:
                    script.append({"op": "raw", "data": rng.choice(tpl)[1]})
                elif r < 0.85:
                    script.append({"op": "raw", "data": random_mutation(rng, rng.choice(tpl)[1], len_pos=0)})
                elif r < 0.9:
                    script.append({"op": "raw", "data": rng.choice([b"", b"\x00", b"\x01", b"\x02\x06", bytes([255]) + bytes(254)])})
                else:
                    script.append({"op": rng.choice(["crc", "timeout"])})
            first = rng.choice(tpl)[1]
            if not (len(first) >= 10 and first[2:10] == T3_IDM):
                first = good_first
            self.run_card({"pos": "connect-card", "first": first, "script": script})
        self.vclock.unpatch([nfc.clf])
        MainGuard.get().report(self.R)
        # ---- peer to peer
        gbs = systematic_mutations(GB_GOOD)
        for i in range(desc["llcpconn_cases"]):
            case = self.lr.gen_case(rng, i + shard)
            if i % 10 == 2:
                case["cfg"].pop("threads", None)
            case["pos"] = "connect-llcp"
            case["cfg"].update(via="connect", brty=rng.choice(["106A", "212F", "424F"]), brs=rng.choice([0, 1, 2]))
            if case["cfg"]["role"] == "I" and case["cfg"]["brty"] == "106A" and rng.random() < 0.3:
                case["cfg"]["acm"] = True
            if i % 5 == 4:
                case["cfg"]["gb"] = gbs[(i * NSHARDS + shard) % len(gbs)]
                case["script"] = case["script"][:3] + case["script"][-1:]
            self.lr.run_case(case)
        self.vclock.unpatch([self.lr.L, nfc.dep, nfc.clf])


# =================================================================================================
def run(desc, R, rng):
    parts = desc.get("parts") or list(PARTS)
    for part in parts:
        t1 = real_time.time()
        try:
            PARTS[part](desc, R, rng)
        except HarnessAccess as e:
            R.inconc("part %s: %s" % (part, e))
        except AbortPart:
            MainGuard.get().measure(False)
        R.max("wall_ms_" + part.replace("-", "_"), int((real_time.time() - t1) * 1000))
    R.exhaustive = False


PARTS = collections.OrderedDict([
    ("dep-frame", lambda d, R, rng: DepFrames(R).run(d, rng)),
    ("llcp-decode", lambda d, R, rng: LlcpDecode(R).run(d, rng)),
    ("tt3", lambda d, R, rng: T3Emu(R).run(d, rng)),
    ("llc-activate", lambda d, R, rng: LlcActivate(R).run(d, rng)),
    ("dep-live", lambda d, R, rng: DepLive(R).run(d, rng)),
    ("llc-run", lambda d, R, rng: LlcRun(R).run(d, rng)),
    ("threaded", lambda d, R, rng: Threaded(R).run(d, rng)),
    ("connects", lambda d, R, rng: Connects(R).run(d, rng)),
])


def replay(case, R):
    try:
        replay_case(case, R)
    except AbortPart:
        pass


def replay_case(case, R):
    pos = case["pos"]
    if pos == "dep-frame":
        DepFrames(R).check(case["role"], case["brty"], case["frame"])
    elif pos == "llcp-decode":
        LlcpDecode(R).check(case["data"], want_depth=True)
    elif pos == "tt3-emulation":
        T3Emu(R).check(case["cmd"])
    elif pos == "llc-activate":
        LlcActivate(R).check(case["role"], case["gb"])
    elif pos == "dep-initiator":
        DepLive(R).run_initiator(case)
    elif pos == "dep-target":
        DepLive(R).run_target(case)
    elif pos in ("llc-run", "connect-llcp"):
        LlcRun(R).run_case(case)
    elif pos == "connect-card":
        Connects(R).run_card(case)
    elif pos == "llc-run-threaded":
        Threaded(R).run_inject(case)
    elif pos in ("snep-server", "handover-server"):
        Threaded(R).run_server(case)
    elif pos in ("snep-client", "handover-client"):
        Threaded(R).run_client(case)
