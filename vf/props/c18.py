"""C18 - ContactlessFrontend.connect() and sense() honour their documented contract.

Everything runs the real nfc.clf.ContactlessFrontend (connect/sense/listen/exchange), the real nfc.tag.activate(),
nfc.dep and nfc.llcp.llc over vf.sim.world.WorldDevice (a simulated world: tags, NFC-DEP peers, readers) on a
virtual clock.  Kinds of cases:

  connect   option dictionaries x environment x time at which terminate() turns true.  Monitors:
            - activation ground truth that does not depend on the user callbacks: the results of the three
              activation functions connect() relies on (nfc.tag.activate, LogicalLinkController.activate,
              nfc.tag.emulate) are recorded (watch_activations), and the world tells which entity answered a
              discovery.  An activation that succeeded is followed by on-connect (default on-connect: it is open
              from then on), on-connect is called only for an activation that has just succeeded and gets its
              object, a true on-discover is followed by the activation function, an activation is reported only
              when a counterpart of the right kind answered since the previous one
            - trace automaton over the recorded callback log:
                 on-startup (once per option given, before any driver call and any other callback)
                 then activations:  on-discover -> on-connect -> [on-release iff on-connect returned true]
              on-release count == count of true on-connect results, nothing after the final callback, no new
              discovery while an activation awaits on-release
            - return value table built from the "Return Value" section and the option descriptions of the
              connect() docstring (sentences quoted at the clauses below); True only after an activation
            - promptness after terminate() returned true, counted in frontend discovery calls and virtual seconds
              (never wall time): (c) at most one residual cycle (<= one further rdwr sense / dep listen / card
              listen); when terminate() was polled true while no activation was open, no further discovery and no
              callback at all; when it was polled true inside an open activation, that activation ends (on-release)
              within PROMPT_VSEC virtual seconds - also against a peer that keeps the NFC-DEP link busy and never
              releases it; terminate() is "true from its j-th call on", "true from virtual time T on", true once
              and false again, returns truth values that are not bool, or is not given at all (then the world ends
              the run) - a connect() that stops asking is caught by the driver-call bound
            - default on-discover of rdwr without an llcp option activates every tag (docstring sentence)
            - no data exchange between on-release and the next discovery; beep-on-connect on/off per activation;
              every data exchange inside connect() carries the target of the latest discovery
  sustained connect() calls that go through 2..6 and more activations (tags that leave and come back, peers and
            readers that can be activated several times, a tag and a peer taking turns, callback results that change
            from call to call, terminate index up to 40): state leaking from one activation into the next
  stubborn  terminate() turning true while the remote NFC-DEP Initiator ignores the LLCP DISC and keeps sending
            DEP_REQ information / attention PDUs (or the remote Target answers DISC with SYMM and ignores DSL_REQ)
  combo     connect() again, as a grid: state of each option group (absent / kept / removed by its own on-startup
            returning None, False or a wrong type; rdwr with default, true or false on-discover; llcp with each
            role) x one device class (nothing, Type A with SEL_RES 00h/20h/40h/60h, Type 1, Type B, FeliCa without
            / with / with both NFC-DEP and Type 3 Tag, NFC-DEP initiators, readers), every other callback default
            (key absent) or returning true/false/None/wrong types.  Next to the trace monitors above a reference
            model written from the connect() docstring (model_handlers) predicts WHICH group activates the device:
            a group that must not take it (rdwr's default on-discover next to an active llcp option and a target
            that indicates NFC-DEP) never reaches on-connect, a device that some group handles IS activated (an llcp
            option removed by its on-startup is "not present" for rdwr's default on-discover), and with a single
            handler the return value follows from its callbacks' results.
  sense     target lists mixing supported / unsupported (decided by the driver) / invalid targets:
            no exception for >= 2 targets (boundary (d): only the invalid target itself may raise ValueError), first
            target found in the order given, field off (mute() is the last driver call) when nothing was found,
            `iterations` passes spaced by `interval` on the virtual clock.
            Also run over every real driver class that can be instantiated on a stub host link (pn531, pn532,
            pn533, rcs956, acr122, arygon, rcs380, udp), because "unsupported" is decided by the driver; the stub
            finds nothing, a Type A, Type B or Type F target or an active mode DEP target.
  exchange  sequences of sense (with and without keyword options, sense_dep targets) / listen (listen_dep) / short
            connect() runs / exchange on one frontend: the target object the Device receives is the one found by
            the most recent sense/listen - whoever called it; after a discovery that found nothing (or raised)
            exchange() returns None without a driver call.
  xrace     two threads on one frontend: exchange() has been entered, another thread's sense()/listen() gets the
            frontend lock first (a delegating stand-in for clf.lock lets the harness decide the winner) and finds
            nothing / something else; the exchange() that proceeds afterwards must not hand the driver the target
            of the earlier discovery.

Oracle boundary (DESIGN C18): (a) no device -> IOError(ENODEV); (b) a true on-release value is passed through,
a false one lets the loop continue; (c) promptness in calls / virtual seconds; (d) targets with invalid attributes
are not judged (a ValueError they raise themselves; anything another target of the list raises is judged).
(e) Not demanded (the docstrings do not say it): on-release after an exception ended connect() (KeyboardInterrupt,
IOError from the driver: connect() returns False and an open activation stays without on-release; counted as
release_skipped_by_exception); what happens for on-startup results of other types than documented.
The world extensions of this module (a tag that comes back, peers that never release) are subclasses registered in
vf.sim.world.ENTITY_CLASSES by world_mod().
"""
import errno

from vf.core.rec import exc_sig

ID = "C18"
LEVEL = "exploration"
RULE = ("cases = (a) connect(): random points of the product rdwr x llcp x card in {absent, default, callbacks "
        "returning each truth value / wrong types, on-startup keeping / dropping the option} x roles x target lists "
        "x iterations x environment (nothing, each tag type incl. one that leaves after n commands, NFC-DEP peer as "
        "target or initiator ending by DISC / silence / never, reader driving card emulation, host link failure) x "
        "call index j / virtual time T at which terminate() turns true; (a') the full grid rdwr state {absent, kept "
        "with default/true/false on-discover, removed at start-up} x llcp state {absent, kept with each role, "
        "removed} x card state {absent, kept, removed} x 16 single-device classes incl. dual protocol devices, the "
        "remaining dimensions (which non-object on-startup result, every callback default/true/false/None/wrong "
        "type, target lists, device stays/leaves) sampled per cell, judged against a reference model of the "
        "docstring; (b) sense() target lists over the world "
        "device and over each real driver on a stub host link (nothing / Type A / B / F / DEP target found); (c) "
        "sense/listen/connect/exchange sequences; (d) sustained connect() runs with 2..6+ activations (devices that "
        "come back, two groups taking turns, per-call callback results); (e) a peer that never releases the NFC-DEP "
        "link x time of terminate(); (f) terminate() shapes (non-bool truth values, true once, not given); (g) the "
        "grid first discovery x second discovery of another thread that wins the frontend lock against an "
        "exchange() already entered.  A case is "
        "distinct by its full description and non-trivial if the deciding monitor was reached (connect returned or "
        "raised and the trace was checked; sense reached the driver; an exchange was judged)")
ASSUMPTIONS = ["vf.sim.world is a faithful reading of the Device interface documentation and of the NFC-DEP/LLCP/"
               "tag frame formats (its tags/peers are minimal: enough for activation and presence checks)",
               "real drivers are instantiated without their __init__ on a stub host link that answers 'no target' "
               "(or one Type A / FeliCa target); only their sense_*/mute code paths are exercised",
               "combo cases: a device that is in the field from the first discovery on is activated by the option "
               "group that handles it before terminate() was polled LIVE_J=4 times (the docstring promises a return "
               "after 'a single activation and deactivation'; every group gets its turn between two terminate() "
               "polls); card emulation exists for Type 3 Tags only; the NFC-DEP Initiator meets passive targets at "
               "106A and, unless brs=0, at 212F",
               "terminate() polled true while an activation is open may still end with the on-release value "
               "(docstring: 'wait until the tag is no longer present and then return True') or with None",
               "the results of nfc.tag.activate / LogicalLinkController.activate / nfc.tag.emulate are what connect() "
               "bases its callbacks on (they are wrapped, not replaced); 'promptly' inside an open activation = "
               "PROMPT_VSEC (3) virtual seconds, nfcpy's own deactivation waits are 1 s (Target) and 0.6 s (Initiator)",
               "sustained 'live' cases: a single device that can be activated at least three times (a tag that comes "
               "back after <= 3 discoveries, a peer / reader with >= 3 sessions) and that only one option group handles "
               "is activated at least twice by a connect() call whose on-release results are false and whose "
               "terminate() turns true at its 41st poll",
               "xrace: only one of the two threads runs at any time (hand-over by events), so the virtual clock stays "
               "meaningful; wall clock guards there only yield INCONCLUSIVE"]
REQUIRED = ["connect_runs", "trace_checked", "activation_rdwr", "activation_llcp", "activation_card",
            "release_events", "terminate_true_polled", "return_object", "return_true", "return_none", "return_false",
            "sense_runs", "sense_mixed_lists", "sense_found_checked", "sense_nothing_checked", "real_driver_sense",
            "exchange_checked", "exchange_after_nothing", "exchange_after_new_target",
            # monitors that used to be able to die silently
            "driver_said_unsupported", "terminate_true_idle", "terminate_true_in_activation", "sense_interval_checked",
            "default_discover_activated", "beep_checked", "env_nodevice", "no_options_left", "ended_by_exception",
            # activation ground truth (watch_activations) and what it decides
            "act_events_rdwr", "act_events_llcp", "act_events_card", "activation_default_connect",
            "return_true_default_callbacks", "terminate_true_in_activation_rdwr", "terminate_true_in_activation_llcp",
            "terminate_true_in_activation_card", "connect_exchange_targets_checked",
            # sustained loops
            "sustained_runs", "connect_ge2_activations", "two_groups_activated", "reactivation_checked",
            # a peer that keeps talking when the link shall end
            "stubborn_runs", "stubborn_p2p-initiator_terminated_in_activation",
            "stubborn_p2p-target_terminated_in_activation",
            # terminate() shapes
            "terminate_true_nonbool", "terminate_flapped_back", "terminate_not_given",
            # sense(): invalid targets next to others, real drivers that find Type B / DEP targets
            "sense_invalid_in_list", "real_invalid_in_list", "real_found_106B", "real_found_dep", "real_found_212F",
            # exchange(): other entry points, two threads
            "exchange_seq_sense_dep", "exchange_seq_sense_options", "exchange_dep_target", "exchange_seq_connect_steps", "exchange_after_connect",
            "xrace_checked", "xrace_second_nothing", "xrace_second_other", "xrace_first_sense", "xrace_first_listen",
            "xrace_first_sense_dep", "xrace_first_listen_dep"]

TAG_TYPES = ["t1t", "t2t", "t2t-nxp", "t3t", "t3t-std", "t4a", "t4b", "t4a-dep"]
RV_CODES = ["T", "F", "N", "0", "1", "E", "S", "L", "O"]
BRTYS = ["106A", "212A", "424A", "848A", "106B", "212B", "424B", "848B", "106F", "212F", "424F", "848F"]
BOUND = 3000            # driver calls per connect(); ordinary runs stay far below (see max_driver_calls_per_connect)
REAL_DRIVERS = ["pn531", "pn532", "pn533", "rcs956", "acr122", "arygonA", "arygonB", "rcs380", "udp"]
REQUIRED += ["real_" + d for d in REAL_DRIVERS]


def plan(tier, seed):
    n = 16
    if tier == "quick":
        return [{"connect": 420, "sustained": 30, "stubborn": 6, "sense": 160, "real": 70, "exchange": 60, "xrace": 16,
                 "systematic": True, "combo": 2, "timeout": 120}
                for _ in range(n)]
    return [{"connect": 6500, "sustained": 900, "stubborn": 150, "sense": 2500, "real": 900, "exchange": 800,
             "xrace": 400, "systematic": True, "combo": 16, "timeout": 900}
            for _ in range(n)]


TERM_SHAPES = {"int": (lambda: 1, 0), "str": (lambda: "x", ""), "obj": (object, None), "list": (lambda: [0], [])}


def rv_value(code):
    return {"T": True, "F": False, "N": None, "0": 0, "1": 1, "E": "", "S": "yes", "L": [],
            "O": object()}[code]


# =================================================================================================
# case generation
# =================================================================================================
def gen_entity(rng, kind):
    if kind == "tag":
        e = {"e": "tag", "type": rng.choice(TAG_TYPES)}
        if rng.random() < 0.6:
            e["leave_after"] = rng.choice([0, 1, 2, 3, 4, 5, 6, 8, 12])
    elif kind == "p2p-target":
        e = {"e": "p2p-target", "tech": rng.choice(["106A", "106A", "212F", "acm", "424F"]),
             "end": rng.choice(["disc", "silent", "never"]), "after": rng.randrange(1, 5)}
        if rng.random() < 0.15:
            e["sel_res"] = 0x60
    elif kind == "p2p-initiator":
        e = {"e": "p2p-initiator", "tech": rng.choice(["106A", "212F", "424F"]), "acm": rng.random() < 0.25,
             "end": rng.choice(["disc", "silent", "never"]), "after": rng.randrange(1, 5)}
    else:
        e = {"e": "reader", "tech": rng.choice(["212F", "212F", "424F", "106A"]),
             "first": rng.choice(["poll", "poll", "rr", "read", "rsc", "other"]),
             "cmds": [rng.choice(["poll", "rr", "read", "rsc", "other", "badlen", "timeout"])
                      for _ in range(rng.randrange(0, 5))]}
    if rng.random() < 0.3:
        e["appear_at"] = rng.randrange(0, 4)
    if kind != "tag" and rng.random() < 0.7:
        e["sessions"] = rng.randrange(1, 4)
    return e


def gen_env(rng, opts=None):
    r = rng.random()
    ents = []
    if r < 0.10:
        pass
    elif r < 0.40:
        ents = [gen_entity(rng, "tag")]
    elif r < 0.58:
        ents = [gen_entity(rng, "p2p-target")]
    elif r < 0.74:
        ents = [gen_entity(rng, "p2p-initiator")]
    elif r < 0.88:
        ents = [gen_entity(rng, "reader")]
    else:
        ents = [gen_entity(rng, rng.choice(["tag", "p2p-target", "p2p-initiator", "reader"]))
                for _ in range(rng.randrange(2, 4))]
    env = {"entities": ents}
    if rng.random() < 0.15:
        env["unsupported"] = rng.sample(["106B", "424F", "212F", "212A", "dep", "106A"], rng.randrange(1, 3))
    if rng.random() < 0.08:
        env["no_listen"] = rng.sample(["tta", "ttb", "ttf", "dep"], rng.randrange(1, 3))
    if rng.random() < 0.10:
        env["fail"] = {"at": rng.randrange(0, 24), "kind": rng.choice(["ioerror-perm", "ioerror-once", "kbd"])}
    return env


def gen_code(rng, p_absent=0.3, p_true=0.35):
    r = rng.random()
    if r < p_absent:
        return None
    if r < p_absent + p_true:
        return rng.choice(["T", "1", "S", "O"])
    return rng.choice(["F", "N", "0", "E", "L"])


def gen_opts(rng):
    o = {}
    if rng.random() < 0.62:
        d = {}
        if rng.random() < 0.6:
            d["targets"] = [rng.choice(["106A", "106B", "212F", "424F", "212A", "106X"])
                            for _ in range(rng.choice([1, 1, 2, 3, 4]))]
        d["startup"] = rng.choice([None, None, "same", "same", "attrs", "sub", "rev", "none", "empty", "zero"])
        d["discover"] = gen_code(rng, 0.5, 0.35)
        d["connect"] = gen_code(rng, 0.2, 0.45)
        d["release"] = gen_code(rng, 0.35, 0.4)
        if rng.random() < 0.7:
            d["iterations"] = rng.choice([1, 1, 2, 3])
        if rng.random() < 0.5:
            d["interval"] = rng.choice([0.0, 0.05, 0.2])
        if rng.random() < 0.4:
            d["beep"] = rng.choice([True, False, 0, 1])
        o["rdwr"] = d
    if rng.random() < 0.5:
        d = {"startup": rng.choice([None, None, "llc", "llc", "none", "true"]),
             "connect": gen_code(rng, 0.3, 0.45), "release": gen_code(rng, 0.35, 0.4)}
        if rng.random() < 0.6:
            d["role"] = rng.choice(["initiator", "target"])
        if rng.random() < 0.3:
            d["brs"] = rng.choice([0, 1, 2])
        if rng.random() < 0.3:
            d["acm"] = rng.choice([True, False])
        o["llcp"] = d
    if rng.random() < 0.4:
        d = {"startup": rng.choice([None, "212F", "212F", "424F", "106A", "106A-t4", "106B", "none", "wrong"]),
             "discover": gen_code(rng, 0.5, 0.35), "connect": gen_code(rng, 0.25, 0.45),
             "release": gen_code(rng, 0.35, 0.4)}
        o["card"] = d
    return o


def gen_connect_case(rng):
    opts = gen_opts(rng)
    env = gen_env(rng, opts) if rng.random() > 0.02 else None
    if env is not None and env["entities"] and rng.random() < 0.7:
        # make the option that can meet the first entity likely to be present and usable
        e = env["entities"][0]
        if e["e"] == "tag" and "rdwr" not in opts:
            opts["rdwr"] = {"connect": gen_code(rng, 0.2, 0.5), "release": gen_code(rng, 0.3, 0.4),
                            "iterations": rng.choice([1, 2])}
        elif e["e"] in ("p2p-target", "p2p-initiator"):
            d = opts.setdefault("llcp", {"connect": gen_code(rng, 0.2, 0.5), "release": gen_code(rng, 0.3, 0.4)})
            if d.get("startup") in ("none", "true"):
                d["startup"] = "llc"
            if d.get("role") is not None:
                d["role"] = "initiator" if e["e"] == "p2p-target" else "target"
        elif e["e"] == "reader":
            d = opts.setdefault("card", {"connect": gen_code(rng, 0.2, 0.5), "release": gen_code(rng, 0.3, 0.4)})
            d["startup"] = e["tech"] if e["tech"] != "106A" else rng.choice(["106A", "106A-t4"])
    if rng.random() < 0.3:
        term = {"t": rng.choice([0.0, 0.02, 0.1, 0.3, 0.7, 1.5])}     # true from this virtual time on
    else:
        term = {"j": rng.choice([0, 1, 1, 2, 2, 3, 4, 5, 6, 8])}                # true from this call index on
        if rng.random() < 0.08:
            term["kbd"] = True
    r = rng.random()
    if r < 0.22:
        term["shape"] = rng.choice(["int", "str", "obj", "list"])      # truthy / falsy values that are not bool
    elif r < 0.28 and env is not None and "kbd" not in term:
        # true once and false again, or no terminate argument at all: the world ends the run by itself (at the
        # latest with a host link failure, documented result False)
        if r < 0.25 and "j" in term:
            term["flap"] = True
        else:
            term = {"none": True}
        env.setdefault("fail", {"at": rng.choice([60, 120]), "kind": "ioerror-perm"})
    return {"kind": "connect", "env": env, "opts": opts, "term": term}


TRUE_CODES = ["T", "1", "S", "O"]
FALSE_CODES = ["F", "N", "0", "E", "L"]


def gen_sustained_case(rng):
    """one connect() call that goes through several activations: devices that leave and come back / can be
    activated several times, on-release results that keep connect() going, late terminate()"""
    pat = rng.choice(["tag", "tag", "p2p-target", "p2p-initiator", "reader", "tag+p2p-target", "tag+p2p-target",
                      "tag+p2p-initiator", "tag+reader", "p2p-target+reader", "p2p-initiator+tag",
                      "p2p-target+p2p-initiator"])
    visits = rng.randrange(2, 7)

    def release_codes():
        seq = [rng.choice(FALSE_CODES) for _ in range(rng.randrange(1, 6))]
        if rng.random() < 0.3:
            seq.append(rng.choice(TRUE_CODES))          # the k-th on-release ends connect() with its value
        return seq

    def connect_codes():
        r = rng.random()
        if r < 0.25:
            return None                                 # documented default: true
        seq = [rng.choice(TRUE_CODES) for _ in range(rng.randrange(1, 5))]
        if r > 0.8:
            seq.append(rng.choice(FALSE_CODES))         # the k-th activation is handed to the caller
        return seq
    ents, opts = [], {}
    for kind in pat.split("+"):
        if kind == "tag":
            ents.append({"e": "tag", "type": rng.choice(TAG_TYPES), "leave_after": rng.choice([3, 5, 6, 8, 10, 14]),
                         "away": rng.randrange(1, 4), "visits": visits})
            d = {"connect": connect_codes(), "release": release_codes(), "iterations": rng.choice([1, 1, 2]),
                 "interval": rng.choice([0.0, 0.05]), "startup": rng.choice([None, "same"])}
            if rng.random() < 0.3:
                d["discover"] = [rng.choice(TRUE_CODES), rng.choice(TRUE_CODES + FALSE_CODES), rng.choice(TRUE_CODES)]
            if rng.random() < 0.3:
                d["beep"] = rng.choice([True, False])
            opts["rdwr"] = d
        elif kind in ("p2p-target", "p2p-initiator"):
            e = {"e": kind, "tech": rng.choice(["106A", "212F"] if kind == "p2p-target" else ["106A", "212F", "424F"]),
                 "end": rng.choice(["disc", "disc", "silent"]), "after": rng.randrange(1, 4), "sessions": visits}
            if rng.random() < 0.3:
                e["appear_at"] = rng.randrange(0, 4)
            ents.append(e)
            d = opts.setdefault("llcp", {"connect": connect_codes(), "release": release_codes(),
                                         "startup": rng.choice([None, "llc"]),
                                         "role": rng.choice([None, "initiator" if kind == "p2p-target" else "target"])})
            if len([x for x in ents if x["e"].startswith("p2p")]) > 1:
                d["role"] = None
        else:
            tech = rng.choice(["212F", "424F"])
            ents.append({"e": "reader", "tech": tech, "first": rng.choice(["poll", "rr", "read"]),
                         "cmds": [rng.choice(["poll", "rr", "read"]) for _ in range(rng.randrange(0, 4))],
                         "sessions": visits})
            opts["card"] = {"startup": tech, "connect": connect_codes(), "release": release_codes()}
            if rng.random() < 0.3:
                opts["card"]["discover"] = [rng.choice(TRUE_CODES)]
    term = {"j": rng.choice([8, 12, 20, 30, 40])}
    if rng.random() < 0.2:
        term["shape"] = rng.choice(["int", "str", "obj"])
    return {"kind": "connect", "family": "sustained", "env": {"entities": ents}, "opts": opts, "term": term}


def gen_sustained_live_case(rng):
    """one device that can be activated at least three times and is only handled by one option group, callbacks that
    keep connect() going, plenty of terminate() polls: it must be activated again after the first activation ended
    (ASSUMPTIONS) - whatever the first activation left behind"""
    kind = rng.choice(["tag", "tag", "p2p-target", "p2p-initiator", "reader"])
    con = rng.choice([None, ["T"], ["1", "S"], ["O", "T", "1"]])
    rel = [rng.choice(FALSE_CODES) for _ in range(rng.randrange(3, 6))]
    if kind == "tag":
        ent = {"e": "tag", "type": rng.choice(TAG_TYPES), "leave_after": rng.choice([8, 10]), "away": rng.randrange(1, 4),
               "visits": rng.randrange(3, 6)}
        opts = {"rdwr": {"connect": con, "release": rel, "iterations": 1, "startup": rng.choice([None, "same"])}}
        if rng.random() < 0.3:
            opts["rdwr"]["discover"] = ["T"]
        group = "rdwr"
    elif kind == "reader":
        tech = rng.choice(["212F", "424F"])
        ent = {"e": "reader", "tech": tech, "first": rng.choice(["poll", "rr", "read"]),
               "cmds": [rng.choice(["poll", "rr", "read"]) for _ in range(rng.randrange(0, 4))], "sessions": rng.randrange(3, 6)}
        opts = {"card": {"startup": tech, "connect": con, "release": rel}}
        group = "card"
    else:
        ent = {"e": kind, "tech": rng.choice(["106A", "212F"]), "end": rng.choice(["disc", "silent"]),
               "after": rng.randrange(1, 4), "sessions": rng.randrange(3, 6)}
        opts = {"llcp": {"connect": con, "release": rel, "startup": rng.choice([None, "llc"]),
                         "role": rng.choice([None, "initiator" if kind == "p2p-target" else "target"])}}
        group = "llcp"
    return {"kind": "connect", "family": "sustained", "expect_reactivation": group, "env": {"entities": [ent]},
            "opts": opts, "term": {"j": 40}}


def gen_stubborn_case(rng, i=None):
    """terminate() turns true while a peer keeps the NFC-DEP link busy and ignores the request to end it"""
    if (rng.random() < 0.75) if i is None else (i % 3 != 2):
        ent = {"e": "p2p-initiator", "tech": rng.choice(["106A", "212F", "424F"]), "acm": rng.random() < 0.2,
               "end": "stubborn", "period": rng.choice([0.02, 0.05, 0.2]), "mode": rng.choice(["inf", "atn", "mixed"]),
               "sessions": rng.choice([1, 2])}
        role = rng.choice(["target", "target", None])
    else:
        ent = {"e": "p2p-target", "tech": rng.choice(["106A", "212F"]), "end": "stubborn", "sessions": rng.choice([1, 2])}
        role = rng.choice(["initiator", None])
    opts = {"llcp": {"role": role, "connect": rng.choice([None, "T", "1", "S"]),
                     "release": rng.choice([None, "T", "T", "F", "N", "S"]), "startup": rng.choice([None, "llc"])}}
    term = {"j": rng.choice([1, 2, 3, 5, 8])} if rng.random() < 0.7 else {"t": rng.choice([0.05, 0.3, 1.0])}
    return {"kind": "connect", "family": "stubborn", "env": {"entities": [ent]}, "opts": opts, "term": term}


def systematic_connect_cases(shard, nshards):
    """a deterministic grid: each environment family x each single option with on-connect/on-release truth values
    x each terminate index, dealt round-robin to the shards"""
    cases = []
    envs = [{"entities": []}]
    for t in TAG_TYPES:
        envs.append({"entities": [{"e": "tag", "type": t}]})
        envs.append({"entities": [{"e": "tag", "type": t, "leave_after": 5}]})
    for tech in ("106A", "212F", "acm"):
        for end in ("disc", "silent", "never"):
            envs.append({"entities": [{"e": "p2p-target", "tech": tech, "end": end, "after": 2, "sessions": 2}]})
    for tech in ("106A", "424F"):
        for end in ("disc", "silent", "never"):
            envs.append({"entities": [{"e": "p2p-initiator", "tech": tech, "end": end, "after": 2, "sessions": 2}]})
    envs.append({"entities": [{"e": "reader", "tech": "212F", "cmds": ["rr", "poll", "read"], "sessions": 2}]})
    envs.append({"entities": [{"e": "reader", "tech": "106A", "sessions": 2}]})
    k = 0
    # host link failure at each of the first driver calls of an activation (documented: connect() returns False)
    for ent, opts in (({"e": "p2p-target", "tech": "106A"}, {"llcp": {"role": "initiator", "connect": "T", "release": "T"}}),
                      ({"e": "p2p-initiator", "tech": "212F"}, {"llcp": {"role": "target", "connect": "T", "release": "T"}}),
                      ({"e": "tag", "type": "t2t"}, {"rdwr": {"connect": "T", "release": "T", "iterations": 1}}),
                      ({"e": "reader", "tech": "212F", "cmds": ["rr"] * 8},
                       {"card": {"startup": "212F", "connect": "T", "release": "T"}})):
        for kind in ("ioerror-once", "ioerror-perm", "kbd"):
            for at in range(0, 18, 2):
                if k % nshards == shard:
                    cases.append({"kind": "connect", "env": {"entities": [ent], "fail": {"at": at, "kind": kind}},
                                  "opts": opts, "term": {"j": 30}})
                k += 1
    for env in envs:
        kinds = set(e["e"] for e in env["entities"])
        for con in ("T", "F", None):
            for rel in ("T", "F", None):
                for j in (0, 1, 2, 4, 7, -0.5, -2.0):
                    if "tag" in kinds or not kinds:
                        opts = {"rdwr": {"connect": con, "release": rel, "iterations": 1, "startup": "same",
                                         "targets": ["106A", "106B", "212F"]}}
                    elif "p2p-target" in kinds:
                        opts = {"llcp": {"connect": con, "release": rel, "role": "initiator", "startup": "llc"}}
                    elif "p2p-initiator" in kinds:
                        opts = {"llcp": {"connect": con, "release": rel, "role": "target", "startup": "llc"}}
                    else:
                        st = "106A" if env["entities"][0]["tech"] == "106A" else "212F"
                        opts = {"card": {"connect": con, "release": rel, "startup": st}}
                    if k % nshards == shard:
                        term = {"j": j} if j >= 0 else {"t": -j}
                        cases.append({"kind": "connect", "env": env, "opts": opts, "term": term})
                    k += 1
    # terminate() shapes: true values that are not bool, true once and false again, no terminate argument at all
    # (then the world ends the run: callback results, or at the latest a host link failure -> False)
    for env in envs:
        kinds = set(e["e"] for e in env["entities"])
        for term in ({"j": 2, "shape": "int"}, {"j": 3, "shape": "str"}, {"j": 1, "shape": "obj"}, {"j": 0, "shape": "list"},
                     {"j": 2, "flap": True}, {"j": 4, "flap": True}, {"none": True}):
            for con, rel in (("T", "F"), ("T", None), ("F", "T"), (None, "S")):
                if "tag" in kinds or not kinds:
                    opts = {"rdwr": {"connect": con, "release": rel, "iterations": 1}}
                elif "p2p-target" in kinds:
                    opts = {"llcp": {"connect": con, "release": rel, "role": "initiator"}}
                elif "p2p-initiator" in kinds:
                    opts = {"llcp": {"connect": con, "release": rel, "role": "target"}}
                else:
                    st = "106A" if env["entities"][0]["tech"] == "106A" else "212F"
                    opts = {"card": {"connect": con, "release": rel, "startup": st}}
                if k % nshards == shard:
                    e2 = dict(env)
                    if "shape" not in term:
                        e2["fail"] = {"at": 80, "kind": "ioerror-perm"}
                    cases.append({"kind": "connect", "env": e2, "opts": opts, "term": dict(term)})
                k += 1
    return cases


# -------------------------------------------------------------------------------------------------
# "combo" cases: option group combinations x what on-startup made of each group x callbacks x one device
# -------------------------------------------------------------------------------------------------
# One device in the field (or none), present from the start.  The facts are what the device IS (protocol level,
# from the NFC Forum Digital / Activity specifications), not what nfcpy makes of it:
#   role   poll: found by our sense | pi: an NFC-DEP Initiator that activates us | reader: drives card emulation
#   brty   technology / bit rate at which it is met
#   seen   what a reader/writer discovery sees: {sensf_req flavour: (tag, ind)}  tag: can be activated as an
#          NFC Forum tag from this discovery response, ind: the response indicates NFC-DEP support (SEL_RES bit 6
#          / NFCID2 01FEh); None: the device does not answer this request
#   dep    answers ATR_REQ (NFC-DEP Target with an LLCP peer)
ENV_CLASSES = {
    "none": None,
    "A00": {"ent": {"e": "tag", "type": "t2t"}, "role": "poll", "brty": "106A", "seen": {"*": (True, False)}, "dep": False},
    "A20": {"ent": {"e": "tag", "type": "t4a"}, "role": "poll", "brty": "106A", "seen": {"*": (True, False)}, "dep": False},
    "A40": {"ent": {"e": "p2p-target", "tech": "106A"}, "role": "poll", "brty": "106A", "seen": {"*": (False, True)},
            "dep": True},
    "A60": {"ent": {"e": "multi", "tech": "106A"}, "role": "poll", "brty": "106A", "seen": {"*": (True, True)},
            "dep": True},
    # indicates NFC-DEP (SEL_RES 60h) but does not answer ATR_REQ
    "A60t": {"ent": {"e": "tag", "type": "t4a-dep"}, "role": "poll", "brty": "106A", "seen": {"*": (True, True)},
             "dep": False},
    "T1": {"ent": {"e": "tag", "type": "t1t"}, "role": "poll", "brty": "106A", "seen": {"*": (True, False)}, "dep": False},
    "B": {"ent": {"e": "tag", "type": "t4b"}, "role": "poll", "brty": "106B", "seen": {"*": (True, False)}, "dep": False},
    "F": {"ent": {"e": "tag", "type": "t3t"}, "role": "poll", "brty": "212F", "seen": {"*": (True, False)}, "dep": False},
    # FeliCa with NFC-DEP: NFCID2 01FEh on the wildcard system code only
    "Fdep": {"ent": {"e": "p2p-target", "tech": "212F"}, "role": "poll", "brty": "212F",
             "seen": {"wild": (False, True), "12fc": None}, "dep": True},
    # both: Type 3 Tag (02FEh...) for system code 12FCh, NFC-DEP (01FEh...) for the wildcard
    "Fmulti": {"ent": {"e": "multi", "tech": "212F"}, "role": "poll", "brty": "212F",
               "seen": {"wild": (False, True), "12fc": (True, False)}, "dep": True},
    "PI-A": {"ent": {"e": "p2p-initiator", "tech": "106A"}, "role": "pi", "brty": "106A"},
    "PI-F": {"ent": {"e": "p2p-initiator", "tech": "424F"}, "role": "pi", "brty": "424F"},
    "RD-F": {"ent": {"e": "reader", "tech": "212F", "cmds": ["rr", "poll", "read"]}, "role": "reader", "brty": "212F"},
    "RD-F4": {"ent": {"e": "reader", "tech": "424F", "first": "rr", "cmds": ["poll", "rr"]}, "role": "reader",
              "brty": "424F"},
    "RD-A": {"ent": {"e": "reader", "tech": "106A"}, "role": "reader", "brty": "106A"},
}
ENV_ORDER = ["none", "A00", "A20", "A40", "A60", "A60t", "T1", "B", "F", "Fdep", "Fmulti", "PI-A", "PI-F", "RD-F", "RD-F4",
             "RD-A"]
RD_STATES = ["absent", "default-discover", "discover-true", "discover-false", "removed"]
LL_STATES = ["absent", "role-any", "role-initiator", "role-target", "removed"]
CE_STATES = ["absent", "kept", "removed"]
RD_REMOVED = ["none", "false", "empty", "zero"]         # "An empty list or anything else that evaluates false"
LL_REMOVED = ["none", "false", "true", "obj", "str"]    # "Any other value removes the 'llcp' option"
CE_REMOVED = ["default", "none", "false", "wrong"]      # "The fully specified target object must then be returned"
CB_CLASSES = {"default": [None], "T": ["T"], "F": ["F"], "N": ["N"], "wrongtrue": ["1", "S", "O"],
              "wrongfalse": ["0", "E", "L"]}
CB_ORDER = ["default", "T", "F", "N", "wrongtrue", "wrongfalse"]
LIVE_J = 4              # see ASSUMPTIONS: the smallest terminate() index used with the combo cases


REQUIRED += (
    ["combo_runs", "combo_judged", "combo_life_stay", "combo_life_leave",
     "model_handler_rdwr", "model_handler_llcp", "model_handler_card", "model_no_handler", "model_multi_handler",
     "model_live_checked", "model_return_checked",
     # rdwr's default on-discover against a target that indicates NFC-DEP, by what became of the llcp option
     "model_default_discover_p2p_llcp-absent", "model_default_discover_p2p_llcp-kept",
     "model_default_discover_p2p_llcp-removed",
     # dual protocol devices activated from either side
     "combo_act_A60_rdwr", "combo_act_A60_llcp", "combo_act_A60t_rdwr", "combo_act_Fmulti_rdwr", "combo_act_Fmulti_llcp",
     # a group removed by its own on-startup next to a handler that relies on a documented default
     "model_removed_llcp_default_rdwr_discover", "model_removed_llcp_default_rdwr_connect",
     "model_removed_llcp_default_rdwr_release", "model_removed_card_default_rdwr_discover",
     "model_removed_card_default_rdwr_connect", "model_removed_card_default_rdwr_release",
     "model_removed_rdwr_default_llcp_connect", "model_removed_rdwr_default_llcp_release",
     "model_removed_card_default_llcp_connect", "model_removed_card_default_llcp_release"]
    + ["combo_env_" + e for e in ENV_ORDER]
    + ["combo_rdwr_" + x for x in RD_STATES] + ["combo_llcp_" + x for x in LL_STATES]
    + ["combo_card_" + x for x in CE_STATES]
    + ["combo_startup_rdwr_" + x for x in RD_REMOVED + ["default", "same", "rev", "attrs", "sc12fc"]]
    + ["combo_startup_llcp_" + x for x in LL_REMOVED + ["default", "llc"]]
    + ["combo_startup_card_" + x for x in CE_REMOVED + ["212F", "424F", "106A"]]
    + ["combo_cb_%s_%s" % (n, c) for n in ("discover", "connect", "release") for c in CB_ORDER])


def code_class(code):
    for k in CB_ORDER:
        if code in CB_CLASSES[k]:
            return k


def combo_cells():
    return [(rd, ll, ce, env) for rd in RD_STATES for ll in LL_STATES for ce in CE_STATES for env in ENV_ORDER]


def gen_combo_case(cell, rng):
    rd, ll, ce, envc = cell

    def cb_code():
        # the documented default (key absent) is the value of most interest next to a removed group: weight 3
        return rng.choice(CB_CLASSES[rng.choice(CB_ORDER + ["default", "default"])])
    opts = {}
    if rd != "absent":
        d = {}
        if rd == "removed":
            d["startup"] = rng.choice(RD_REMOVED)
        elif envc in ("F", "Fdep", "Fmulti"):
            d["startup"] = rng.choice([None, "same", "attrs", "sc12fc", "sc12fc"])
        else:
            d["startup"] = rng.choice([None, None, "same", "same", "rev", "attrs", "sc12fc"])
        if rd == "discover-true":
            d["discover"] = rng.choice(["T", "T", "1", "S", "O"])
        elif rd == "discover-false":
            d["discover"] = rng.choice(["F", "N", "0", "E", "L"])
        elif rd == "removed":
            d["discover"] = rng.choice([None, "T", "F"])
        d["connect"], d["release"] = cb_code(), cb_code()
        r = rng.random()
        if r >= 0.55:
            d["targets"] = rng.choice([["106A", "106B", "212F"], ["212F", "106B", "106A"], ["106A", "212F"], ["106A"],
                                       ["212F", "424F"], ["106B", "106A"]])
        d["iterations"] = rng.choice([1, 1, 1, 2, None])
        d["interval"] = rng.choice([None, 0.0, 0.05])
        if rng.random() < 0.3:
            d["beep"] = rng.choice([True, False])
        opts["rdwr"] = d
    if ll != "absent":
        d = {"startup": rng.choice(LL_REMOVED) if ll == "removed" else rng.choice([None, "llc"]),
             "connect": cb_code(), "release": cb_code()}
        role = {"role-any": None, "role-initiator": "initiator", "role-target": "target"}.get(ll, "?")
        if role == "?":
            role = rng.choice([None, "initiator", "target"])
        d["role"] = role
        if rng.random() < 0.3:
            d["brs"] = rng.choice([0, 1, 2])
        opts["llcp"] = d
    if ce != "absent":
        d = {"connect": cb_code(), "release": cb_code(), "discover": rng.choice([None, None, "T", "S", "F", "0"])}
        if ce == "removed":
            st = rng.choice(CE_REMOVED)
            d["startup"] = None if st == "default" else st
        elif envc in ("RD-F", "RD-F4"):
            tech = ENV_CLASSES[envc]["brty"]
            d["startup"] = rng.choice([tech, tech, tech, tech, tech, "212F" if tech == "424F" else "424F", "106A"])
        else:
            d["startup"] = rng.choice(["212F", "212F", "212F", "424F", "106A", "106A-t4"])
        opts["card"] = d
    life = rng.choice(["stay", "leave"])
    ents = []
    f = ENV_CLASSES[envc]
    if f is not None:
        e = dict(f["ent"])
        if e["e"] in ("tag", "multi") and life == "leave":
            e["leave_after"] = 14
        if e["e"] in ("p2p-target", "p2p-initiator", "multi"):
            e["end"], e["after"] = ("disc", 2) if life == "leave" else ("never", 2)
        if e["e"] != "tag" and life == "leave":
            e["sessions"] = 1
        ents.append(e)
    return {"kind": "connect", "model": True, "envclass": envc, "life": life, "cell": [rd, ll, ce],
            "env": {"entities": ents}, "opts": opts, "term": {"j": rng.choice([LIVE_J, 7, 12])}}


def gen_target_spec(rng, invalid_ok=True):
    t = {"brty": rng.choice(BRTYS + ["106A", "106B", "212F", "424F", "106X", "424Z"])}
    r = rng.random()
    if r < 0.08 and t["brty"].endswith("F"):
        t["sensf_req"] = rng.choice(["00FFFF0000", "00FFFF0100", "0012FC0000", "00ABCD0000"])
    elif r < 0.14 and t["brty"].endswith("A"):
        t["sel_req"] = rng.choice(["05A1123456789A", "01020304", "04A2123456789A"])
    elif r < 0.20:
        t["atr_req"] = rng.choice([16, 20, 64])
    elif r < 0.26 and invalid_ok:
        t["invalid"] = True
        if t["brty"].endswith("A") and rng.random() < 0.5:
            t["sel_req"] = rng.choice(["0102030405", "01", "0102030405060708090A0B"])
        else:
            t["atr_req"] = rng.choice([3, 15, 65, 80])
    return t


def gen_sense_case(rng, driver="world"):
    n = rng.choice([1, 2, 2, 3, 3, 4, 5, 6])
    case = {"kind": "sense", "driver": driver,
            "targets": [gen_target_spec(rng) for _ in range(n)]}
    if rng.random() < 0.6:
        case["iterations"] = rng.choice([0, 1, 2, 3])
    if rng.random() < 0.5:
        case["interval"] = rng.choice([0.0, 0.05, 0.3])
    if driver == "world":
        ents = [gen_entity(rng, rng.choice(["tag", "tag", "p2p-target"])) for _ in range(rng.choice([0, 1, 1, 2, 3]))]
        env = {"entities": ents}
        if rng.random() < 0.7:
            env["unsupported"] = rng.sample(["212A", "424A", "848A", "212B", "424B", "848B", "106F", "848F", "dep",
                                             "106B", "424F"], rng.randrange(1, 7))
        case["env"] = env
    else:
        case["found"] = rng.choice([None, None, None, "212F", "424F", "106A", "106B", "106B", "dep", "dep"])
        if case["found"] == "dep" and rng.random() < 0.7:
            # make sure the list asks for an active mode target somewhere
            t = rng.choice(case["targets"])
            t.pop("sel_req", None), t.pop("sensf_req", None), t.pop("invalid", None)
            t["brty"], t["atr_req"] = rng.choice(["106A", "212F", "424F"]), rng.choice([16, 20, 64])
        elif case["found"] == "106B" and rng.random() < 0.7:
            t = rng.choice(case["targets"])
            for k in ("sel_req", "sensf_req", "invalid", "atr_req"):
                t.pop(k, None)
            t["brty"] = "106B"
    return case


def gen_exchange_case(rng):
    ents = [{"e": "tag", "type": "t2t"}, {"e": "tag", "type": "t3t"}]
    if rng.random() < 0.7:
        ents.append({"e": "reader", "tech": rng.choice(["212F", "106A"]), "cmds": ["rr", "poll", "rr", "poll"],
                     "sessions": 10})
    if rng.random() < 0.5:
        ents.append({"e": "tag", "type": "t4b"})
    if rng.random() < 0.5:
        ents.append({"e": "p2p-target", "tech": rng.choice(["acm", "acm", "106A"]), "end": "never", "sessions": 10})
    if rng.random() < 0.5:
        ents.append({"e": "p2p-initiator", "tech": rng.choice(["106A", "424F"]), "end": "never", "sessions": 10})
    rng.shuffle(ents)
    env = {"entities": ents, "unsupported": ["848A", "212A"]}
    steps = []
    for _ in range(rng.randrange(4, 12)):
        r = rng.random()
        if r < 0.40:
            ts = [rng.choice(["106A", "212F", "106B", "424F", "848A", "212A", "106X"]) for _ in range(rng.choice([1, 1, 2, 3]))]
            if rng.random() < 0.3:      # an active communication mode target (found by sense_dep)
                ts.insert(rng.randrange(len(ts) + 1), {"brty": rng.choice(["106A", "212F", "424F"]), "atr_req": 16})
            st = {"op": "sense", "targets": ts}
            if rng.random() < 0.35:     # the keyword options of sense()
                st["iterations"] = rng.choice([1, 2, 3])
                if rng.random() < 0.7:
                    st["interval"] = rng.choice([0.0, 0.05, 0.1])
            steps.append(st)
        elif r < 0.55:
            st = {"op": "listen", "brty": rng.choice(["212F", "106A", "424F", "106B"])}
            if rng.random() < 0.4:      # listen_dep
                st["dep"] = True
            steps.append(st)
        elif r < 0.65:
            # a short connect() run between discovery and exchange / exchange() after connect() returned
            st = {"op": "connect", "opt": rng.choice(["rdwr", "rdwr", "rdwr", "llcp-i", "llcp-t", "card"]),
                  "connect": rng.choice(["T", "F", "F"]), "j": rng.choice([1, 2, 3])}
            if st["opt"] == "rdwr":     # with or without something to find
                st["targets"] = rng.choice([["106A", "212F"], ["106A"], ["212F", "106B"], ["106B"], ["424F"], ["106B", "424F"]])
            steps.append(st)
        else:
            steps.append({"op": "exchange", "data": rng.choice(["3000", "0600ffff0100", "3004"])})
    steps.append({"op": "exchange", "data": "3000"})
    return {"kind": "exchange", "env": env, "steps": steps}


# =================================================================================================
# running a connect() case
# =================================================================================================
_WORLD = []


def world_mod():
    """vf.sim.world with three entity classes extended (registered in world.ENTITY_CLASSES of this worker process;
    the specs stay JSON-able, absent keys keep the behaviour of the base classes):

      tag            + "away": k, "visits": v   a tag that left (leave_after) is back after k further discoveries,
                                                 v visits in all (each visit leaves after leave_after commands again)
      p2p-initiator  + "end": "stubborn", "period": s, "mode": "inf"|"atn"|"mixed"
                         an NFC-DEP Initiator that never releases: whatever the local Target answers (SYMM, the
                         LLCP DISC of a link termination ...) is taken as the response and the next DEP_REQ follows
                         (information PDU carrying SYMM with the correct PNI, or an attention request first) every
                         `period` virtual seconds; never sends DSL_REQ / RLS_REQ, never falls silent
      p2p-target     + "end": "stubborn"         an NFC-DEP Target whose LLCP peer answers DISC with SYMM and that
                                                 does not answer DSL_REQ / RLS_REQ
    """
    if _WORLD:
        return _WORLD[0]
    from vf.sim import world

    class CyclingTag(world.Tag):
        def __init__(self, spec, index):
            world.Tag.__init__(self, spec, index)
            self.away = spec.get("away")
            self.visits = spec.get("visits", 1)
            self.left_at = None

        def visible(self, dev):
            if self.gone and self.away is not None and self.visits > 1:
                if self.left_at is None:
                    self.left_at = dev.discoveries
                if dev.discoveries >= self.left_at + self.away:
                    self.gone, self.left_at, self.answered = False, None, 0
                    self.visits -= 1
                    self.power_cycle()
            return world.Tag.visible(self, dev)

    class Initiator(world.P2PInitiator):
        def exchange(self, dev, target, data, timeout):
            if self.end != "stubborn":
                return world.P2PInitiator.exchange(self, dev, target, data, timeout)
            f0 = target.brty == "106A"
            if not self.active:
                return "off"
            period = self.spec.get("period", 0.02)
            if timeout and period > timeout:
                return None                     # the next request comes later than the local side listens
            dev.clock.advance(period)
            atn = world.dep_frame(b"\xD4\x06\x80", f0)
            if data is None:
                return atn
            pdu = world.dep_unframe(data, f0)
            if pdu is None or pdu[0] != 0xD5:
                return None
            if pdu[1] in (0x09, 0x0B):
                self._end_session()
                return "off"
            if pdu[1] != 0x07 or len(pdu) < 3:
                return None
            typ, pni, (flags, hdr), inf = world.dep_split(pdu)
            if typ == 0x8:
                return self.last
            if typ == 0x0 and pni == self.pni:
                self.n_inf += 1
                self.pni = (self.pni + 1) & 3
                self.last = world.dep_frame(b"\xD4\x06" + bytes([self.pni]) + world.SYMM, f0)
                mode = self.spec.get("mode", "inf")
                if mode == "atn" or (mode == "mixed" and self.n_inf % 3 == 0):
                    return atn                  # "did you get it?" first, the information PDU after the answer
                return self.last
            if typ == 0x1 and pni == self.pni:
                self.pni = (self.pni + 1) & 3
                self.last = world.dep_frame(b"\xD4\x06" + bytes([0x40 | self.pni]), f0)
                return self.last
            return None

    class Target(world.P2PTarget):
        def exchange(self, dev, target, data, timeout):
            if self.end == "stubborn":
                pdu = world.dep_unframe(data, target.brty == "106A")
                if pdu is not None and pdu[0] == 0xD4 and pdu[1] in (0x08, 0x0A):
                    return None
            return world.P2PTarget.exchange(self, dev, target, data, timeout)

        def next_llcp(self, inf):
            if self.end == "stubborn":
                return world.SYMM
            return world.P2PTarget.next_llcp(self, inf)

    world.ENTITY_CLASSES.update({"tag": CyclingTag, "p2p-initiator": Initiator, "p2p-target": Target})
    _WORLD.append(world)
    return world


class Trace(object):
    def __init__(self):
        self.ev = []            # dicts, in order of occurrence
        self.ret = None
        self.exc = None
        self.rdwr_targets = []
        self.llc = None
        self.card_target = None
        self.dev = None
        self.clock = None

    def add(self, **kw):
        kw["i"] = len(self.ev)
        kw["t"] = self.clock.now if self.clock is not None else 0.0
        self.ev.append(kw)
        return kw


def build_targets(tspecs):
    import nfc.clf
    out = []
    for t in tspecs:
        tg = nfc.clf.RemoteTarget(t["brty"])
        if t.get("sensf_req"):
            tg.sensf_req = bytearray.fromhex(t["sensf_req"])
        if t.get("sel_req"):
            tg.sel_req = bytearray.fromhex(t["sel_req"])
        if t.get("sensb_req"):
            tg.sensb_req = bytearray.fromhex(t["sensb_req"])
        if t.get("atr_req"):
            n = t["atr_req"]
            tg.atr_req = bytearray((b"\xD4\x00" + bytes(range(1, 11)) + b"\x00\x00\x00\x32" + bytes(80))[:n])
        out.append(tg)
    return out


def instrument(clf, tr):
    """log the frontend level calls (public methods, replaced on the instance)"""
    def wrap(name):
        orig = getattr(clf, name)

        def f(*a, **kw):
            e = tr.add(k="fe", op=name, args=a, kw=kw)
            try:
                r = orig(*a, **kw)
            except BaseException as x:
                tr.add(k="fe_end", ref=e["i"], op=name, exc=x)
                raise
            tr.add(k="fe_end", ref=e["i"], op=name, ret=r, exc=None)
            return r
        setattr(clf, name, f)
    for name in ("sense", "listen", "exchange"):
        wrap(name)


def make_options(case, tr, clock):
    import nfc.clf
    import nfc.llcp.llc
    from vf.sim.world import Bound
    opts = case["opts"]
    options = {}

    def cb(opt, name, code):
        n = [0]

        def f(arg):
            # a list of codes: the result of the 1st, 2nd, ... call (the last one repeats)
            c = code[min(n[0], len(code) - 1)] if isinstance(code, list) else code
            n[0] += 1
            val = rv_value(c)
            tr.add(k="cb", opt=opt, name=name, arg=arg, ret=val)
            return val
        return f

    def common(d, out, opt, names):
        for name in names:
            if d.get(name) is not None:
                out["on-" + name] = cb(opt, name, d[name])

    d = opts.get("rdwr")
    if d is not None:
        o = {}
        if d.get("targets") is not None:
            o["targets"] = list(d["targets"])
        mode = d.get("startup")
        if mode is not None:
            def rdwr_startup(targets, mode=mode):
                if mode == "same":
                    val = targets
                elif mode == "attrs":
                    for t in targets:
                        if t.brty.endswith("F"):
                            t.sensf_req = bytearray.fromhex("00FFFF0100")
                    val = targets
                elif mode == "sub":
                    val = targets[:1]
                elif mode == "rev":
                    val = list(reversed(targets))
                elif mode == "sc12fc":
                    # the docstring's example: discover NFC Forum Type 3 Tags only
                    for t in targets:
                        if t.brty.endswith("F"):
                            t.sensf_req = bytearray.fromhex("0012FC0000")
                    val = targets
                elif mode == "none":
                    val = None
                elif mode == "false":
                    val = False
                elif mode == "empty":
                    val = []
                else:
                    val = 0
                tr.add(k="cb", opt="rdwr", name="startup", arg=targets, ret=val)
                tr.rdwr_targets = list(val) if val else []
                return val
            o["on-startup"] = rdwr_startup
        common(d, o, "rdwr", ("discover", "connect", "release"))
        for k in ("iterations", "interval"):
            if d.get(k) is not None:
                o[k] = d[k]
        if d.get("beep") is not None:
            o["beep-on-connect"] = d["beep"]
        options["rdwr"] = o
    d = opts.get("llcp")
    if d is not None:
        o = {}
        mode = d.get("startup")
        if mode is not None:
            def llcp_startup(llc, mode=mode):
                val = {"llc": llc, "none": None, "false": False, "true": True, "obj": object(), "str": "llc"}[mode]
                tr.add(k="cb", opt="llcp", name="startup", arg=llc, ret=val)
                tr.llc = llc
                return val
            o["on-startup"] = llcp_startup
        common(d, o, "llcp", ("connect", "release"))
        for k in ("role", "brs", "acm"):
            if d.get(k) is not None:
                o[k] = d[k]
        options["llcp"] = o
    d = opts.get("card")
    if d is not None:
        o = {}
        mode = d.get("startup")
        if mode is not None:
            def card_startup(target, mode=mode):
                val = target
                if mode in ("212F", "424F"):
                    target.brty = mode
                    target.sensf_res = bytearray.fromhex("01 02FE010203040506 FFFFFFFFFFFFFFFF 12FC")
                elif mode in ("106A", "106A-t4"):
                    target.brty = "106A"
                    target.sens_res = bytearray.fromhex("0101")
                    target.sdd_res = bytearray.fromhex("08010203")
                    target.sel_res = bytearray.fromhex("20" if mode == "106A-t4" else "00")
                elif mode == "106B":
                    target.brty = "106B"
                    target.sensb_res = bytearray.fromhex("50E5DD3DC900000011008185")
                elif mode == "none":
                    val = None
                elif mode == "false":
                    val = False
                else:
                    val = nfc.clf.RemoteTarget("106A")
                tr.add(k="cb", opt="card", name="startup", arg=target, ret=val)
                tr.card_target = val if isinstance(val, nfc.clf.LocalTarget) else None
                return val
            o["on-startup"] = card_startup
        common(d, o, "card", ("discover", "connect", "release"))
        options["card"] = o

    term = case["term"]
    state = {"n": 0}
    tr.t0 = clock.time()

    def terminate():
        idx = state["n"]
        state["n"] += 1
        if idx > 3000:
            raise Bound("terminate() polled more than 3000 times")
        if term.get("kbd") and idx == term["j"]:
            tr.add(k="term", idx=idx, val="kbd")
            raise KeyboardInterrupt()
        if "t" in term:
            val = clock.time() - tr.t0 >= term["t"]
        elif term.get("flap"):
            val = idx == term["j"]              # true once, false again afterwards
        else:
            val = idx >= term["j"]
        tr.add(k="term", idx=idx, val=val)
        shape = term.get("shape")               # "a callback function ... returns a true value": any truth value
        if shape is None:
            return val
        return TERM_SHAPES[shape][0]() if val else TERM_SHAPES[shape][1]
    if not term.get("none"):                    # no terminate argument at all: the world ends the run by itself
        options["terminate"] = terminate
    return options


def watch_activations(tr):
    """ground truth that does not depend on the user callbacks: the three activation functions connect() relies on
    (nfc.tag.activate, LogicalLinkController.activate, nfc.tag.emulate) report their results into the trace.
    Returns the function that removes the wrappers again."""
    import nfc.tag
    import nfc.llcp.llc
    LLC = nfc.llcp.llc.LogicalLinkController
    orig = (nfc.tag.activate, nfc.tag.emulate, LLC.activate)

    def wrap(opt, f, ok, obj):
        def g(*a, **kw):
            try:
                r = f(*a, **kw)
            except BaseException as x:
                tr.add(k="act", opt=opt, ok=False, obj=None, exc=x)
                raise
            tr.add(k="act", opt=opt, ok=ok(r), obj=obj(a, r), exc=None)
            return r
        return g
    nfc.tag.activate = wrap("rdwr", orig[0], lambda r: isinstance(r, nfc.tag.Tag), lambda a, r: r)
    nfc.tag.emulate = wrap("card", orig[1], lambda r: isinstance(r, nfc.tag.TagEmulation), lambda a, r: r)
    LLC.activate = wrap("llcp", orig[2], bool, lambda a, r: a[0])

    def restore():
        nfc.tag.activate, nfc.tag.emulate, LLC.activate = orig
    return restore


def run_connect(case):
    import nfc.clf
    from vf.core.vclock import VClock
    world = world_mod()
    clock = VClock()
    world.patch_time(clock)
    tr = Trace()
    tr.clock = clock
    clf = nfc.clf.ContactlessFrontend()
    if case["env"] is not None:
        dev = world.WorldDevice(case["env"], clock, sink=lambda c: tr.add(k="drv", call=c), bound=BOUND)
        clf.device = dev
        tr.dev = dev
    instrument(clf, tr)
    options = make_options(case, tr, clock)
    restore = watch_activations(tr)
    try:
        tr.ret = clf.connect(**options)
    except BaseException as e:          # noqa (SystemExit / Bound / KeyboardInterrupt are verdict material)
        tr.exc = e
    finally:
        restore()
    tr.n_at_return = len(tr.ev)
    tr.t_end = clock.now
    return tr


# =================================================================================================
# the connect() oracle
# =================================================================================================
def expected_left(opts):
    left = []
    d = opts.get("rdwr")
    # "An empty list or anything else that evaluates false will remove the 'rdwr' option completely."
    if d is not None and d.get("startup") in (None, "same", "attrs", "sub", "rev", "sc12fc"):
        left.append("rdwr")
    d = opts.get("llcp")
    # "The function should return the *llc* object if activation shall continue. Any other value removes the
    #  'llcp' option."
    if d is not None and d.get("startup") in (None, "llc"):
        left.append("llcp")
    d = opts.get("card")
    # "The fully specified target object must then be returned." (the default on-startup returns nothing)
    if d is not None and d.get("startup") in ("212F", "424F", "106A", "106A-t4", "106B"):
        left.append("card")
    return left


def type_name(o):
    import nfc.tag
    import nfc.llcp.llc
    if isinstance(o, nfc.tag.Tag):
        return "Tag"
    if isinstance(o, nfc.llcp.llc.LogicalLinkController):
        return "LLC"
    if isinstance(o, nfc.tag.TagEmulation):
        return "TagEmulation"
    return type(o).__name__


PROMPT_VSEC = 3.0       # see "promptness" in check_connect
P2P_KINDS = frozenset(("p2p-target", "p2p-initiator", "multi"))


def check_connect(case, tr, R):
    """returns list of (signature, text)"""
    import nfc.clf
    import nfc.tag
    import nfc.llcp.llc
    from vf.sim.world import Bound
    V = []
    opts = case["opts"]
    ev = tr.ev
    given = [o for o in ("rdwr", "llcp", "card") if opts.get(o) is not None]
    left = expected_left(opts)
    cbs = [e for e in ev if e["k"] == "cb"]
    drv = [e for e in ev if e["k"] == "drv"]
    terms = [e for e in ev if e["k"] == "term"]
    # A callback that is not supplied keeps its documented default and is not observable: a missing on-discover
    # lets the activation follow directly, a missing on-connect (default: true) opens the activation as soon as
    # the activation function (watch_activations) reported success, a missing on-release (default: true) ends
    # connect() with True.
    has = {o: {n: opts[o].get(n) is not None for n in ("discover", "connect", "release")} for o in left}

    # (a) no device -> IOError(ENODEV)
    if case["env"] is None:
        R.count("env_nodevice")
        if not (isinstance(tr.exc, IOError) and tr.exc.errno == errno.ENODEV):
            V.append(("nodevice/not-ENODEV", "connect() without a device: %r / returned %r" % (tr.exc, tr.ret)))
        return V

    # run-away guard
    if isinstance(tr.exc, Bound):
        # terminate() given as a condition on the virtual time: true for the last N driver calls, never asked
        overdue = 0
        if "t" in case["term"]:
            overdue = len([e for e in drv if e["call"].t - tr.t0 >= case["term"]["t"]])
        stays_true = bool(terms) and terms[-1]["val"] is True
        if stays_true or overdue > BOUND // 3:
            what = "open-activation" if _open_at_end(ev, has) else "idle"
            V.append(("prompt/no-return-after-terminate/" + what,
                      "connect() did not return although terminate() had returned true (%s)" % tr.exc))
        else:
            R.inconc("run-away guard without terminate() having turned true: %r" % (case,))
        return V

    R.max("driver_calls_per_connect", len(drv))
    injected = [e for e in drv if e["call"].exc in ("IOError", "KeyboardInterrupt")]
    kbd_term = any(e["val"] == "kbd" for e in terms)

    if tr.exc is not None:
        V.append(("return/exception-escapes/%s" % exc_sig(tr.exc),
                  "connect() raised %r instead of returning None/False/True/object" % tr.exc))
        return V

    # ---- on-startup: once per option given, before anything else ------------------------------------
    first_other = None
    for e in ev:
        if e["k"] in ("drv", "fe", "act") or (e["k"] == "cb" and e["name"] != "startup"):
            first_other = e["i"]
            break
    for o in given:
        st = [e for e in cbs if e["opt"] == o and e["name"] == "startup"]
        want = 1 if opts[o].get("startup") is not None else 0
        if len(st) != want:
            V.append(("order/startup-count/" + o, "on-startup of %s called %d times" % (o, len(st))))
        for e in st:
            if first_other is not None and e["i"] > first_other:
                V.append(("order/startup-late/" + o, "on-startup of %s after discovery had begun" % o))
            R.seen("transitions", "%s:startup->%s" % (o, "kept" if o in left else "dropped"))
    # a removed option is not used any more
    for e in cbs:
        if e["name"] != "startup" and e["opt"] not in left:
            V.append(("startup/removed-option-used/" + e["opt"],
                      "callback on-%s of option %s which on-startup had removed" % (e["name"], e["opt"])))

    # ---- classify frontend discovery calls -----------------------------------------------------------
    def fe_class(e):
        if e["op"] == "sense":
            if any(t is x for t in e["args"] for x in tr.rdwr_targets):
                return "rdwr"
            # default on-startup: the target objects are created inside connect() and never seen by the harness;
            # the rdwr discovery is then told apart by its keyword arguments (the harness never uses interval 0.1,
            # which the NFC-DEP initiator search uses; tag activation re-senses without keywords)
            if "rdwr" in left and opts["rdwr"].get("startup") is None \
                    and "iterations" in e["kw"] and e["kw"].get("interval") != 0.1:
                return "rdwr"
            return "other-sense"
        if e["op"] == "listen":
            if tr.card_target is not None and e["args"] and e["args"][0] is tr.card_target:
                return "card"
            return "dep-listen"
        return None
    fes = [e for e in ev if e["k"] == "fe" and e["op"] in ("sense", "listen")]
    for e in fes:
        e["cls"] = fe_class(e)

    # ---- no options left -> None, nothing attempted --------------------------------------------------
    # "returns None if there were no options left after the 'on-startup' functions have been executed"
    if not left:
        R.count("no_options_left")
        if tr.ret is not None:
            V.append(("return/no-options-left", "no option left after on-startup but connect() returned %r" % (tr.ret,)))
        if drv or fes or any(e["k"] == "act" for e in ev):
            V.append(("startup/discovery-without-options", "driver used although no option was left"))
        R.seen("returns", "no-options->%s" % type_name(tr.ret))
        R.count("return_none")
        return V

    # ---- exceptions that end connect() -----------------------------------------------------------------
    # "It returns False when terminated by any of the following exceptions: KeyboardInterrupt, IOError,
    #  UnsupportedTargetError."
    last_fe_end = None
    for e in reversed(ev):
        if e["k"] == "fe_end":
            last_fe_end = e
            break
        if e["k"] in ("cb", "term"):
            break
    unsupported_end = last_fe_end is not None and isinstance(last_fe_end.get("exc"), nfc.clf.UnsupportedTargetError)
    by_exception = bool(injected) or kbd_term or unsupported_end

    # ---- activation automaton ------------------------------------------------------------------------
    # events: discovery (frontend sense/listen of a group), on-discover, result of the activation function ("act":
    # ground truth, independent of the user callbacks), on-connect, on-release, terminate() polls
    state = "idle"          # idle | discovered | open | final
    cur = None              # (opt, object) of the open activation
    disc_opt = None
    pend = None             # (opt, object): a successful activation that awaits its (user supplied) on-connect
    want_act = None         # opt whose user supplied on-discover returned true: the activation function comes next
    ents = []               # kinds of the world entities that answered a discovery since the last activation attempt
    n_true = {"rdwr": 0, "llcp": 0, "card": 0}
    n_rel = {"rdwr": 0, "llcp": 0, "card": 0}
    n_act = {"rdwr": 0, "llcp": 0, "card": 0}
    act_seq = []
    final = None            # ("object", obj) | ("release", value)
    open_at = {}            # event index -> option whose activation is open at that moment (None: idle)
    last_found = {"rdwr": None, "card": None}
    for e in ev + [{"k": "end", "i": len(ev)}]:
        k = e["k"]
        open_at[e["i"]] = cur[0] if state == "open" else None
        if k == "drv":
            if e["call"].entity is not None:
                ents.append(e["call"].entity.spec["e"])
            continue
        if k == "fe_end":
            if e["op"] in ("sense", "listen") and e.get("exc") is None:
                c = ev[e["ref"]].get("cls")
                if c in ("rdwr", "card") and e["ret"] is not None:
                    last_found[c] = e["ret"]
            continue
        if k == "fe" and e.get("cls") not in ("rdwr", "card", "dep-listen"):
            continue            # data exchange, the searches inside an activation function
        is_cb = k == "cb"
        if is_cb and (e["name"] == "startup" or e["opt"] not in left):
            continue
        # what a successful activation / a true on-discover makes come next
        if pend is not None and not (is_cb and e["opt"] == pend[0] and e["name"] == "connect"):
            if not (k == "end" and by_exception):
                V.append(("order/connect-skipped/" + pend[0], "the activation function of %s succeeded but on-connect "
                          "was not called for it" % pend[0]))
            pend = None
        if want_act is not None and not (k == "act" and e["opt"] == want_act):
            if not (k == "end" and by_exception):
                V.append(("order/discover-true-not-activated/" + want_act, "on-discover of %s returned true but the "
                          "target was not activated" % want_act))
            want_act = None
        if k == "fe" and state == "open" and not any(v[0].startswith("order/discovery-while-open") for v in V):
            # the activation is over for connect() although on-release was not called for it (with the default
            # on-release, true, connect() had to return)
            V.append(("order/discovery-while-open/" + cur[0], "connect() went on to the next discovery while the %s "
                      "activation awaited on-release" % cur[0]))
        if k in ("end", "term", "fe"):
            continue
        if k == "act":
            o = e["opt"]
            want_act = None
            if o not in left:
                V.append(("startup/removed-option-used/" + o, "activation for option %s which on-startup had removed" % o))
            elif state == "final":
                V.append(("order/callback-after-final/%s-activation" % o,
                          "activation after the callback result that ends connect()"))
            else:
                if state == "open":
                    V.append(("order/activation-while-open/" + o, "activation while an activation awaits on-release"))
                if o in ("rdwr", "card") and has[o]["discover"] and not (state == "discovered" and disc_opt == o):
                    V.append(("order/activation-without-discover/" + o, "activation without a true on-discover before"))
                if e["ok"]:
                    n_act[o] += 1
                    act_seq.append(o)
                    kinds = set(ents)
                    if not (kinds & P2P_KINDS if o == "llcp" else ("reader" in kinds if o == "card" else kinds)):
                        V.append(("activation/no-counterpart/" + o, "%s activation reported although no %s answered a "
                                  "discovery since the previous activation"
                                  % (o, {"llcp": "NFC-DEP peer", "card": "reader", "rdwr": "target"}[o])))
                    if has[o]["connect"]:
                        pend = (o, e["obj"])
                    else:
                        # default on-connect: "lambda: True" -> the activation is open
                        n_true[o] += 1
                        R.count("activation_" + o)
                        R.count("activation_default_connect")
                        state, cur = "open", (o, e["obj"])
                elif state == "discovered":
                    state, disc_opt = "idle", None
            ents = []
            continue
        o, name = e["opt"], e["name"]
        if state == "final":
            if name == "release" and final[0] == "object":
                V.append(("count/release-after-connect-false/" + o, "on-release although on-connect returned false"))
            else:
                V.append(("order/callback-after-final/%s-%s" % (o, name),
                          "on-%s called after the callback result that ends connect()" % name))
            continue
        if name == "discover":
            if state == "open":
                V.append(("order/discover-while-open", "on-discover while an activation awaits on-release"))
            if e["arg"] is not last_found.get(o):
                V.append(("order/discover-arg/" + o, "on-discover got a target that the last discovery did not return"))
            R.seen("transitions", "%s:%s->discover(%s)" % (o, state, bool(e["ret"])))
            state, disc_opt = ("discovered", o) if e["ret"] else ("idle", None)
            if e["ret"]:
                want_act = o
        elif name == "connect":
            if state == "open":
                V.append(("order/connect-while-open", "on-connect while an activation awaits on-release"))
            if o in ("rdwr", "card") and has[o]["discover"] and not (state == "discovered" and disc_opt == o):
                V.append(("order/connect-without-discover/" + o, "on-connect without a true on-discover before"))
            want = {"rdwr": nfc.tag.Tag, "llcp": nfc.llcp.llc.LogicalLinkController, "card": nfc.tag.TagEmulation}[o]
            if not isinstance(e["arg"], want) or (o == "llcp" and tr.llc is not None and e["arg"] is not tr.llc):
                V.append(("order/connect-arg/" + o, "on-connect got %r" % (e["arg"],)))
            if pend is None or pend[0] != o:
                V.append(("order/connect-without-activation/" + o, "on-connect although no activation of %s had just "
                          "succeeded" % o))
            elif e["arg"] is not pend[1]:
                V.append(("order/connect-arg/" + o, "on-connect got another object than the activation produced"))
            pend = None
            R.seen("transitions", "%s:%s->connect(%s)" % (o, state, bool(e["ret"])))
            R.count("activation_" + o)
            if e["ret"]:
                n_true[o] += 1
                state, cur = "open", (o, e["arg"])
            else:
                state, final = "final", ("object", e["arg"])
        elif name == "release":
            n_rel[o] += 1
            R.count("release_events")
            if state == "open" and cur[0] == o:
                if e["arg"] is not cur[1]:
                    V.append(("order/release-arg/" + o, "on-release got another object than on-connect"))
            else:
                V.append(("count/release-without-connect-true/" + o,
                          "on-release without a preceding true on-connect result"))
            R.seen("transitions", "%s:%s->release(%s)" % (o, state, bool(e["ret"])))
            if e["ret"]:
                state, final = "final", ("release", e["ret"])
            else:
                state, final = "idle", None
            cur = None
    ended_open = state == "open"
    # default on-release (lambda: True) is not recorded: an open activation at the end with a default on-release
    default_release_open = ended_open and not has[cur[0]]["release"]

    for o in left:
        if has[o]["release"]:
            pending = 1 if (ended_open and cur[0] == o) else 0
            if n_rel[o] + pending != n_true[o] and not V:
                V.append(("count/release!=connect-true/" + o,
                          "%d true on-connect results, %d on-release calls" % (n_true[o], n_rel[o])))
    R.count("trace_checked")
    # sustained loops: what one connect() call went through
    total_act = sum(n_act.values())
    R.max("activations_per_connect", total_act)
    for o in left:
        if n_act[o]:
            R.count("act_events_" + o, n_act[o])
    if total_act >= 2:
        R.count("connect_ge2_activations")
        R.seen("activation_sequences", ">".join(act_seq[:6]))
    if len(set(act_seq)) >= 2:
        R.count("two_groups_activated")

    if ended_open and not default_release_open and not by_exception:
        V.append(("count/release-missing/" + cur[0], "connect() returned while an activation awaited on-release"))

    # ---- return value table ------------------------------------------------------------------------------
    ret = tr.ret
    last_term_true = bool(terms) and terms[-1]["val"] is True
    if by_exception:
        R.count("ended_by_exception")
        if ended_open:
            R.count("release_skipped_by_exception")
        if ret is not False:
            kind = "kbd" if (kbd_term or any(e["call"].exc == "KeyboardInterrupt" for e in injected)) else \
                ("ioerror" if injected else "unsupported")
            V.append(("return/exception-not-False/" + kind, "terminated by an exception but returned %r" % (ret,)))
        R.seen("returns", "exception->%r" % (ret,))
        R.count("return_false")
    elif final and final[0] == "object":
        # "any false return value implies immediate return of the nfc.tag.Tag object" / "returns a Tag,
        #  LogicalLinkController, or TagEmulation object if the associated 'on-connect' function returned a false value"
        if ret is not final[1]:
            V.append(("return/connect-false-not-object", "on-connect returned false but connect() returned %r" % (ret,)))
        R.seen("returns", "connect-false->%s" % type_name(ret))
        R.count("return_object")
    elif final and final[0] == "release":
        # (b) the (true) value of a user supplied on-release is passed through
        if ret is not final[1] and ret != final[1]:
            V.append(("return/release-value", "on-release returned %r but connect() returned %r" % (final[1], ret)))
        R.seen("returns", "release-true->%s" % type_name(ret))
        R.count("return_true")
    elif default_release_open:
        # "Any true return value instructs connect() to wait until the tag is no longer present and then return
        #  True" (default on-release; for llcp/card the documented example returns True from on-release)
        if ret is not True and not (ret is None and last_term_true):
            V.append(("return/connect-true-not-True", "on-connect returned true, default on-release, connect() "
                      "returned %r" % (ret,)))
        R.seen("returns", "connect-true+default-release->%r" % (ret,))
        R.count("return_true")
        if not has[cur[0]]["connect"]:
            R.count("return_true_default_callbacks")
    else:
        # "returns None ... when the 'terminate' function returned a true value"
        if ret is not None:
            V.append(("return/not-None-without-result", "no callback result asks for a value but connect() "
                      "returned %r" % (ret,)))
        elif not last_term_true:
            V.append(("return/None-without-terminate", "connect() returned None although terminate() %s and options "
                      "were left" % ("was not given" if case["term"].get("none") else "did not return true last")))
        R.seen("returns", "terminate->%r" % (ret,))
        R.count("return_none")

    # ---- nothing happens after the final callback ("immediate return") ---------------------------------
    if final is not None and not by_exception:
        last_cb = [e for e in cbs if e["name"] != "startup"][-1]["i"]
        late = [e for e in fes if e["i"] > last_cb]
        if late:
            V.append(("return/not-immediate/" + late[0]["cls"], "discovery continued after the final callback result"))

    # ---- no communication after on-release ("may be used for cleanup actions but not for communication": the
    #      link / tag is gone or given up when on-release is called) ------------------------------------------
    rel = None
    for e in ev:
        if e["k"] == "cb" and e["name"] == "release":
            rel = e
        elif e["k"] == "fe" and e["op"] in ("sense", "listen"):
            rel = None
        elif e["k"] == "fe" and e["op"] == "exchange" and rel is not None:
            V.append(("order/exchange-after-release/" + rel["opt"], "data exchange after on-release of the same activation"))
            break

    # ---- "exchange() never uses a target from an earlier sense or listen", inside connect() ------------------
    xs = [e["call"] for e in drv if e["call"].op in ("send_cmd_recv_rsp", "send_rsp_recv_cmd")]
    if xs:
        R.count("connect_exchange_targets_checked")
        if any(c.fresh is False for c in xs):
            V.append(("exchange/stale-target/inside-connect", "a data exchange inside connect() handed the driver a "
                      "target that the latest discovery did not return"))

    # ---- promptness ---------------------------------------------------------------------------------------
    first_true = next((e for e in terms if e["val"] is True), None)
    shape = case["term"].get("shape")
    if first_true is not None:
        R.count("terminate_true_polled")
        if shape:
            R.count("terminate_true_nonbool")
            R.seen("terminate_shapes", shape)
        p = first_true["i"]
        # a terminate() that flaps (true once, false again): what the true result governs ends at the next poll
        q = next((e["i"] for e in terms if e["i"] > p and e["val"] is False), len(ev))
        if q < len(ev):
            R.count("terminate_flapped_back")
        after = [e for e in fes if p < e["i"] < q]
        if open_at[p] is None:
            R.count("terminate_true_idle")
            # terminate() was polled true while nothing was active: "The calling thread is blocked until ... a
            # callback function supplied as the keyword argument terminate returns a true value" -> returns None now
            rest = [e for e in fes if e["i"] > p]
            later_cb = [e for e in cbs if e["i"] > p]
            if rest or later_cb or any(e["k"] == "act" and e["i"] > p for e in ev):
                V.append(("prompt/discovery-after-idle-terminate", "terminate() returned true with no activation "
                          "open, yet %d more discovery calls / %d callbacks followed" % (len(rest), len(later_cb))))
        else:
            o = open_at[p]
            R.count("terminate_true_in_activation")
            R.count("terminate_true_in_activation_" + o)
            # The open activation ends: on-release, or (default on-release) the next thing connect() does.  nfcpy
            # documents no figure; its NFC-DEP Target waits at most 1 s for the Initiator to release, its Initiator
            # 0.5 s for the answer to DISC and 0.1 s for DSL_RES: PROMPT_VSEC virtual seconds are generous.
            end = next((e for e in ev if e["i"] > p and
                        ((e["k"] == "cb" and e["name"] == "release") or e["k"] == "act" or
                         (e["k"] == "fe" and e.get("cls") in ("rdwr", "card", "dep-listen")))), None)
            t_end = end["t"] if end is not None else tr.t_end
            upto = end["i"] if end is not None else len(ev)
            frames = len([e for e in ev if p < e["i"] < upto and e["k"] == "fe" and e["op"] == "exchange"])
            R.max("activation_end_ms_after_terminate", int(1000 * (t_end - first_true["t"])))
            R.max("frames_after_terminate", frames)
            if t_end - first_true["t"] > PROMPT_VSEC:
                V.append(("prompt/activation-end-latency/" + o, "terminate() returned true inside an open %s "
                          "activation, which then took %.1f virtual seconds (%d frames) to end"
                          % (o, t_end - first_true["t"], frames)))
        # (c) at most one residual cycle: <= one further sense/listen per enabled option
        per = {}
        for e in after:
            per[e["cls"]] = per.get(e["cls"], 0) + 1
        R.max("residual_discovery_calls", len(after))
        if per.get("rdwr", 0) > 1 or per.get("card", 0) > 1 or per.get("dep-listen", 0) > 1 \
                or per.get("other-sense", 0) > 7:
            V.append(("prompt/residual>1cycle", "after terminate() returned true: %r further discovery calls" % per))
        polls_after = len([e for e in terms if e["i"] > p])
        R.max("terminate_polls_after_true", polls_after)
    elif case["term"].get("none"):
        R.count("terminate_not_given")

    # ---- default on-discover ---------------------------------------------------------------------------------
    # "The default function depends on the 'llcp' option, if present then the function returns True only if the
    #  target does not indicate peer to peer protocol support, otherwise it returns True for all targets."
    # "The target will be further activated only if this function returns a true value."
    # "[llcp on-startup] Any other value removes the 'llcp' option." -> an llcp option that its own on-startup
    # removed is not present any more
    d = opts.get("rdwr")
    if d is not None and "rdwr" in left and d.get("discover") is None and "llcp" not in left and not by_exception:
        llcp_state = "" if opts.get("llcp") is None else "/llcp-removed-at-startup"
        found_by = {}
        for e in drv:
            if e["call"].entity is not None:
                found_by[id(e["call"].result)] = e["call"].entity
        pending = None
        for e in ev + [{"k": "end", "i": len(ev)}]:
            if pending is not None:
                activated = (e["k"] == "act" and e["opt"] == "rdwr") or \
                    (e["k"] == "cb" and e["opt"] == "rdwr" and e["name"] == "connect") or \
                    (e["k"] == "fe" and (e["op"] == "exchange" or e.get("cls") == "other-sense"))
                passed = e["k"] in ("term", "end") or (e["k"] == "fe" and e.get("cls") in ("rdwr", "card", "dep-listen"))
                if activated:
                    R.count("default_discover_activated")
                    pending = None
                elif passed:
                    t = pending["ret"]
                    p2p = bool(t.sel_res and t.sel_res[0] & 0x40)
                    V.append(("discover-default/%s-not-activated%s" % ("p2p-capable-tag" if p2p else "tag", llcp_state),
                              "rdwr without llcp, default on-discover: the discovered tag %s was not activated" % t))
                    break
            if e["k"] == "fe_end" and e["op"] == "sense" and ev[e["ref"]].get("cls") == "rdwr" \
                    and e.get("exc") is None and e["ret"] is not None:
                ent = found_by.get(id(e["ret"]))
                if ent is not None and (ent.spec["e"] == "tag" or (ent.spec["e"] == "multi" and e["ret"].sel_res)):
                    pending = e

    # ---- beep-on-connect ----------------------------------------------------------------------------------
    d = opts.get("rdwr")
    if d is not None and "rdwr" in left and not injected:
        # "automatically perform this functionality when a tag is successfully detected AND the 'on-connect'
        #  function returns a true value. Defaults to True."
        on = len([e for e in drv if e["call"].op == "led_on"])
        beep = True if d.get("beep") is None else bool(d["beep"])
        want = n_true["rdwr"] if beep else 0
        if on != want:
            V.append(("beep/%s" % ("missing" if on < want else "unwanted"),
                      "%d beeps for %d true on-connect results, beep-on-connect=%r" % (on, n_true["rdwr"], d.get("beep"))))
        R.count("beep_checked")
    return V


# =================================================================================================
# reference model of the connect() docstring for the combo cases (one device, present from the start)
# =================================================================================================
def model_handlers(case):
    """-> (left, handlers, context): the option groups that, by the connect() docstring, activate the device of
    this case and so produce on-connect.  Written from the docstring and the protocol facts in ENV_CLASSES only.
    Where the docstring leaves the choice open (a user on-discover accepts a dual protocol target for rdwr while
    llcp is active as well) every such group is a handler and any of them may come first."""
    opts = case["opts"]
    left = expected_left(opts)
    f = ENV_CLASSES[case["envclass"]]
    H, ctx = [], {}
    if f is None:
        return left, H, ctx
    d = opts.get("rdwr")
    if "rdwr" in left and f["role"] == "poll":
        # "'targets' ... The default is ('106A', '106B', '212F')."
        brtys = d.get("targets") or ["106A", "106B", "212F"]
        flavour = "12fc" if d.get("startup") == "sc12fc" else "wild"
        seen = f["seen"].get(flavour, f["seen"].get("*"))
        if f["brty"] in brtys and seen is not None:
            tag, ind = seen
            if d.get("discover") is not None:
                # "The target will be further activated only if this function returns a true value."
                ok = bool(rv_value(d["discover"]))
                ctx["rdwr"] = "user-discover"
            else:
                # "The default function depends on the 'llcp' option, if present then the function returns True only
                #  if the target does not indicate peer to peer protocol support, otherwise it returns True for all
                #  targets."   (llcp on-startup: "Any other value removes the 'llcp' option.")
                ok = not ("llcp" in left and ind)
                ctx["rdwr"] = "default-discover+llcp-%s" % ("kept" if "llcp" in left else
                                                             ("removed" if opts.get("llcp") is not None else "absent"))
                if ind:
                    ctx["p2p-indicated"] = True
            if ok and tag:
                H.append("rdwr")
    d = opts.get("llcp")
    if "llcp" in left:
        # "'role' ... As Initiator the local device will try to discover a remote device. As Target it waits for
        #  being discovered. The default is to alternate between both roles."
        role = d.get("role")
        if f["role"] == "poll" and f["dep"] and role in (None, "initiator"):
            # 'brs': 0 restricts the Initiator to 106 kbps (a FeliCa peer is met at 212 kbps)
            if f["brty"] == "106A" or (f["brty"] == "212F" and d.get("brs") != 0):
                H.append("llcp")
                ctx["llcp"] = "initiator"
        if f["role"] == "pi" and role in (None, "target"):
            H.append("llcp")
            ctx["llcp"] = "target"
    d = opts.get("card")
    if "card" in left and f["role"] == "reader" and f["brty"] in ("212F", "424F") and d.get("startup") == f["brty"]:
        # card emulation exists for Type 3 Tags (nfc.tag.emulate); "The default function always returns True."
        if d.get("discover") is None or bool(rv_value(d["discover"])):
            H.append("card")
            ctx["card"] = "default-discover" if d.get("discover") is None else "user-discover"
    return left, H, ctx


def check_model(case, tr, R):
    """the predicted side of the connect() contract: which group activates the device (and that one does)"""
    import nfc.tag
    import nfc.llcp.llc
    V = []
    opts, envc = case["opts"], case["envclass"]
    rd, ll, ce = case["cell"]
    R.count("combo_runs")
    R.count("combo_env_" + envc)
    R.count("combo_rdwr_" + rd)
    R.count("combo_llcp_" + ll)
    R.count("combo_card_" + ce)
    R.count("combo_life_" + case["life"])
    for g in ("rdwr", "llcp", "card"):
        d = opts.get(g)
        if d is None:
            continue
        R.count("combo_startup_%s_%s" % (g, d.get("startup") or "default"))
        for name in ("discover", "connect", "release"):
            if name in d or name != "discover":
                R.count("combo_cb_%s_%s" % (name, code_class(d.get(name))))
    left, H, ctx = model_handlers(case)
    R.seen("combo_left", "+".join(left) or "nothing")
    if tr.exc is not None or tr.ret is False:
        R.count("combo_ended_by_exception")         # judged by the trace monitors
        return V
    R.count("combo_judged")
    # activations: the activation function reported success (ground truth), or on-connect / on-release was called
    acts = [e for e in tr.ev if e["k"] in ("cb", "act") and e["opt"] in left and
            ((e["k"] == "cb" and e["name"] in ("connect", "release")) or (e["k"] == "act" and e["ok"]))]
    groups = []
    for e in acts:
        if e["opt"] not in groups:
            groups.append(e["opt"])
            R.count("combo_act_%s_%s" % (envc, e["opt"]))
    # (1) a group that, by the docstring, does not take this device
    for g in groups:
        if g not in H:
            V.append(("model/activated-by-non-handler/%s/%s/%s" % (g, envc, ctx.get(g, "-")),
                      "on-connect/on-release of %s for a device (%s) that this option does not handle with these "
                      "options" % (g, envc)))
    if ctx.get("p2p-indicated"):
        R.count("model_default_discover_p2p_" + ctx["rdwr"].split("+")[1])
    if not H:
        R.count("model_no_handler")
        # nothing can ask for another value: "returns None ... when the 'terminate' function returned a true value"
        if tr.ret is not None and not groups:
            V.append(("model/return/no-handler-not-None/" + envc,
                      "no option handles the device (%s) but connect() returned %r" % (envc, tr.ret)))
        return V
    for g in H:
        R.count("model_handler_" + g)
        # the interplay this family is about: a group removed by its own on-startup next to a handler that relies
        # on documented defaults
        for name in ("discover", "connect", "release"):
            if opts[g].get(name) is None and (name != "discover" or g != "llcp"):
                for g0 in ("rdwr", "llcp", "card"):
                    if opts.get(g0) is not None and g0 not in left:
                        R.count("model_removed_%s_default_%s_%s" % (g0, g, name))
    if len(H) > 1:
        R.count("model_multi_handler")
    # (2) the device is in the field from the start: one of its handlers activates it
    activated = any(g in H for g in groups)
    R.count("model_live_checked")
    if not activated:
        what = ",".join("%s:%s" % (h, ctx.get(h, "-")) for h in H)
        V.append(("model/not-activated/%s/%s" % (envc, what),
                  "device %s is present, %s must activate it (options left: %s) but no activation took place and "
                  "connect() returned %r" % (envc, "/".join(H), "+".join(left), tr.ret)))
        return V
    # (3) one handler only: the return value follows from its callbacks' results
    if len(H) == 1 and not V:
        h = H[0]
        c, r = opts[h].get("connect"), opts[h].get("release")
        ret = tr.ret
        cls = {"rdwr": nfc.tag.Tag, "llcp": nfc.llcp.llc.LogicalLinkController, "card": nfc.tag.TagEmulation}[h]
        if c is not None and not rv_value(c):
            ok, want = isinstance(ret, cls), cls.__name__
        elif r is None:
            # "wait until the tag is no longer present and then return True" (ASSUMPTIONS: None when terminate()
            # ended the activation)
            ok, want = ret is True or (ret is None and case["life"] == "stay"), "True"
        elif rv_value(r):
            val = rv_value(r)
            ok, want = type(ret) is type(val) and (r == "O" or ret == val), repr(val)
        else:
            ok, want = ret is None, "None"
        R.count("model_return_checked")
        if not ok:
            V.append(("model/return/%s/%s" % (h, "connect-false" if (c is not None and not rv_value(c)) else
                                              ("release-default" if r is None else
                                               ("release-true" if rv_value(r) else "release-false"))),
                      "%s handles %s, on-connect %r / on-release %r: expected %s, connect() returned %r"
                      % (h, envc, c, r, want, ret)))
    return V


def _open_at_end(ev, has):
    st = False
    for e in ev:
        if e["k"] == "act":
            st = bool(e["ok"]) and e["opt"] in has and not has[e["opt"]]["connect"]
        elif e["k"] == "cb" and e["name"] == "connect":
            st = bool(e["ret"])
        elif e["k"] == "cb" and e["name"] == "release":
            st = False
    return st


def do_connect(case, R, report=True):
    tr = run_connect(case)
    R.count("connect_runs")
    env = case["env"]
    if env is not None:
        kinds = sorted(set(e["e"] + (":" + e["type"] if e["e"] == "tag" else "") for e in env["entities"])) or ["empty"]
        for k in kinds:
            R.count("env_" + k)
        if env.get("fail"):
            R.count("env_hostlink_failure")
    V = check_connect(case, tr, R)
    if case.get("model"):
        V = V + check_model(case, tr, R)
    if case.get("expect_reactivation") and tr.exc is None and tr.ret is None:
        g = case["expect_reactivation"]
        n = len([e for e in tr.ev if e["k"] == "act" and e["ok"] and e["opt"] == g])
        R.count("reactivation_checked")
        if n < 2:
            V.append(("sustained/not-reactivated/" + g, "a device that can be activated several times was activated %d "
                      "time(s) by %s in a connect() call with 40 terminate() polls and on-release results that keep "
                      "connect() going" % (n, g)))
    if case.get("family"):
        R.count(case["family"] + "_runs")
        if case["family"] == "stubborn" and tr.exc is None and any(e["k"] == "term" and e["val"] is True for e in tr.ev):
            p = next(e for e in tr.ev if e["k"] == "term" and e["val"] is True)
            if _open_at_end(tr.ev[:p["i"]], {"llcp": {"connect": case["opts"]["llcp"].get("connect") is not None}}):
                R.count("stubborn_%s_terminated_in_activation" % case["env"]["entities"][0]["e"])
    R.case(case, nontrivial=True)
    for sig, what in V:
        R.violation(sig, what, case)
    return tr, V


# =================================================================================================
# sense()
# =================================================================================================
def real_device(name, clock, found=None):
    """instance of a real driver class on a stub host link -> (device, hostlog).  __init__ is not run (it needs a
    transport); the sense_*/mute methods and, for the PN53x family, the real Chipset methods are the real code."""
    import importlib
    import logging
    import struct
    import nfc.clf
    from vf.core import vclock
    hostlog = []
    idm, pmm = bytes.fromhex("0102030405060708"), bytes.fromhex("00F1000000014300")
    sensb_res = bytes.fromhex("50E5DD3DC900000011008185")         # the SENSB_RES of the sense() docstring
    # ATR_RES after D5 01: NFCID3t, DID, BSt, BRt, TO, PPt, general bytes
    atr_res_tail = bytes.fromhex("01FE0102030405065354" "00" "00" "00" "08" "32") + b"Ffm\x01\x01\x11"
    logger = logging.getLogger("vf.c18.real")
    if name == "udp":
        mod = importlib.import_module("nfc.clf.udp")
        vclock.patch([mod], clock)
        dev = object.__new__(mod.Device)
        dev.addr = ("127.0.0.1", 54321)
        dev._path = "udp:sim"
        dev.socket = None
        dev.rcvd_data = None
        dev._chipset_name = "UDP"
        dev._create_socket = lambda: None

        def send(brty, data, addr):
            hostlog.append(("send", brty, bytes(data)))
            dev._last = (brty, bytes(data))

        def recv(timeout, *brty):
            clock.advance(timeout)
            b, d = dev._last
            if found is not None and b == found and b.endswith("F") and d[1:2] == b"\x00":
                r = b"\x01" + idm + pmm
                return b, bytearray(bytes([len(r) + 1]) + r), dev.addr
            if found == "106B" and b == found and d[0:1] == b"\x05":
                return b, bytearray(sensb_res), dev.addr
            raise nfc.clf.TimeoutError("no data")
        dev._send_data, dev._recv_data = send, recv
        return dev, hostlog
    if name == "rcs380":
        mod = importlib.import_module("nfc.clf.rcs380")
        vclock.patch([mod], clock)

        class Chip(object):
            in_set_protocol_defaults = bytearray(16)

            def __init__(self):
                self.brty = None

            def in_set_rf(self, brty_send, brty_recv=None):
                self.brty = brty_send
                hostlog.append(("in_set_rf", brty_send))

            def in_set_protocol(self, data=None, **kw):
                hostlog.append(("in_set_protocol",))

            def switch_rf(self, switch):
                hostlog.append(("switch_rf", switch))

            def in_comm_rf(self, data, timeout):
                hostlog.append(("in_comm_rf", bytes(data)))
                clock.advance(timeout / 1000.0)
                if found is not None and self.brty == found and found.endswith("F") and bytes(data[1:2]) == b"\x00":
                    r = b"\x01" + idm + pmm
                    return bytearray(bytes([len(r) + 1]) + r)
                if found == "106B" and self.brty == found and bytes(data[0:1]) == b"\x05":
                    return bytearray(sensb_res)
                raise mod.CommunicationError(struct.pack("<L", 0x80))

            def close(self):
                pass
        dev = object.__new__(mod.Device)
        dev.chipset = Chip()
        dev.log = logger
        dev._path = "usb:sim"
        dev._chipset_name = "Port-100 stub"
        return dev, hostlog
    modname, devcls, chipcls = {"pn531": ("pn531", "Device", "Chipset"), "pn532": ("pn532", "Device", "Chipset"),
                                "pn533": ("pn533", "Device", "Chipset"), "rcs956": ("rcs956", "Device", "Chipset"),
                                "acr122": ("acr122", "Device", "Chipset"), "arygonA": ("arygon", "DeviceA", "ChipsetA"),
                                "arygonB": ("arygon", "DeviceB", "ChipsetB")}[name]
    mod = importlib.import_module("nfc.clf." + modname)
    base = importlib.import_module("nfc.clf.pn53x")
    mods = [mod, base] + [importlib.import_module("nfc.clf." + m) for m in ("pn531", "pn532", "pn533", "rcs956")]
    vclock.patch(mods, clock)
    chip = object.__new__(getattr(mod, chipcls))
    chip.log = logger

    class Transport(object):
        TYPE = "USB"

        def write(self, data):
            hostlog.append(("raw", bytes(data)))

        def read(self, timeout=0):
            raise IOError(errno.ETIMEDOUT, "stub")

        def close(self):
            pass
    chip.transport = Transport()
    status_prefix = b"\x00" if name == "pn533" else b""

    def command(cmd_code, cmd_data, timeout):
        data = bytes(cmd_data)
        hostlog.append((cmd_code, data))
        clock.advance(0.001)
        if cmd_code == 0x4A:
            code = data[1]
            want = {"106A": 0, "212F": 1, "424F": 2, "106B": 3}.get(found)
            if want == 3 and code == 3:
                # Tg, ATQB (SENSB_RES), ATTRIB_RES length, ATTRIB_RES: the chipset has activated the ISO tag
                return bytearray(b"\x01\x01" + sensb_res + b"\x01\x00")
            if want is not None and code == want:
                if code == 0 and modname in ("pn531",) or name == "arygonA":
                    # PN531: SENS_RES in the other byte order, cascade tag included in the NFCID1
                    return bytearray(b"\x01\x01\x44\x00\x00\x08" + bytes.fromhex("8805A1123456789A"))
                if code == 0:
                    return bytearray(b"\x01\x01\x00\x44\x00\x07" + bytes.fromhex("05A1123456789A"))
                r = b"\x01" + idm + pmm
                return bytearray(b"\x01\x01" + bytes([len(r) + 1]) + r)
            return bytearray(b"\x00")
        if cmd_code == 0x06:
            n = len(data) // 2
            vals = bytes(0x26 if data[2 * i:2 * i + 2] == b"\x63\x39" else 0 for i in range(n))
            return bytearray(status_prefix + vals)
        if cmd_code == 0x08:
            return bytearray(b"\x00")
        if cmd_code in (0x46, 0x56):
            if found == "dep":
                return bytearray(b"\x00\x01" + atr_res_tail)         # status, Tg, ATR_RES from the NFCID3t on
            return bytearray(b"\x01")
        if cmd_code == 0x42 and found == "106B":
            # InCommunicateThru: DESELECT is acknowledged, WUPB is answered with the SENSB_RES
            return bytearray(b"\x00" + (sensb_res if data[0:1] == b"\x05" else data[0:1]))
        return bytearray(b"")
    chip.command = command
    dev = object.__new__(getattr(mod, devcls))
    dev.chipset = chip
    dev.log = logger
    dev._path = "usb:sim"
    dev._chipset_name = name + " stub"
    return dev, hostlog


def run_sense(case):
    import nfc.clf
    from vf.core.vclock import VClock
    from vf.sim import world
    clock = VClock()
    world.patch_time(clock)
    targets = build_targets(case["targets"])
    calls = []          # (op, target, result|None, exc|None, t)
    if case["driver"] == "world":
        clf, dev = world.frontend(case["env"], clock)
        hostlog = None
    else:
        dev, hostlog = real_device(case["driver"], clock, case.get("found"))
        clf = nfc.clf.ContactlessFrontend()
        clf.device = dev
    # log the Device interface calls of whatever device it is (instance level wrappers)
    for op in ("mute", "sense_tta", "sense_ttb", "sense_ttf", "sense_dep"):
        def w(*a, _orig=getattr(dev, op), _op=op):
            rec = [_op, a[0] if a else None, None, None, clock.time()]
            calls.append(rec)
            try:
                rec[2] = _orig(*a)
            except BaseException as x:
                rec[3] = x
                raise
            return rec[2]
        setattr(dev, op, w)
    kw = {}
    for k in ("iterations", "interval"):
        if case.get(k) is not None:
            kw[k] = case[k]
    t0 = clock.time()
    ret = exc = None
    try:
        ret = clf.sense(*targets, **kw)
    except BaseException as e:          # noqa
        exc = e
    return {"targets": targets, "calls": calls, "ret": ret, "exc": exc, "t0": t0, "t1": clock.time(),
            "hostlog": hostlog, "dev": dev}


def check_sense(case, o, R):
    import nfc.clf
    V = []
    tspecs = case["targets"]
    targets, calls, ret, exc = o["targets"], o["calls"], o["ret"], o["exc"]
    n = len(targets)
    drv = case["driver"]
    sense_calls = [c for c in calls if c[0] != "mute"]
    if n >= 2:
        R.count("sense_mixed_lists")
    R.seen("sense_list_sizes", n)
    for c in sense_calls:
        if isinstance(c[3], nfc.clf.UnsupportedTargetError):
            R.count("driver_said_unsupported")
    reach = [t for t, s in zip(targets, tspecs) if not s.get("invalid") and (s["brty"][-1] in "ABF" or s.get("atr_req"))]
    if n >= 2 and any(t.get("invalid") for t in tspecs):
        R.count("sense_invalid_in_list")
        if drv != "world":
            R.count("real_invalid_in_list")
    # ---- never raises for >= 2 targets.  Boundary (d): a ValueError for a target with invalid attributes is not
    #      judged - but only when it is that target which raised ("any target that is not supported or has invalid
    #      attributes is just ignored"): a supported or unsupported target next to it must not raise ----------------
    if exc is not None:
        if n >= 2:
            culprit = sense_culprit(exc, targets, reach, sense_calls, max(1, case.get("iterations") or 1))
            if isinstance(exc, ValueError) and culprit is not None and tspecs[culprit].get("invalid"):
                R.count("sense_invalid_target_raised_not_judged")
            else:
                V.append(("sense/multi-target-raises/%s" % exc_sig(exc),
                          "sense() with %d targets raised %r (while handling target %s)" % (n, exc, culprit)))
        else:
            R.count("sense_single_target_raised")
        return V, False
    if n >= 2 and any(t.get("invalid") for t in tspecs):
        R.count("sense_invalid_in_list_ignored")
    # ---- order / first found --------------------------------------------------------------------------------
    for k, c in enumerate(sense_calls):
        if not reach or c[1] is not reach[k % len(reach)]:
            V.append(("sense/order", "driver call %d did not get the target expected from the order given" % k))
            break
    found = [c for c in sense_calls if c[2] is not None]
    if found:
        R.count("sense_found_checked")
        first = found[0]
        if drv != "world":
            R.count("real_found_" + ("dep" if first[2].atr_res else first[2].brty))
        if ret is not first[2]:
            V.append(("sense/not-first-found", "sense() returned %s although the driver found %s first" % (ret, first[2])))
        if sense_calls[-1] is not first:
            V.append(("sense/continues-after-found", "driver sense calls after a target had been found"))
    else:
        R.count("sense_nothing_checked")
        if ret is not None:
            V.append(("sense/returns-without-found", "sense() returned %r but the driver found nothing" % (ret,)))
        # ---- field off ---------------------------------------------------------------------------------------
        if not calls or calls[-1][0] != "mute":
            V.append(("sense/field-left-on", "nothing found but the last driver call is %s, not mute()"
                      % (calls[-1][0] if calls else None)))
        if drv == "world" and o["dev"].field:
            V.append(("sense/field-left-on", "nothing found but the carrier is still on"))
        if o["hostlog"] is not None and drv not in ("udp",):
            last = o["hostlog"][-1] if o["hostlog"] else None
            off = last is not None and (last[0:2] == ("switch_rf", "off") or
                                        (last[0] == 0x32 and last[1][0:1] == b"\x01" and not last[1][1] & 1))
            if not off:
                V.append(("sense/field-left-on/host", "last host command after finding nothing is %r" % (last,)))
        # ---- iterations / interval ---------------------------------------------------------------------------
        its = max(1, case.get("iterations") or 1)
        if reach:
            passes = len(sense_calls) / float(len(reach))
            if passes != its:
                V.append(("sense/iterations", "%s passes over the targets for iterations=%r"
                          % (passes, case.get("iterations"))))
            elif its > 1:
                iv = case["interval"] if case.get("interval") is not None else 0.1
                starts = [sense_calls[i * len(reach)][4] for i in range(its)]
                if any(b - a < iv - 1e-9 for a, b in zip(starts, starts[1:])):
                    V.append(("sense/interval", "iterations start less than interval=%s apart" % iv))
                R.count("sense_interval_checked")
    return V, bool(sense_calls)


def sense_culprit(exc, targets, reach, sense_calls, iterations):
    """index of the target sense() was handling when `exc` escaped: the driver call that raised it, else the loop
    variable of the sense() frame in the traceback, else the first target in processing order that does not reach
    the driver once all recorded driver calls are used up"""
    for c in sense_calls:
        if c[3] is exc:
            return next((i for i, t in enumerate(targets) if t is c[1]), None)
    tb = exc.__traceback__
    while tb is not None:
        code = tb.tb_frame.f_code
        if code.co_name == "sense" and code.co_filename.replace("\\", "/").endswith("nfc/clf/__init__.py"):
            cur = tb.tb_frame.f_locals.get("target")
            for i, t in enumerate(targets):
                if t is cur:
                    return i
        tb = tb.tb_next
    k = 0
    for _ in range(iterations):
        for i, t in enumerate(targets):
            if any(t is x for x in reach):
                if k >= len(sense_calls):
                    return i
                k += 1
            elif k == len(sense_calls):
                return i
    return None


def do_sense(case, R):
    o = run_sense(case)
    V, reached = check_sense(case, o, R)
    R.count("sense_runs")
    if case["driver"] != "world":
        R.count("real_driver_sense")
        R.count("real_" + case["driver"])
    R.case(case, nontrivial=reached or bool(V))
    for sig, what in V:
        R.violation(sig, what, case)
    return o, V


# =================================================================================================
# exchange()
# =================================================================================================
def local_target(step):
    import nfc.clf
    lt = nfc.clf.LocalTarget(step.get("brty", "106A"))
    lt.sensf_res = bytearray.fromhex("01 02FE010203040506 FFFFFFFFFFFFFFFF 12FC")
    lt.sens_res, lt.sdd_res, lt.sel_res = bytearray(b"\x01\x01"), bytearray(b"\x08\x01\x02\x03"), bytearray(1)
    lt.sensb_res = bytearray(12)
    if step.get("dep"):
        # "An P2P Target is selected when the atr_res attribute is set."
        lt.sel_res = bytearray(b"\x40")
        lt.sensf_res = bytearray.fromhex("01 01FE010203040506 0000000000000000 FFFF")
        lt.atr_res = bytearray(b"\xD5\x01" + bytes.fromhex("01FE0102030405065354") + b"\x00\x00\x00\x08\x32Ffm\x01\x01\x13")
    return lt


def short_connect(clf, step):
    """a short connect() run on the frontend under test (sequence step "connect")"""
    n = [0]

    def terminate():
        n[0] += 1
        return n[0] > step["j"]

    def on_connect(obj):
        return step["connect"] == "T"

    def card_startup(target):
        target.brty = "212F"
        target.sensf_res = bytearray.fromhex("01 02FE010203040506 FFFFFFFFFFFFFFFF 12FC")
        return target
    opt = step["opt"]
    if opt == "rdwr":
        options = {"rdwr": {"on-connect": on_connect, "iterations": 1, "targets": step.get("targets", ["106A", "212F"]),
                            "beep-on-connect": False}}
    elif opt == "card":
        options = {"card": {"on-connect": on_connect, "on-startup": card_startup}}
    else:
        options = {"llcp": {"on-connect": on_connect, "role": {"llcp-i": "initiator", "llcp-t": "target"}[opt]}}
    return clf.connect(terminate=terminate, **options)


def do_exchange(case, R):
    import nfc.clf
    from vf.core.vclock import VClock
    world = world_mod()
    clock = VClock()
    world.patch_time(clock)
    clf, dev = world.frontend(case["env"], clock)
    V = []
    st = {"current": None, "prev": None}    # what the latest discovery found (object or None) / the one before
    judged = False

    def track(name):
        orig = getattr(clf, name)

        def f(*a, **kw):
            st["prev"], st["current"] = (st["current"] if st["current"] is not None else st["prev"]), None
            r = orig(*a, **kw)              # an exception leaves "nothing found"
            st["current"] = r
            return r
        setattr(clf, name, f)
    track("sense")
    track("listen")
    for step in case["steps"]:
        if step["op"] == "sense":
            ts = build_targets([{"brty": b} if isinstance(b, str) else b for b in step["targets"]])
            if any(t.atr_req is not None for t in ts):
                R.count("exchange_seq_sense_dep")
            kw = {k: step[k] for k in ("iterations", "interval") if step.get(k) is not None}
            if kw:
                R.count("exchange_seq_sense_options")
            try:
                clf.sense(*ts, **kw)
            except (nfc.clf.UnsupportedTargetError, ValueError):
                R.count("exchange_discovery_raised")
        elif step["op"] == "listen":
            try:
                clf.listen(local_target(step), 0.2)
            except (nfc.clf.UnsupportedTargetError, ValueError):
                R.count("exchange_discovery_raised")
        elif step["op"] == "connect":
            n0 = len(dev.calls)
            try:
                r = short_connect(clf, step)
            except world.Bound as e:
                R.inconc("run-away guard in a connect() step of an exchange sequence: %s" % e)
                break
            R.count("exchange_seq_connect_steps")
            R.seen("exchange_seq_connect_returns", type_name(r))
            # inside connect(): every data exchange is with the target of the latest discovery
            for c in dev.calls[n0:]:
                if c.op.startswith("send_") and not c.fresh:
                    V.append(("exchange/stale-target/inside-connect", "a data exchange inside connect() handed the "
                              "driver a target that the latest discovery did not return"))
                    break
            st["after_connect"] = True
        else:
            n0 = len(dev.calls)
            ret = exc = None
            try:
                ret = clf.exchange(bytearray.fromhex(step["data"]), 0.05)
            except nfc.clf.CommunicationError as e:
                exc = e
            new = dev.calls[n0:]
            judged = True
            current, prev = st["current"], st["prev"]
            R.count("exchange_checked")
            if st.pop("after_connect", None):
                R.count("exchange_after_connect")
            if current is None:
                R.count("exchange_after_nothing")
                if new:
                    stale = new[0].target is prev and prev is not None
                    V.append(("exchange/" + ("stale-target-after-nothing-found" if stale else "driver-call-without-target"),
                              "exchange() after a discovery that found nothing called %s" % new[0].op))
                elif ret is not None or exc is not None:
                    V.append(("exchange/not-None-without-target", "exchange() without a target gave %r / %r" % (ret, exc)))
            else:
                if prev is not None:
                    R.count("exchange_after_new_target")
                if current.atr_res is not None or getattr(current, "atr_req", None) is not None:
                    R.count("exchange_dep_target")
                want = "send_cmd_recv_rsp" if isinstance(current, nfc.clf.RemoteTarget) else "send_rsp_recv_cmd"
                if len(new) != 1:
                    V.append(("exchange/driver-calls", "%d driver calls for one exchange()" % len(new)))
                else:
                    if new[0].target is not current:
                        stale = new[0].target is prev and prev is not None
                        V.append(("exchange/%s" % ("stale-target" if stale else "wrong-target"),
                                  "exchange() handed the driver a target that the latest discovery did not return"))
                    if new[0].op != want:
                        V.append(("exchange/direction", "exchange() used %s for a %s" % (new[0].op, type(current).__name__)))
                    R.seen("exchange_directions", new[0].op)
    R.case(case, nontrivial=judged)
    for sig, what in V:
        R.violation(sig, what, case)
    return V


# -------------------------------------------------------------------------------------------------
# exchange() against a concurrent sense()/listen(): who gets the frontend lock first is decided here
# -------------------------------------------------------------------------------------------------
class GateLock(object):
    """stands in for ContactlessFrontend.lock and delegates to a real threading.Lock; a thread registered in
    `gates` announces that it has arrived at the lock and competes for it only once the harness says so (the other
    contender wins the race)"""

    def __init__(self):
        import threading
        self._lock = threading.Lock()
        self._ident = threading.get_ident
        self.gates = {}

    def acquire(self, *a, **kw):
        g = self.gates.get(self._ident())
        if g is not None and not g["passed"]:
            g["passed"] = True
            g["arrived"].set()
            if not g["go"].wait(60):
                g["timeout"] = True
        return self._lock.acquire(*a, **kw)

    def release(self):
        self._lock.release()

    def locked(self):
        return self._lock.locked()

    def __enter__(self):
        self.acquire()
        return self

    def __exit__(self, *exc):
        self.release()


XRACE_ENV = {"entities": [{"e": "tag", "type": "t2t"}, {"e": "tag", "type": "t3t"},
                          {"e": "reader", "tech": "212F", "cmds": ["rr", "poll", "rr", "poll"], "sessions": 50},
                          {"e": "p2p-target", "tech": "acm", "end": "never", "sessions": 50},
                          {"e": "p2p-initiator", "tech": "424F", "end": "never", "sessions": 50}],
             "unsupported": ["848A"]}
XRACE_FIRST = [{"op": "sense", "targets": ["106A"]}, {"op": "sense", "targets": ["212F"]},
               {"op": "sense", "targets": ["106B", "106A"]},
               {"op": "sense", "targets": [{"brty": "106A", "atr_req": 16}]},
               {"op": "listen", "brty": "212F"}, {"op": "listen", "dep": True}]
XRACE_SECOND = [{"op": "sense", "targets": ["106B"]}, {"op": "sense", "targets": ["848A"]},
                {"op": "sense", "targets": ["848A", "106B"]}, {"op": "listen", "brty": "106A"},
                {"op": "listen", "brty": "106B"},
                {"op": "sense", "targets": ["106A"]}, {"op": "sense", "targets": ["212F"]},
                {"op": "sense", "targets": [{"brty": "424F", "atr_req": 20}]},
                {"op": "listen", "brty": "212F"}, {"op": "listen", "dep": True}]


def gen_xrace_case(rng, k=None):
    if k is not None:           # the grid first x second, dealt over the shards
        first, second = XRACE_FIRST[k % len(XRACE_FIRST)], XRACE_SECOND[(k // len(XRACE_FIRST)) % len(XRACE_SECOND)]
        gone = (k // (len(XRACE_FIRST) * len(XRACE_SECOND))) % 2 == 1
    else:
        first, second, gone = rng.choice(XRACE_FIRST), rng.choice(XRACE_SECOND), rng.random() < 0.3
    case = {"kind": "xrace", "env": XRACE_ENV, "first": first, "second": second,
            "data": rng.choice(["3000", "0600ffff0100", "3004"])}
    if gone:
        case["second"] = first          # the same discovery again, after the counterpart has been taken away
        case["first_leaves"] = True
    return case


def do_xrace(case, R):
    """Two threads on one frontend ("The methods of the ContactlessFrontend class are thread-safe").  Thread W
    enters exchange(); the main thread's sense()/listen() gets the frontend lock first and completes; then W
    proceeds.  When W finally exchanges, the latest discovery is the main thread's: the driver must not see the
    target of the earlier one."""
    import threading
    import nfc.clf
    from vf.core.vclock import VClock
    world = world_mod()
    clock = VClock()
    world.patch_time(clock)
    clf, dev = world.frontend(case["env"], clock)
    clf.lock = GateLock()
    V = []

    def discover(step):
        try:
            if step["op"] == "sense":
                return clf.sense(*build_targets([{"brty": b} if isinstance(b, str) else b for b in step["targets"]]))
            return clf.listen(local_target(step), 0.2)
        except (nfc.clf.UnsupportedTargetError, ValueError):
            return None
    prev = discover(case["first"])
    if prev is None:
        R.case(case, nontrivial=False)
        R.count("xrace_first_found_nothing")
        return V
    gate = {"arrived": threading.Event(), "go": threading.Event(), "passed": False}
    result = {}

    def worker():
        clf.lock.gates[threading.get_ident()] = gate
        try:
            result["ret"] = clf.exchange(bytearray.fromhex(case["data"]), 0.05)
        except BaseException as e:          # noqa
            result["exc"] = e
    th = threading.Thread(target=worker, name="c18-xrace")
    th.daemon = True
    th.start()
    for _ in range(1200):                   # wall clock guard only: <= 60 s, then inconclusive
        if gate["arrived"].wait(0.05) or not th.is_alive():
            break
    if not gate["arrived"].is_set():
        th.join(1)
        if th.is_alive():
            R.inconc("xrace: exchange() neither reached the frontend lock nor returned")
        else:
            R.count("xrace_no_lock_arrival")        # exchange() ended without asking for the lock: sequential use
        R.case(case, nontrivial=False)
        return V
    if case.get("first_leaves") and dev.partner is not None:
        dev.partner.gone = True
    n_before = len(dev.calls)
    try:
        current = discover(case["second"])
    except BaseException:           # never leave the other thread parked at the gate
        gate["go"].set()
        th.join(30)
        raise
    mark = len(dev.calls)
    early = [c for c in dev.calls[n_before:mark] if c.op.startswith("send_")]
    gate["go"].set()
    th.join(30)
    if th.is_alive() or gate.get("timeout"):
        R.inconc("xrace: the exchange() thread did not finish after the lock was free")
        R.case(case, nontrivial=False)
        return V
    new = [c for c in dev.calls[mark:] if c.op.startswith("send_")]
    ret, exc = result.get("ret"), result.get("exc")
    R.count("xrace_checked")
    R.count("xrace_first_" + ("listen" if isinstance(prev, nfc.clf.LocalTarget) else "sense")
            + ("_dep" if prev.atr_res is not None else ""))
    if early:
        V.append(("exchange/race/lock-not-held", "the exchange() of the waiting thread reached the driver while "
                  "another thread's discovery held the frontend lock"))
    if current is None:
        R.count("xrace_second_nothing")
        if new:
            stale = new[0].target is prev
            V.append(("exchange/race/" + ("stale-target-after-nothing-found" if stale else "driver-call-without-target"),
                      "exchange() that got the lock after another thread's discovery had found nothing called %s with "
                      "%s" % (new[0].op, "the target of the EARLIER discovery" if stale else "some target")))
        elif not (exc is None and ret is None) and not isinstance(exc, IOError):
            V.append(("exchange/race/not-None-without-target", "exchange() without a current target gave %r / %r"
                      % (ret, exc)))
    else:
        R.count("xrace_second_other")
        want = "send_cmd_recv_rsp" if isinstance(current, nfc.clf.RemoteTarget) else "send_rsp_recv_cmd"
        if exc is not None and not isinstance(exc, nfc.clf.CommunicationError):
            V.append(("exchange/race/raises/" + exc_sig(exc), "exchange() raised %r" % (exc,)))
        elif len(new) != 1:
            V.append(("exchange/race/driver-calls", "%d driver calls for one exchange()" % len(new)))
        else:
            if new[0].target is not current:
                stale = new[0].target is prev
                V.append(("exchange/race/%s" % ("stale-target" if stale else "wrong-target"),
                          "exchange() that got the lock after another thread's discovery handed the driver %s"
                          % ("the target of the EARLIER discovery" if stale else "a target no discovery returned")))
            if new[0].op != want:
                V.append(("exchange/race/direction", "exchange() used %s for a %s" % (new[0].op, type(current).__name__)))
    R.case(case, nontrivial=True)
    for sig, what in V:
        R.violation(sig, what, case)
    return V


# =================================================================================================
def run(desc, R, rng):
    shard, nsh = desc["shard"], 16
    if desc.get("systematic"):
        for case in systematic_connect_cases(shard, nsh):
            do_connect(case, R)
            R.count("systematic_connect_cases")
    for i in range(desc["connect"]):
        case = gen_connect_case(rng)
        tr, V = do_connect(case, R)
        if i < 2:
            R.sample({"connect_case": case, "returned": type_name(tr.ret) if tr.exc is None else repr(tr.exc),
                      "callbacks": [(e["opt"], e["name"], type_name(e["ret"]) if e["name"] == "startup" else
                                    (bool(e["ret"]), type(e["ret"]).__name__)) for e in tr.ev if e["k"] == "cb"][:12],
                      "driver_calls": [e["call"].op for e in tr.ev if e["k"] == "drv"][:30]})
    for i in range(desc.get("sustained", 0)):
        do_connect(gen_sustained_live_case(rng) if i % 3 == 2 else gen_sustained_case(rng), R)
    for i in range(desc.get("stubborn", 0)):
        do_connect(gen_stubborn_case(rng, i), R)
    for i in range(desc["sense"]):
        do_sense(gen_sense_case(rng), R)
    # the hypothesis witness and its neighbours on every real driver, then random lists
    for k, name in enumerate(REAL_DRIVERS):
        if k % 4 == shard % 4:
            for brtys in (["212A", "106A"], ["106A", "848B"], ["106F", "212F"], ["106A", "106B", "212F"],
                          ["424A", "848F", "212B"]):
                do_sense({"kind": "sense", "driver": name, "targets": [{"brty": b} for b in brtys]}, R)
    for i in range(desc["real"]):
        do_sense(gen_sense_case(rng, driver=rng.choice(REAL_DRIVERS)), R)
    for i in range(desc["exchange"]):
        do_exchange(gen_exchange_case(rng), R)
    # exchange() against a concurrent discovery: the grid first discovery x second discovery (x counterpart taken
    # away) dealt over the shards, then random points
    grid = 2 * len(XRACE_FIRST) * len(XRACE_SECOND)
    todo = [k for k in range(grid) if k % nsh == shard]
    for i in range(desc.get("xrace", 0)):
        do_xrace(gen_xrace_case(rng, todo[i] if i < len(todo) else None), R)
    # option group combinations against the reference model: every cell of rdwr state x llcp state x card state x
    # device class, dealt round-robin; per cell one sample of the remaining dimensions that does not depend on the
    # seed and `combo`-1 that do
    import random
    for k, cell in enumerate(combo_cells()):
        if k % nsh != shard:
            continue
        for i in range(desc.get("combo", 0)):
            do_connect(gen_combo_case(cell, random.Random(7919 * k + 13) if i == 0 else rng), R)


def replay(case, R):
    k = case.get("kind")
    if k == "connect":
        do_connect(case, R)
    elif k == "sense":
        do_sense(case, R)
    elif k == "exchange":
        do_exchange(case, R)
    elif k == "xrace":
        do_xrace(case, R)
